"""C10 -- The configured heap limit is enforced before memory is taken.
Proof (ensure arithmetic, guarded-path invariant, manual allocator spec, byte-buffer bound, refutations for the
unguarded paths) + child-process tie (hx_heaplimit)."""
import glob, json, os, re
import vlib

TRUSTED = [
    "Coq 8.16.1 kernel + vm_compute (witnesses of the refuted lemmas; model evaluation in the tie)",
    "tools/extractors/c10.py: MIN_HEAP_BYTES / DEFAULT_MAX_HEAP_BYTES / MAX_ALLOC / INITIAL_GC_THRESHOLD from the source text; shape of "
    "ensure_heap_capacity (two checked_add + one comparison) and 'ensure precedes the heap mutation' in every alloc_* of runtime/src/vm/alloc.rs; "
    "size_of AelysArray/AelysVec/AelysString/Value measured by `hx_heaplimit sizes`",
    "Model/HeapLimit.v is a hand model of the allocating primitives (event order read from arrays.inc, alloc.rs (checked_array_len, "
    "vec_reserve_checked, check_string_capacity), manual_heap/alloc.rs, stdlib/bytes.rs, stdlib/string.rs); tied on every run by hx_heaplimit",
    "the host allocator is NOT modelled: the model only records the request (EHost n) and a capacity parameter; the tie runs every case in a "
    "child process under RLIMIT_AS = 3 GiB and accepts either prediction for requests between 1.5 and 3 GiB",
    "accounting is compared as a difference against a per-(operation, opt level) constant measured on a case where the operation charges nothing "
    "(the compiled code of the REPL input is charged to the same budget)",
]
IMPORTS = "From Aelys Require Import Extracted.HeapConsts Model.HeapLimit Model.HeapLimitObs."
KIND = {0: "ok", 1: "OutOfMemory", 2: "InvalidAllocationSize", 3: "TypeError", 5: "panic", 6: "abort", 7: "timeout", 9: "other"}
FAMILY = {"array_int": "array_new", "array_float": "array_new", "array_bool": "array_new", "array_obj": "array_new",
          "vec_push": "vec_push", "vec_push_float": "vec_push", "vec_push_bool": "vec_push", "vec_push_obj": "vec_push",
          "vec_fill": "vec_push", "vec_fill_float": "vec_push", "vec_fill_bool": "vec_push", "vec_fill_obj": "vec_push",
          "vec_reserve": "vec_reserve", "vec_reserve_float": "vec_reserve", "vec_reserve_bool": "vec_reserve", "vec_reserve_obj": "vec_reserve",
          "manual_alloc": "manual_alloc", "manual_reuse": "manual_alloc", "bytes_alloc": "bytes_alloc",
          "string_repeat": "string_repeat", "string_repeat_mb": "string_repeat", "pad_left": "string_pad", "pad_right": "string_pad",
          "pad_left_mb": "string_pad", "pad_right_mb": "string_pad", "concat_double": "string_concat", "string_derived": "string_derived",
          "replace_sq": "string_product", "join_sq": "string_product", "str_literal": "string_literal",
          "vec_new_lit": "vec_literal", "closures": "closure", "churn": "closure_churn", "churn_mix": "object_churn", "churn_over": "closure_churn",
          "bytes_many": "bytes_alloc", "bytes_clone": "bytes_alloc", "bytes_resize": "bytes_alloc", "bytes_cycle": "bytes_alloc", "bytes_from_string": "bytes_alloc", "fs_read_bytes": "fs_read_bytes",
          "net_udp_recv_from": "net_recv", "net_udp_recv": "net_recv", "net_recv_bytes": "net_recv", "net_recv": "net_recv"}
# bytes per unit of the size argument
UNIT = {"array_int": 8, "array_float": 8, "array_obj": 8, "array_bool": 1, "vec_push": 8, "vec_push_float": 8, "vec_push_obj": 8,
        "vec_push_bool": 1, "vec_reserve": 8, "vec_reserve_float": 8, "vec_reserve_obj": 8, "vec_reserve_bool": 1, "manual_alloc": 8,
        "vec_fill": 8, "vec_fill_float": 8, "vec_fill_obj": 8, "vec_fill_bool": 1,
        "manual_reuse": 8, "bytes_alloc": 1, "fs_read_bytes": 1, "string_repeat": 16, "string_repeat_mb": 6, "pad_left": 1, "pad_right": 1,
        "pad_left_mb": 3, "pad_right_mb": 3}
CAP_LO, CAP_HI = 1536 << 20, 3072 << 20
LOOPS = ("vec_push", "vec_push_float", "vec_push_bool", "vec_push_obj", "vec_fill", "vec_fill_float", "vec_fill_bool", "vec_fill_obj",
         "concat_double", "vec_new_lit", "closures", "manual_reuse", "replace_sq", "join_sq", "str_literal", "churn", "churn_mix", "churn_over",
         "bytes_alloc", "bytes_many", "bytes_clone", "bytes_resize", "bytes_cycle", "bytes_from_string", "string_derived")   # a refusal in the middle leaves the earlier charges
GUARDED_LOOPS = ("vec_new_lit", "closures")      # modelled as OLoop with the per-iteration requests read from the check log
BYTES_TIED = ("bytes_alloc", "bytes_many", "bytes_clone", "bytes_resize", "bytes_cycle")   # byte buffers: heap part of the delta is the input's code only
CHURN = ("churn", "churn_mix", "churn_over")                  # objects created and dropped across many collections, then two arrays of 45 % of the limit
MODELLED = set(UNIT) | {"concat_double", "replace_sq", "join_sq", "str_literal", "churn", "churn_over"} | set(GUARDED_LOOPS) | set(BYTES_TIED) | {"fs_read_bytes"}
HOST_T = 65536
# operations that make ONE request: when they are refused the host must not have been asked for anything
SINGLE = {"array_int", "array_float", "array_bool", "array_obj", "vec_reserve", "vec_reserve_float", "vec_reserve_bool", "vec_reserve_obj",
          "manual_alloc", "bytes_alloc", "fs_read_bytes", "string_repeat", "string_repeat_mb", "pad_left", "pad_right", "pad_left_mb", "pad_right_mb"}


def parse(out):
    rows = []
    for line in out.splitlines():
        f = line.split("\t")
        if len(f) < 7:
            continue
        o = f[6].split()
        detail = f[7] if len(f) > 7 else ""
        ev = {"nhost": 0, "maxhost": 0, "uncovered": 0, "first_uncovered": 0, "nchecks": 0, "nrefused": 0, "events": 0, "ck": None, "acc": None, "byt": None}
        m = re.match(r"EV:(\d+):(\d+):(\d+):(\d+):(\d+):(\d+):(\d+):(\d+):CK=([^:\s]*)(?::ACC=(\d+)/(\d+)/(\d+)/(\d+))?(?::BYT=(\d+)/(\d+))?", detail)
        if m:
            g = m.groups()
            ev = {"nhost": int(g[0]), "maxhost": int(g[1]), "uncovered": int(g[2]), "first_uncovered": int(g[3]), "nchecks": int(g[4]),
                  "nrefused": int(g[5]), "events": int(g[7]), "ck": [x for x in g[8].split(",") if x] if int(g[7]) <= 96 else None,
                  "acc": [int(x) for x in g[9:13]] if g[9] is not None else None,
                  "byt": [int(g[13]), int(g[14])] if g[13] is not None else None}
        rows.append({"id": int(f[0]), "op": f[1], "size": int(f[2]), "limit": int(f[3]), "opt": int(f[4]), "coq_op": f[5],
                     "kind": int(o[0]), "delta": int(o[1]), "dpeak_kib": int(o[2]), "a0": int(o[3]), "detail": detail, "ev": ev})
    return rows


BOUNDARY_PROBED = ("string_repeat", "string_repeat_mb", "pad_left", "pad_right", "array_int", "array_bool", "array_obj", "manual_alloc", "fs_read_bytes")


def size_class(r):
    if r["size"] < 0:
        return "negative"
    if r["size"] * (r["size"] if r["op"] in ("replace_sq", "join_sq") else UNIT.get(r["op"], 8)) >= (1 << 30):
        return "huge"
    return "moderate"


def request_bytes(r):
    """bytes the operation asks the budget for (None: not a single-request operation)"""
    op, n = r["op"], r["size"]
    if n < 0:
        return None
    if op.startswith("array_"):
        return 24 + UNIT[op] * n
    if op == "manual_alloc":
        return 8 * n
    if op == "fs_read_bytes":
        return n          # the buffer is built for the requested count, whatever the file then delivers
    if op in ("string_repeat", "string_repeat_mb"):
        return None if n <= 1 else 24 + UNIT[op] * n
    if op in ("pad_left", "pad_right", "pad_left_mb", "pad_right_mb"):
        return None if n <= 16 else 24 + (n - 16) * UNIT[op] + 16
    if op.startswith("vec_reserve"):
        # the literal has length 1 and capacity 1: the exact need for n more elements is n elements of growth
        return None if n <= 0 else UNIT[op] * n
    return None


def calibrate(rows):
    """per (op, opt): accounting delta of an input whose operation charges nothing (code of the input itself)"""
    c = {}
    for r in rows:
        key = (r["op"], r["opt"])
        if r["kind"] in (1, 2, 3, 5) and r["op"] not in LOOPS or r["op"] == "manual_reuse" and r["kind"] in (2, 3):
            c.setdefault(key, set()).add(r["delta"])
    base = {}
    for r in rows:
        key = (r["op"], r["opt"])
        if r["op"] in BYTES_TIED and r["ev"].get("byt") and r["kind"] in (0, 1, 3):
            # the heap part of the delta (the input's own code and the natives of the module); the rest is the manual counter
            base.setdefault(key, set()).add(r["delta"] - r["ev"]["byt"][1])
            continue
        if key in c:
            continue
        # operations without a failing case: the smallest size of the grid (no iteration / nothing reserved)
        if r["size"] <= 0 and r["op"] in LOOPS and (r["kind"] == 0 or r["kind"] == 1 and r["op"] == "churn_over"):
            d = r["delta"]
            if r["op"] in ("replace_sq", "join_sq"):
                d -= 24       # the empty string, allocated once
            if r["op"].startswith("vec_fill"):
                # the reservation itself is part of the modelled operation: rsv elements of growth from capacity 1
                d -= int(r["coq_op"].split()[-1]) * UNIT[r["op"]]
            if r["op"] in CHURN:
                d -= 2 * (24 + 8 * int(r["coq_op"].split()[-1]))      # the two arrays that follow the loop
            base.setdefault(key, set()).add(d)
    return c, base


def oracle(ctx, r, const, stats):
    fam, sc, kind = FAMILY.get(r["op"], r["op"]), size_class(r), r["kind"]
    rep = {"op": r["op"], "size": r["size"], "limit": r["limit"], "opt": r["opt"], "kind": KIND.get(kind, kind),
           "accounting_before": r["a0"], "accounting_delta": r["delta"], "vm_peak_growth_kib": r["dpeak_kib"], "detail": r["detail"],
           "replay_cmd": f"hx_heaplimit --cases {r['op']}:{r['size']}:{r['limit']}:{r['opt']}"}
    if kind in (5, 6, 7, 9):
        ctx.violation(f"{KIND[kind]}:{fam}:{sc}", f"{r['op']}({r['size']}) with max_heap_bytes={r['limit']} at -O{r['opt']}: {KIND[kind]} ({r['detail'][:100]})", rep)
        return
    # the budget itself
    if r["a0"] + r["delta"] > r["limit"]:
        ctx.violation(f"accounting-over-limit:{fam}", f"heap+manual = {r['a0'] + r['delta']} > limit {r['limit']}", rep)
    c = const.get((r["op"], r["opt"]))
    used0 = r["a0"] + (c if c is not None else 0)
    req = request_bytes(r)
    if req is not None and c is not None:
        fits = used0 + req <= r["limit"]
        if kind == 0 and not fits:
            ctx.violation(f"granted-over-limit:{fam}", f"request of {req} bytes granted with {used0} in use, limit {r['limit']}", rep)
        if kind == 1 and fits:
            ctx.violation(f"refused-under-limit:{fam}", f"request of {req} bytes refused with {used0} in use, limit {r['limit']}", rep)
        if fam == "fs_read_bytes":
            if kind == 0 and r["delta"] - c != min(req, 13):
                ctx.violation(f"charge-mismatch:{fam}", f"charged {r['delta'] - c} bytes for {min(req, 13)} bytes read (count {req})", rep)
        elif kind == 0 and r["delta"] - c != req and fam != "vec_reserve":     # reserve may grow by amortised doubling
            ctx.violation(f"charge-mismatch:{fam}", f"charged {r['delta'] - c} bytes for a request of {req}", rep)

    # refused, but the host had already been asked for memory: the address space of the process grew although the
    # operation makes a single request and that request was turned down (on the unchanged tree the growth is exactly 0)
    ev = r["ev"]
    # the order log (global allocator of the harness + the ensure_heap_capacity hook): a refused single request never
    # reaches the host; every host request of >= 64 KiB is preceded by a granted limit check that covers it
    if kind in (1, 2, 3) and r["op"] in SINGLE and ev["nhost"] > 0:
        ctx.violation(f"host-alloc-before-check:{fam}", f"refused ({KIND[kind]}) but the host allocator had been asked for {ev['nhost']} block(s) of up to "
                      f"{ev['maxhost']} bytes (request of {req} bytes, limit {r['limit']})", rep)
    if fam == "string_product" and kind == 1 and ev["maxhost"] > 4 * max(r["size"], 1) + HOST_T:
        ctx.violation(f"host-alloc-before-check:{fam}", f"refused (OutOfMemory) but the host allocator had been asked for a block of {ev['maxhost']} bytes "
                      f"(two operands of {r['size']} bytes, product {r['size'] ** 2}, limit {r['limit']})", rep)
    if (r["op"] in SINGLE or fam in ("vec_push", "vec_reserve", "string_product") or r["op"] in ("bytes_many", "bytes_clone", "bytes_resize", "bytes_cycle")) and ev["uncovered"] > 0:
        ctx.violation(f"host-alloc-uncovered:{fam}", f"the host allocator was asked for {ev['first_uncovered']} bytes without a preceding granted limit check "
                      f"that covers them ({ev['uncovered']} such requests)", rep)
    if kind in (1, 2, 3) and r["op"] in SINGLE and r["dpeak_kib"] > 512:
        ctx.violation(f"host-alloc-before-check:{fam}", f"refused ({KIND[kind]}) after the address space had grown by {r['dpeak_kib']} KiB: "
                      f"the host allocated before the limit check (request of {req} bytes, limit {r['limit']})", rep)
    # alloc / free / alloc / alloc: both live buffers are charged although the first of them sits in a recycled slot
    if r["op"] == "manual_reuse" and kind == 0 and c is not None and r["delta"] - c != 16 * r["size"]:
        ctx.violation("charge-mismatch:manual_alloc:slot-reuse", f"two live buffers of {r['size']} values are charged {r['delta'] - c} bytes instead of {16 * r['size']} "
                      "(a = alloc(n); free(a); b = alloc(n); c = alloc(n))", rep)
    if r["op"] == "manual_reuse" and kind == 0 and c is not None and r["a0"] + c + 16 * r["size"] > r["limit"]:
        ctx.violation("granted-over-limit:manual_alloc:slot-reuse", f"two live buffers of {8 * r['size']} bytes each granted with {r['a0'] + c} in use, limit {r['limit']}", rep)
    # the storage of a vec is accounted as it grows: what is held has been charged
    if kind == 0 and fam in ("vec_push", "vec_reserve") and r["size"] > 0 and c is not None and r["delta"] - c < UNIT[r["op"]] * r["size"]:
        ctx.violation(f"held-unaccounted:{fam}", f"a vec of {r['size']} more elements ({UNIT[r['op']] * r['size']} bytes) is held but only {r['delta'] - c} bytes were charged (limit {r['limit']})", rep)
    if kind in (1, 2, 3) and c is not None and r["delta"] != c and r["op"] not in LOOPS:
        ctx.violation(f"failed-op-changed-accounting:{fam}", f"delta {r['delta']} after a refused operation, {c} expected", rep)
    if kind == 2 and not (r["op"] in ("manual_alloc", "manual_reuse") and r["size"] == 0):
        ctx.violation(f"unexpected-kind:{fam}", "InvalidAllocationSize", rep)
    neg_ok = r["size"] < 0 and (r["op"] in ("manual_alloc", "manual_reuse", "array_int", "array_float", "array_bool", "array_obj") or fam == "vec_reserve")
    bytes_ok = fam == "bytes_alloc" and (r["size"] <= 0 or r["size"] > (256 << 20))
    fs_ok = fam == "fs_read_bytes" and (r["size"] < 0 or r["size"] > (16 << 20))
    net_ok = fam == "net_recv" and r["size"] > (16 << 20)
    if kind == 3 and not (neg_ok or bytes_ok or fs_ok or net_ok):
        ctx.violation(f"unexpected-kind:{fam}", "TypeError", rep)
    # guarded loops (vec literals, closures): Ok or OutOfMemory, and OutOfMemory only near the limit
    if r["op"] in ("vec_new_lit", "closures") and kind == 1 and r["a0"] + r["delta"] + 4096 < r["limit"]:
        ctx.violation(f"refused-under-limit:{fam}", f"OutOfMemory with only {r['a0'] + r['delta']} of {r['limit']} bytes in use", rep)
    # the counter the limit is checked against is the sum of the estimates of the objects that are on the heap -- after
    # the operation and again after a forced collection (recomputed from the heap itself: Heap::estimate_object_size over
    # every occupied slot).  sweep subtracts the estimate an object has when it dies: an estimate that changed since the
    # allocation without going through account_growth shows up here
    # std.net receive natives (loopback peer inside the child answers with 13 bytes): the receive buffer is built for the REQUESTED maximum
    # (net.recv: a 64 KiB chunk buffer), so the limit has to be consulted for that size before the buffer exists
    if fam == "net_recv":
        nreq = 24 + (65536 if r["op"] == "net_recv" else max(r["size"], 0))
        u0 = r["a0"] + (c if c is not None else 0)
        if kind == 0 and u0 + nreq > r["limit"]:
            ctx.violation("granted-over-limit:net_recv", f"{r['op']}: a receive buffer of {nreq - 24} bytes granted with {u0} in use, limit {r['limit']}", rep)
        if kind == 1 and u0 + nreq + 4096 <= r["limit"]:
            ctx.violation("refused-under-limit:net_recv", f"{r['op']}: a receive buffer of {nreq - 24} bytes refused with {u0} in use, limit {r['limit']}", rep)
        if ev["uncovered"] > 0:
            ctx.violation("host-alloc-uncovered:net_recv", f"{r['op']}: the host allocator was asked for {ev['first_uncovered']} bytes without a preceding granted limit check "
                          f"that covers them (max_heap_bytes {r['limit']})", rep)
        if kind == 1 and ev["nhost"] > 0:
            ctx.violation("host-alloc-before-check:net_recv", f"{r['op']}: refused, but the host allocator had been asked for a block of {ev['maxhost']} bytes", rep)
    # byte buffers are data the program holds: what the VM holds in them is part of the counter the limit is checked against
    byt = ev.get("byt")
    if byt and byt[0] > byt[1]:
        over = byt[0] + (ev["acc"][0] if ev.get("acc") else 0) > r["limit"]
        ctx.violation("byte-buffers-uncharged:bytes_alloc", f"after {r['op']}({r['size']}) the VM holds {byt[0]} bytes in byte buffers, the manual counter says {byt[1]} "
                      f"(limit {r['limit']}{': the program holds more than the limit' if over else ''})",
                      dict(rep, byte_buffers_held=byt[0], manual_counter=byt[1], over_limit=over))
    acc = ev.get("acc")
    if acc and acc[0] > r["limit"]:
        ctx.violation(f"held-over-limit:{fam}", f"after {r['op']}({r['size']}) the objects on the managed heap are estimated at {acc[0]} bytes under a limit of {r['limit']} "
                      f"(bytes_allocated says {acc[1]})", dict(rep, sum_of_estimates=acc[0], bytes_allocated=acc[1]))
    if r["op"] == "churn_over" and kind == 0:
        ctx.violation(f"granted-over-limit:{fam}", f"three arrays of {8 * int(r['coq_op'].split()[-1]) + 24} bytes each granted under a limit of {r['limit']}", rep)
    if acc:
        if acc[0] != acc[1]:
            ctx.violation(f"accounting-drift:{fam}", f"after {r['op']}({r['size']}) heap.bytes_allocated() = {acc[1]} but the objects on the heap are estimated at {acc[0]} bytes "
                          f"(limit {r['limit']})", dict(rep, sum_of_estimates=acc[0], bytes_allocated=acc[1], when="after the operation"))
        elif acc[2] != acc[3]:
            ctx.violation(f"accounting-drift:{fam}", f"after {r['op']}({r['size']}) and a collection heap.bytes_allocated() = {acc[3]} but the surviving objects are estimated at "
                          f"{acc[2]} bytes (limit {r['limit']})", dict(rep, sum_of_estimates=acc[2], bytes_allocated=acc[3], when="after a collection"))
    if r["op"] in CHURN and kind == 1 and r["a0"] + r["delta"] + 8 * int(r["coq_op"].split()[-1]) + 24 <= r["limit"]:
        ctx.violation(f"refused-under-limit:{fam}", f"OutOfMemory with {r['a0'] + r['delta']} of {r['limit']} bytes in use and an array of {8 * int(r['coq_op'].split()[-1]) + 24} bytes requested", rep)
    stats[KIND.get(kind, kind)] = stats.get(KIND.get(kind, kind), 0) + 1


def correspond(ctx, rows, const, tag):
    cases, idx = [], []
    # per-iteration requests of the guarded loops: the limit checks that one more iteration adds (size 2 against size 1;
    # the growth of the keep vec from capacity 1 to 4 happens in iteration 1)
    allocs = {}
    tied_loops = GUARDED_LOOPS + ("churn", "churn_over")
    cks = {(r["op"], r["opt"], r["size"]): r["ev"]["ck"] for r in rows if r["op"] in tied_loops and r["size"] in (1, 2) and r["ev"]["ck"]}
    deltas = {(r["op"], r["opt"], r["size"]): r["delta"] for r in rows if r["op"] in tied_loops and r["size"] in (1, 2)}
    for (op, opt, size), ck2 in cks.items():
        ck1 = cks.get((op, opt, 1))
        if size != 2 or not ck1 or len(ck2) <= len(ck1) or any(x.endswith("!") for x in ck2) and op != "churn_over":
            continue
        # the requests one more iteration inserts: after the common prefix (for churn the two arrays follow the loop)
        d, p = len(ck2) - len(ck1), 0
        while p < len(ck1) and ck1[p] == ck2[p]:
            p += 1
        while p > 0 and ck2[:p] + ck2[p + d:] != ck1:
            p -= 1
        if ck2[:p] + ck2[p + d:] == ck1 and not any(x.endswith("!") for x in ck2[p:p + d]):
            al = [int(x) for x in ck2[p:p + d]]
            # alloc_vec / alloc_array consult the limit twice for one charge: an adjacent equal pair is charged once when
            # that is what the accounting of one more iteration says
            per = deltas.get((op, opt, 2), 0) - deltas.get((op, opt, 1), 0)
            flags = [True] * len(al)
            if sum(al) != per:
                for i in range(1, len(al)):
                    if al[i] == al[i - 1] and flags[i - 1]:
                        flags[i - 1] = False
            if sum(a for a, f in zip(al, flags) if f) == per:
                allocs[(op, opt)] = list(zip(al, flags))
    ctx.cov.setdefault("loop_requests", {}).update({f"{k[0]}@O{k[1]}": [[a, f] for a, f in v] for k, v in allocs.items()})
    for op in tied_loops:
        if any(r["op"] == op and r["size"] in (1, 2) for r in rows) and not any(k[0] == op for k in allocs):
            ctx.broken.append(f"correspondence C10: the per-iteration requests of {op} could not be read from the check log")
    # the function object of the string-literal input: the second limit check of the n = 0 case (the first is merge_heap)
    lit_fn = {}
    for r in rows:
        if r["op"] == "str_literal" and r["size"] == 0 and r["ev"]["ck"] and len(r["ev"]["ck"]) == 2 and r["kind"] == 0:
            lit_fn[r["opt"]] = int(r["ev"]["ck"][1])
    med = {}
    for r in rows:
        if r["a0"]:
            med.setdefault((r["op"], r["opt"], r["limit"]), []).append(r["a0"])
    for k, r in enumerate(rows):
        if r["op"] not in MODELLED or r["kind"] in (7, 9):
            continue
        if r["op"] in ("replace_sq", "join_sq") and r["size"] == 1:
            continue    # one-character results: whether they are charged depends on which tiny strings are already interned
        c = const.get((r["op"], r["opt"]))
        if c is None:
            continue
        a0 = r["a0"] or sorted(med.get((r["op"], r["opt"], r["limit"]), [0]))[0]
        n = r["size"]
        cop = r["coq_op"]
        if r["op"] == "str_literal":
            cfn = lit_fn.get(r["opt"])
            if cfn is None:
                continue
            cop = f"OLiteral {cfn}"
        if r["op"] in GUARDED_LOOPS:
            al = allocs.get((r["op"], r["opt"]))
            if al is None:
                continue
            cop = "OLoop [" + "; ".join("(%d%%N, %s)" % (a, "true" if f else "false") for a, f in al) + "]"
        if r["op"] in ("churn", "churn_over"):
            al = allocs.get((r["op"], r["opt"]))
            if al is None:
                continue
            cop = r["coq_op"].split()[0] + " [" + "; ".join("(%d%%N, %s)" % (a, "true" if f else "false") for a, f in al) + "] (%s)%%Z" % r["coq_op"].split()[-1]
        q = f"QOp ({cop}) ({n})%Z {r['limit']} {CAP_LO} {CAP_HI} {a0 + c}"
        charge = r["delta"] - c if (r["kind"] == 0 or r["op"] in LOOPS) else 0
        o = f"([{r['kind']}; ({charge}); {1 if r['ev']['nhost'] > 0 else 0}]%Z, @nil Z)"
        cases.append((q, o))
        idx.append(k)
    # the push loops cost time proportional to their count in the model (up to 2 million steps for Vec<Bool>):
    # spread them over the shards instead of leaving them next to each other
    k = 16
    cost = lambda j: -(rows[idx[j]]["size"] if rows[idx[j]]["op"] in LOOPS and rows[idx[j]]["size"] > 0 else 0)
    order = sorted(range(len(cases)), key=cost)
    order = [j for c in range(k) for j in order[c::k]]
    cases = [cases[j] for j in order]
    idx = [idx[j] for j in order]
    fails, err = vlib.coq_eval_cases(tag, IMPORTS, "hl_obs", "hl_eqb", cases, shard=max(50, -(-len(cases) // k)), timeout=3000 if len(cases) > 8000 else 900)
    if err:
        ctx.broken.append("correspondence C10: model evaluation failed")
        ctx.log(err[-3000:])
    if fails:
        ctx.broken.append(f"correspondence C10: model and implementation differ on {len(fails)} of {len(cases)} cases")
        bad = [rows[idx[i]] for i in fails[:6]]
        mo, _ = vlib.coq_eval_terms(tag, IMPORTS, ["hl_obs (%s)" % cases[i][0] for i in fails[:6]])
        ctx.cov["disagreements"] = [{"op": r["op"], "size": r["size"], "limit": r["limit"], "opt": r["opt"], "implementation":
                                     [KIND.get(r["kind"]), r["delta"]], "model": m, "detail": r["detail"][:120]} for r, m in zip(bad, mo)]
        for r in bad[:2]:
            ctx.violation("model-vs-implementation", "the allocation model does not predict the observed outcome / charge",
                          {"op": r["op"], "size": r["size"], "limit": r["limit"], "opt": r["opt"], "observed": [KIND.get(r["kind"]), r["delta"]],
                           "replay_cmd": f"hx_heaplimit --cases {r['op']}:{r['size']}:{r['limit']}:{r['opt']}"})
    return len(cases)


ARGS_IMPORTS = "From Aelys Require Import Extracted.HeapConsts Model.HeapArgs."
CLI_PROGRAM = """// four manual buffers of 100000 values (3.2 MB) and a vec grown to 200000 elements: cannot fit a 2 MB limit
let a = alloc(100000)
let b = alloc(100000)
let c = alloc(100000)
let d = alloc(100000)
let v = Vec<Int>[]
let mut i = 0
while i < 200000 {
    v.push(i)
    i = i + 1
}
println("no error")
println(v.len())
"""
CLI_FLAGS = [["-ae.max-heap=2M"], ["-ae.max-heap=2M", "-ae.trusted=true"], ["--ae-trusted=true", "--ae-max-heap=2M"],
             ["-ae.allow-fs=true", "--ae-max-heap=2097152", "--deny-caps=net", "--dev"], ["-ae.trusted=true", "-ae.max-heap=64M", "-ae.max-heap=2M", "--allow-caps=fs"]]


def cli_build(ctx):
    tag = vlib.repo_tag()
    target = os.path.join(vlib.CACHE, "target", tag + "-cli")          # shared with C03/C08/C11
    with vlib.Lock("cargo-" + tag + "-cli"):
        rc, out = vlib.sh(["cargo", "build", "--offline", "-q", "-j", "6", "-p", "aelys-cli"], cwd=vlib.REPO,
                          env={"CARGO_TARGET_DIR": target, "CARGO_NET_OFFLINE": "true", "RUSTFLAGS": "-Awarnings"}, timeout=2400)
    p = os.path.join(target, "debug", "aelys-cli")
    if rc != 0 or not os.path.exists(p):
        ctx.log("cli build failed:\n" + out[-2000:])
        return None
    return p


def args_route(ctx, hx):
    """from command-line flags to the limit in force: parse_vm_args on generated flag lists against Model/HeapArgs.v, and the CLI itself
    on a program that cannot fit the limit, with flag combinations around -ae.max-heap"""
    rc, out = vlib.sh([hx, "args", "--seed", str(ctx.seed), "--random", "300" if ctx.tier == "quick" else "6000"], timeout=300)
    rows = [l.split("\t") for l in out.splitlines() if l.startswith("ARGS\t")]
    if rc != 0 or len(rows) < 100:
        ctx.broken.append("hx_heaplimit args failed")
        ctx.log(out[-1500:])
        return
    stats = {"lists": len(rows), "accepted": 0, "with_max_heap_accepted": 0, "with_trusted_and_max_heap": 0}
    for f in rows:
        ok = f[3].startswith("[1;")
        stats["accepted"] += ok
        stats["with_max_heap_accepted"] += ok and "FMaxHeap" in f[2]
        stats["with_trusted_and_max_heap"] += ok and "FMaxHeap" in f[2] and "FTrusted true" in f[2]
        # direct oracle, no model: the limit of an accepted command line is that of its last max-heap flag
        sizes = re.findall(r"FMaxHeap \(Some (\d+)%N\)", f[2])
        if ok and sizes and int(f[3].split(";")[1]) != int(sizes[-1]):
            ctx.violation("flags-limit-not-in-force", f"`{f[4]}`: the parsed configuration has max_heap_bytes = {int(f[3].split(';')[1])}, the flags say {sizes[-1]}",
                          {"args": f[4], "parsed_max_heap_bytes": int(f[3].split(";")[1]), "configured": int(sizes[-1]), "replay_cmd": f"hx_heaplimit args --seed {ctx.seed}"})
    cases = [(f"({f[2]})", f[3]) for f in rows]
    fails, err = vlib.coq_eval_cases("c10args", ARGS_IMPORTS, "args_obs", "args_eqb", cases, shard=400, timeout=600)
    if err:
        ctx.broken.append("correspondence C10 (flags): model evaluation failed")
        ctx.log(err[-2000:])
    if fails:
        ctx.broken.append(f"correspondence C10 (flags): model and parse_vm_args differ on {len(fails)} of {len(cases)} flag lists")
        for i in fails[:2]:
            ctx.violation("model-vs-implementation:flags", "the flag model does not predict the parsed configuration",
                          {"args": rows[i][4], "flags": rows[i][2], "parsed [ok; max; fs; net; exec; hot]": rows[i][3]})
    ctx.cov["flags_route"] = stats
    if min(stats["with_max_heap_accepted"], stats["with_trusted_and_max_heap"]) < 5:
        ctx.broken.append("generator audit C10 (flags): too few accepted flag lists with max-heap / with trusted and max-heap")
    ctx.cov["model_evaluations"] = ctx.cov.get("model_evaluations", 0)
    # the CLI itself
    cli = cli_build(ctx)
    if cli is None:
        ctx.broken.append("cli: aelys-cli does not build from the current tree")
        return
    d = os.path.join(vlib.CACHE, "c10_cli_" + vlib.repo_tag())
    os.makedirs(d, exist_ok=True)
    prog = os.path.join(d, "limit.aelys")
    open(prog, "w").write(CLI_PROGRAM)
    runs = []
    for flags in CLI_FLAGS:
        rc, out = vlib.sh([cli, "run"] + flags + [prog], timeout=120)
        refused = "out of memory" in out and "no error" not in out
        runs.append({"flags": flags, "exit": rc, "refused": refused})
        if not refused:
            ctx.violation("cli-limit-not-in-force", f"`aelys-cli run {' '.join(flags)} limit.aelys` (3.2 MB of manual buffers + a 1.6 MB vec under a 2 MB limit) did not "
                          f"end in out of memory: exit {rc}, output {out.strip()[:120]!r}", {"flags": flags, "program": CLI_PROGRAM, "exit": rc, "output": out[-600:]})
    ctx.cov["flags_route"]["cli_runs"] = runs
    return len(cases)


def run(ctx):
    ctx.level = "proof"
    ctx.cov["trusted_base"] = TRUSTED
    ctx.assumptions = ["the transition model is the code: checked by the child-process tie below",
                       "what the host allocator does with a request is outside the model (level: partial)"]
    proved = ctx.prove("C10", extracted=["HeapConsts", "HeapSites", "HeapEstimator", "HeapArgs"])
    if ctx.tier == "thorough" and proved:
        ctx.coqchk("C10")
    ok, out = vlib.coq_make(["Base/CaseCheck.vo", "Model/HeapLimitObs.vo"])
    if not ok:
        ctx.broken.append("coq: model files for the C10 tie do not build")
        ctx.log(out[-2000:])
        return
    flags_replay = False
    profiles = ["dev"] if ctx.tier == "quick" else ["dev", "release"]
    n_random = 400 if ctx.tier == "quick" else 8000
    total, tied, distinct, stats = 0, 0, set(), {}
    audit, by_class, by_limit, by_opt = {}, {}, {}, {}
    for prof in profiles:
        ok, paths, log = vlib.harness_build(["hx_heaplimit"], profile=prof)
        if not ok:
            ctx.broken.append("harness build failed (hx_heaplimit, %s)" % prof)
            ctx.log(log[-3000:])
            return
        cmd = [paths["hx_heaplimit"], "--seed", str(ctx.seed), "--random", str(n_random), "--opts", "0,2", "--jobs", "8"]
        if ctx.tier == "thorough":
            # all optimisation levels, a fourth limit, and the plain push loops run up to the limit (--deep)
            cmd = [paths["hx_heaplimit"], "--seed", str(ctx.seed), "--random", str(n_random), "--opts", "0,1,2,3", "--jobs", "8",
                   "--deep", "--limits", "1048576,2097152,4194304,16777216", "--timeout", "60"]
        if ctx.replay_file:
            rp = json.load(open(ctx.replay_file)).get("replay", {})
            if "op" in rp:
                cmd = [paths["hx_heaplimit"], "--cases", f"{rp['op']}:{rp['size']}:{rp['limit']}:{rp['opt']}"]
            elif "args" in rp or "flags" in rp:
                flags_replay = True         # a finding of the flags route: that route is re-run as a whole (seeded generator, fixed CLI runs)
                cmd = [paths["hx_heaplimit"], "--cases", "manual_alloc:1:1048576:0"]
        # corpus first: explicit cases, one per line `op:size:limit:opt`
        corpus = []
        for f in sorted(glob.glob(os.path.join(vlib.VERIF, "corpus", "C10", "*.cases"))):
            corpus += [l.strip() for l in open(f) if l.strip() and not l.startswith("#")]
        outs = []
        if corpus and not ctx.replay_file:
            rc, out = vlib.sh([paths["hx_heaplimit"], "--cases", ",".join(corpus)], timeout=600)
            outs.append(out)
        rc, out = vlib.sh(cmd, timeout=1500)
        if rc != 0:
            ctx.violation("hx_heaplimit-crash", "parent harness crashed", {"profile": prof, "output_tail": out[-2000:]})
            return
        outs.append(out)
        rows = [r for o in outs for r in parse(o)]
        total += len(rows)
        cfail, cbase = calibrate(rows)
        const = {("str_literal", o): 0 for o in (0, 1, 2, 3)}     # nothing of the input is charged before merge_heap
        for key, vals in list(cfail.items()) + list(cbase.items()):
            if key[0] == "str_literal":
                continue
            if len(vals) == 1:
                const[key] = next(iter(vals))
            else:
                const[key] = min(vals)
                ctx.violation(f"failed-op-changed-accounting:{FAMILY.get(key[0], key[0])}",
                              f"{key[0]} at -O{key[1]}: refused operations leave different accounting deltas {sorted(vals)}", {"op": key[0], "opt": key[1], "deltas": sorted(vals)})
        # exact boundary probe: for every single-request operation, optimisation level and limit, the sizes around the LARGEST
        # request that still fits (computed from the calibrated constant and the bytes in use of this very configuration):
        # one element / byte below, exactly at, and 1 .. 25 bytes above it.  A limit check that asks for a few bytes less (or
        # more) than is charged - an object header left out of an estimate - only shows inside that window
        if not ctx.replay_file:
            probes, seenp = [], set()
            for r in rows:
                key = (r["op"], r["opt"], r["limit"])
                c0 = const.get((r["op"], r["opt"]))
                if key in seenp or c0 is None or r["op"] not in BOUNDARY_PROBED or r["limit"] > (4 << 20):
                    continue
                seenp.add(key)
                used0 = r["a0"] + c0
                lo, hi = 2, r["limit"]
                while lo < hi:                       # largest n whose request fits
                    mid = (lo + hi + 1) // 2
                    q = request_bytes({"op": r["op"], "size": mid})
                    if q is not None and used0 + q <= r["limit"]:
                        lo = mid
                    else:
                        hi = mid - 1
                unit = max(1, (request_bytes({"op": r["op"], "size": lo + 1}) or 0) - (request_bytes({"op": r["op"], "size": lo}) or 0))
                for dn in sorted({-1, 0, 1, 2, 3, 4, 8 // unit, 16 // unit, 23 // unit, 24 // unit, 25 // unit, 32 // unit}):
                    if lo + dn > 1:
                        probes.append(f"{r['op']}:{lo + dn}:{r['limit']}:{r['opt']}")
            if probes:
                rc2, out2 = vlib.sh([paths["hx_heaplimit"], "--cases", ",".join(sorted(set(probes))), "--jobs", "8"], timeout=900)
                prow = parse(out2)
                ctx.cov.setdefault("boundary_probe", {})[prof] = {"cases": len(prow), "configurations": len(seenp)}
                rows += prow
                total += len(prow)
        for r in rows:
            audit[f"{r['op']}:{KIND.get(r['kind'], r['kind'])}"] = audit.get(f"{r['op']}:{KIND.get(r['kind'], r['kind'])}", 0) + 1
            by_class[size_class(r)] = by_class.get(size_class(r), 0) + 1
            by_limit[str(r["limit"])] = by_limit.get(str(r["limit"]), 0) + 1
            by_opt[str(r["opt"])] = by_opt.get(str(r["opt"]), 0) + 1
            oracle(ctx, r, const, stats)
            if r["kind"] != 0 or r["delta"] - const.get((r["op"], r["opt"]), 0) > 0:
                distinct.add((r["op"], r["size"], r["limit"], r["opt"]))
        # after a collection nothing of the churned objects is left: what the counter says then does not depend on how many
        # iterations there were
        residue = {}
        for r in rows:
            if r["op"] in CHURN and r["ev"].get("acc") and r["kind"] in (0, 1) and r["size"] >= 0:
                arr = 24 + 8 * int(r["coq_op"].split()[-1])          # the arrays are globals: up to three of them survive
                rem = (r["ev"]["acc"][3] - r["a0"]) % arr
                residue.setdefault((r["op"], r["opt"]), {}).setdefault(rem, r)
        for key, vals in residue.items():
            if len(vals) > 1:
                lo, hi = min(vals), max(vals)
                r = vals[lo] if vals[lo]["size"] > vals[hi]["size"] else vals[hi]
                ctx.violation(f"collection-residue-varies:{FAMILY[key[0]]}", f"{key[0]} at -O{key[1]}: after the operation and a collection bytes_allocated, less what "
                              f"was there before and the surviving arrays, is {lo} for {vals[lo]['size']} iterations (limit {vals[lo]['limit']}) and {hi} for "
                              f"{vals[hi]['size']} (limit {vals[hi]['limit']})",
                              {"op": r["op"], "size": r["size"], "limit": r["limit"], "opt": r["opt"], "residues": sorted(vals),
                               "replay_cmd": f"hx_heaplimit --cases {r['op']}:{r['size']}:{r['limit']}:{r['opt']},{r['op']}:0:{r['limit']}:{r['opt']}"})
        tied += correspond(ctx, rows, const, "c10" + prof)
        ctx.add_samples([{"op": r["op"], "size": r["size"], "limit": r["limit"], "opt": r["opt"], "kind": KIND.get(r["kind"]), "accounting_delta": r["delta"]}
                         for r in rows[:2] + rows[len(rows) // 2: len(rows) // 2 + 2]])
    if not ctx.replay_file or flags_replay:
        ok, out = vlib.coq_make(["Model/HeapArgs.vo"])
        if not ok:
            ctx.broken.append("coq: Model/HeapArgs.vo does not build")
        else:
            tied += args_route(ctx, paths["hx_heaplimit"]) or 0
    # generator audit: cases per operation x outcome kind, per size class, per limit; every modelled operation must be
    # reached with every outcome kind it can have
    ctx.cov["case_counts"] = {"by_op_and_kind": {k: v for k, v in sorted(audit.items())},
                              "by_size_class": by_class, "by_limit": by_limit, "by_opt": by_opt}
    need = {op: {"ok", "OutOfMemory"} for op in MODELLED if op != "bytes_alloc"}
    need["bytes_alloc"] = {"ok", "TypeError"}
    for op in ("bytes_many", "bytes_clone", "bytes_resize", "bytes_cycle"):
        need[op] = {"ok"}
    need["churn_over"] = {"OutOfMemory"}      # 108 % of the limit: the third array is always refused
    if ctx.tier == "quick":
        need["vec_push_bool"] = {"ok"}      # the plain Vec<Bool> loop reaches the limit only with --deep (thorough); vec_fill_bool covers the region
    for op in ("array_int", "array_float", "array_bool", "array_obj", "manual_alloc", "manual_reuse", "vec_reserve", "vec_reserve_float",
               "vec_reserve_bool", "vec_reserve_obj"):
        need[op] = need[op] | {"TypeError"}
    need["manual_alloc"] = need["manual_alloc"] | {"InvalidAllocationSize"}
    starved = [f"{op}:{k}" for op, ks in sorted(need.items()) for k in sorted(ks) if audit.get(f"{op}:{k}", 0) < 2]
    if starved and not ctx.replay_file:
        ctx.broken.append("generator audit C10: starved classes " + ", ".join(starved[:12]))
    ctx.cov["evaluations"] = total
    ctx.cov["model_evaluations"] = tied
    ctx.cov["distinct_nontrivial"] = len(distinct)
    ctx.cov["outcome_kinds"] = stats
    ctx.cov["input_distribution"] = {
        "text": "every allocating primitive (Array<Int/Float/Bool>(n), Array(n), Vec push loop, Vec reserve, alloc(n), bytes.alloc(n), "
                "string repeat / pad_left / pad_right, repeated s = s + s, loops creating vec literals and closures) as a three-input REPL session "
                "(prelude with the size in a global, the operation + use of its value, read-back) on a fresh VM in a child process with "
                "max_heap_bytes in {1 MiB, 2 MiB, 16 MiB} and RLIMIT_AS 3 GiB, at -O0 and -O2; structured sizes {-1, 0, 1, 2, 1000, limit/2, "
                "limit-100000, limit-1, limit, limit+1, 2*limit (in units of the element), 2^31, 10^11, 2^47-1, -2^47} plus seeded random sizes "
                "(small, around the limit, around limit-700000, powers of two up to 2^46, negative powers of two)",
    }
    ctx.cov["rule"] = ("per case: outcome kind and accounting delta (heap().bytes_allocated()+manual_heap().bytes_allocated() after - before the "
                       "operation input) compared with the Coq model evaluated on (operation, size, limit, bytes in use); direct oracle: no panic / "
                       "abort / timeout, accounting <= limit, granted iff the request fits, exact charge, refused operations leave the budget "
                       "unchanged, no vec held beyond the limit, no host allocation before an OutOfMemory refusal (VmPeak); "
                       "distinct = distinct (op, size, limit, opt) that fail or charge something")
