"""C14 -- a REPL session keeps its state and survives failing inputs.
Proof over the two-view globals / frame stack model (Model/GlobalsSync.v) + tie by generated
sessions (hx_repl): every step of a session is compared with a reference interpreter of the
session (direct oracle, model-independent) and with the Coq model's predicted observations."""
import json, os, re
import vlib

IMPORTS = "From Aelys Require Import Model.GlobalsSync.\nOpen Scope Z_scope."

TRUSTED = [
    "Coq 8.16.1 kernel + vm_compute (witnesses, Examples, evaluation of the model on the tie's sessions)",
    "tools/extractors/c14.py: source-shape flags (run_with_vm_and_opt clears frames first; update_global_mutability after "
    "compile; execute()? before sync_globals_to_hashmap; host call entry points do not clear frames / do not sync; Return syncs "
    "only towards a caller frame) from repl.rs, call_api/{kinds,cached}.rs, calls.inc",
    "Model/GlobalsSync.v is a hand model of execute / set_global_by_index / sync_globals_to_hashmap / "
    "sync_current_function_globals / prepare_globals_for_function / the call and Return protocol / host call entry; values "
    "are integers (strings and functions are coded), instruction semantics other than global access are not modelled; tied by "
    "hx_repl on every run (printed values, the by-name map read through get_global, the frame-stack depth after every step)",
    "hx_repl (generator, renderer, reference interpreter of sessions, translation of the generated program to model "
    "operations using the layouts read from the real compiled functions) and hxlib::runner (output capture H1, budget H3)",
    "session semantics as a whole (parser, type inference, known-globals bookkeeping, code generation) are explored by the tie, "
    "not proved; imports (`needs`) inside sessions are not generated",
]


def parse_lists(t):
    return [[int(x) for x in re.findall(r"-?\d+", part)] for part in re.findall(r"\[([^\[\]]*)\]", t)]


def split_flags(m):
    """model step [failed; flags...; -7; obs...] -> (failed, flags, obs)"""
    k = m.index(-7)
    return m[0], m[1:k], m[k + 1:]


def run(ctx):
    ctx.level = "proof"
    ctx.cov["trusted_base"] = TRUSTED
    ctx.assumptions = [
        "the model's operations are what the VM does: checked on every run by comparing the model's observations (printed "
        "values, by-name map, frame depth) with the real ones on every generated session, including the sessions on which the "
        "real code violates the property",
        "entry conditions ops_ok (a layout id names one layout; syncs are performed for the layout of the running frame)",
    ]
    ctx.cov["refuted_lemmas"] = ["host_call_returns_callee_value without the entry condition frames = []: refuted by "
                                 "host_call_after_failure_refuted; host-call writes of globals reach later inputs: refuted by "
                                 "host_call_write_lost_witness"]
    proved = ctx.prove("C14", extracted=["ReplShape"])
    if ctx.tier == "thorough" and proved:
        ctx.coqchk("C14")
    ok, out = vlib.coq_make(["Base/CaseCheck.vo", "Model/GlobalsSync.vo"])
    if not ok:
        ctx.broken.append("coq: model files for the C14 tie do not build")
        ctx.log(out[-2000:])
        return
    corpus_cases(ctx)
    n_cases = 300 if ctx.tier == "quick" else 4000
    profiles = ["dev"] if ctx.tier == "quick" else ["dev", "release"]
    total, nsteps = 0, 0
    distinct = set()
    kinds, by_sig = {}, {}
    for prof in profiles:
        ok, paths, log = vlib.harness_build(["hx_repl"], profile=prof)
        if not ok:
            ctx.broken.append("harness build failed (hx_repl, %s)" % prof)
            ctx.log(log[-3000:])
            return
        rc, out = vlib.sh([paths["hx_repl"], "--seed", str(ctx.seed), "--n", str(n_cases)], timeout=1500)
        cases = []
        for line in out.splitlines():
            f = line.split("\t")
            if len(f) >= 9 and f[0] == "CASE":
                cases.append({"seed": f[1], "query": f[2], "observed": f[3], "real": f[4].split(" ;; "), "oracle": f[5].split(" ;; "),
                              "source": f[6], "problems": f[7], "kinds": f[8], "stale": len(f) > 9 and f[9] == "1"})
        if rc != 0 or len(cases) != n_cases:
            ctx.violation("c14:harness-crash", "hx_repl died (the VM took the process down) after %d sessions" % len(cases),
                          {"profile": prof, "completed": len(cases), "cmd": f"hx_repl --seed {ctx.seed} --n {n_cases}",
                           "output_tail": out[-1500:]})
            if not cases:
                return
        total += len(cases)
        for c in cases:
            nsteps += len(c["real"])
            distinct.add(c["source"])
            for kv in c["kinds"].split(","):
                if "=" in kv:
                    k, v = kv.split("=")
                    kinds[k] = kinds.get(k, 0) + int(v)
        for c in cases:
            if c["problems"]:
                ctx.broken.append("tie C14: harness could not relate the compiled unit to the generated program: " + c["problems"][:200])
                ctx.cov.setdefault("harness_problems", []).append({"seed": c["seed"], "problems": c["problems"][:300]})
                break
        pairs = [(c["query"], c["observed"]) for c in cases]
        fails, err = vlib.coq_eval_cases("c14", IMPORTS, "session_obs_noflags", "zobs_eqb", pairs, shard=20)
        if err:
            ctx.broken.append("correspondence C14: model evaluation failed")
            ctx.log(err[-3000:])
        failset = set(fails)
        diverging = [i for i, c in enumerate(cases) if c["real"] != c["oracle"]]
        need = sorted(failset | set(diverging))
        model = {}
        if need:
            mo, _ = vlib.coq_eval_terms("c14", IMPORTS, [f"session_obs ({cases[i]['query']})" for i in need])
            for i, m in zip(need, mo):
                model[i] = parse_lists(m.split(":")[0]) if m else None
        nrep = 0
        for i in need:
            c = cases[i]
            rep = {"case_seed": c["seed"], "profile": prof, "source": c["source"], "real_steps": c["real"], "oracle_steps": c["oracle"],
                   "observed": c["observed"], "model_query": c["query"]}
            m = model.get(i)
            obs = parse_lists(c["observed"])
            k = next((j for j in range(len(c["real"])) if j >= len(c["oracle"]) or c["real"][j] != c["oracle"][j]), None)
            if c["stale"] and k is not None and k == len(c["real"]) - 1 and (m is not None and len(m) == len(obs)) and \
                    all((split_flags(m[j])[0], split_flags(m[j])[2]) == (obs[j][0], obs[j][obs[j].index(-7) + 1:]) for j in range(len(obs))):
                # the last step was a host call entered on a non-empty frame stack (not given to the model); everything
                # before it is predicted by the model
                sig = "c14:host-call-on-stale-frames"
                rep["model"] = m
                ctx.violation(sig, f"step {k}: a host call entered while frames of an earlier failure are still on the stack does not return "
                              f"what the callee returns (real {c['real'][k]!r}, expected {c['oracle'][k]!r})", rep)
                by_sig[sig] = by_sig.get(sig, 0) + 1
                continue
            if m is None or len(m) != len(obs):
                ctx.violation("c14:model-eval-failed", "no model prediction for this session", rep)
                continue
            msteps = [split_flags(x) for x in m]
            ostep = [(x[0], x[x.index(-7) + 1:]) for x in obs]
            mk = next((j for j in range(len(obs)) if (msteps[j][0], msteps[j][2]) != ostep[j]), None)   # first step the model mispredicts
            stale = next((j for j in range(len(msteps)) if 1 in msteps[j][1]), None)                      # host call on a non-empty frame stack
            rep["first_step_differing_from_oracle"] = k
            rep["first_step_differing_from_model"] = mk
            rep["model"] = m
            if k is None:
                # the session follows the property; the model must predict it exactly
                nrep += 1
                if nrep <= 3:
                    ctx.violation("c14:model-mismatch", "the implementation follows the property on this session but the model "
                                  "predicts other observations: Model/GlobalsSync.v no longer describes the code", rep)
                continue
            steps_src = re.split(r"\];\s*\[", c["query"].strip()[2:-2])
            if (mk is None or mk > k) and not c["stale"]:
                # the model explains every observation up to the diverging step: which modelled behaviour is it?
                host_writes = [j for j in range(k + 1) if steps_src[j].lstrip().startswith("OHostCall")
                               and ("OAddIdx" in steps_src[j] or "OSetIdx" in steps_src[j]) and 2 in msteps[j][1]]
                sig = "c14:host-call-global-write-lost" if host_writes else "c14:divergence-explained-by-model-only"
            else:
                sig = "c14:unexplained-session-divergence"
            ctx.violation(sig, f"step {k} of the session does not do what the session's reference semantics say "
                          f"(real {c['real'][k] if k < len(c['real']) else None!r}, expected {c['oracle'][k] if k < len(c['oracle']) else None!r})", rep)
            by_sig[sig] = by_sig.get(sig, 0) + 1
        ctx.add_samples([{"source": c["source"][:500], "real_steps": c["real"][:6], "oracle_steps": c["oracle"][:6]} for c in cases[:2] + cases[7:8]])
    ctx.cov["evaluations"] = total
    ctx.cov["distinct_nontrivial"] = len(distinct)
    ctx.cov["session_steps"] = nsteps
    ctx.cov["input_distribution"] = {"step_kinds": kinds, "sessions_violating_the_property_by_signature": by_sig}
    ctx.cov["rule"] = ("seeded random sessions of 5-14 steps on one VM: REPL inputs of 1-4 statements (let / let mut of ints and strings, "
                       "redefinitions, assignments and increments of earlier `let mut`, fn definitions and redefinitions of four kinds "
                       "-- pure, reading a global, mutating a global, failing --, prints of variables and of calls), inputs rejected at "
                       "compile time (undefined name, syntax error, assignment to an immutable) with valid statements around the bad "
                       "one, inputs failing at run time after printing / defining fresh names, host calls by name and through a cached "
                       "callable (succeeding, failing inside the callee, undefined name); no input observes the partial effects of a "
                       "failed input; function bodies contain no global call sites (keeps the stream out of C05's slot-collision class); "
                       "opt level 1 and (every 5th session) 0; per step: class, printed text and returned value vs the reference "
                       "interpreter; printed values, by-name map and frame depth vs the Coq model")


def corpus_cases(ctx):
    d = os.path.join(vlib.VERIF, "corpus", "C14")
    if not os.path.isdir(d):
        return
    ok, paths, log = vlib.harness_build(["hx_repl"])
    if not ok:
        return
    for fn in sorted(os.listdir(d)):
        if not fn.endswith(".json"):
            continue
        spec = json.load(open(os.path.join(d, fn)))
        src = os.path.join(d, spec["session"])
        rc, out = vlib.sh([paths["hx_repl"], "--session", src, "--opt", str(spec.get("opt", 1))], timeout=120)
        got = []
        text = open(src).read()
        steps = text.split("\n=====\n")
        for line, st in zip([l for l in out.splitlines() if "\t" in l], steps):
            f = line.split("\t")
            cls = "ok" if f[1] == "ok" else ("compile-error" if f[1] == "compile-error" else "runtime-error")
            val = f[3] if st.strip().startswith("@") else ""
            o = f[2]
            if len(o) > 200:
                o = o[:200] + "..."
            got.append(f"{cls}|{o}|{val}")
        want = spec["expected"]
        ctx.cov.setdefault("corpus", []).append({"file": fn, "observed": got, "expected_by_property": want})
        if got != want:
            ctx.violation(spec["signature"], spec["what"] + f" (observed {got}, the property requires {want})",
                          {"corpus": fn, "session": text, "observed": got, "expected": want})
