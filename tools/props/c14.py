"""C14 -- a REPL session keeps its state and survives failing inputs.
Proof over the two-view globals / frame stack model (Model/GlobalsSync.v) + tie by generated
sessions (hx_repl): every step of a session is compared with a reference interpreter of the
session (direct oracle, model-independent) and with the Coq model's predicted observations."""
import json, os, re
import vlib

IMPORTS = "From Aelys Require Import Model.GlobalsSync.\nOpen Scope Z_scope."
IMPORTS_S = "From Aelys Require Import Extracted.CallCacheConsts Extracted.ReplShape Model.Session.\nOpen Scope Z_scope."

TRUSTED = [
    "Coq 8.16.1 kernel + vm_compute (witnesses, Examples, evaluation of the model on the tie's sessions)",
    "tools/extractors/c14.py: source-shape flags (run_with_vm_and_opt clears frames first; update_global_mutability after "
    "compile; execute()? before sync_globals_to_hashmap; host call entry points prepare + push + run_fast; cached callables set the "
    "frame's mapping id; Return syncs towards a caller frame and when leaving the run loop; run_fast truncates the frame stack on "
    "error) from repl.rs, call_api/{kinds,cached}.rs, calls.inc, run.rs",
    "Model/GlobalsSync.v is a hand model of execute / set_global_by_index / sync_globals_to_hashmap / "
    "sync_current_function_globals / prepare_globals_for_function / the call and Return protocol / host call entry; values "
    "are integers (strings and functions are coded), instruction semantics other than global access are not modelled; tied by "
    "hx_repl on every run (printed values, the by-name map read through get_global, the frame-stack depth after every step)",
    "hx_repl (generator, renderer, reference interpreter of sessions, translation of the generated program to model "
    "operations using the layouts read from the real compiled functions) and hxlib::runner (output capture H1, budget H3)",
    "session semantics as a whole (parser, type inference, known-globals bookkeeping, code generation) are explored by the tie, "
    "not proved; module loading itself is C19's subject (here only that imported names stay visible and callable in later steps)",
]


# every instruction / step / unit kind of Model/Session.v, as it appears in the terms the harness emits
MODEL_CLASSES = [
    ("ISet", r"\bISet\b"), ("ICopy (function value copied / rebound)", r"\bICopy\b"), ("IAdd", r"\bIAdd\b"), ("IPrint", r"\bIPrint\b"),
    ("IOut", r"\bIOut\b"), ("IDef", r"\bIDef\b"), ("ICall through a global", r"ICall \(CGlobal"), ("ICall of the function-valued argument", r"ICall CArg"),
    ("ICall passing a function value", r"%N \(Some \d+%N\)"), ("IFail", r"\bIFail\b"),
    ("SInput accepted", r"SInput \[[^\]]*\]*?.*? true "), ("SInput rejected at compile time", r"\] false "),
    ("module unit that runs", r"mkMU \d+%N false \[(?:Some|None)"), ("re-import of a loaded module (exports only)", r"mkMU \d+%N false \[\] \[\]"),
    ("import that cannot be loaded", r"mkMU 0%N true"), ("call of a module's stateful function", r"IAdd \d+%N 1; IPrint"),
    ("SHost", r"\bSHost\b"), ("SHost with the wrong arity", r"SHost \d+%N 2%N"), ("SSet (host set_global)", r"\bSSet\b"),
    ("function without globals of its own (layout [])", r"mkF \[\] "), ("function of arity 2", r"\] 2%N \["),
    ("self-recursive function (frame limit)", r"mkF \[[^\]]*\] 1%N \[ICall \(CGlobal"),
]


def parse_lists(t):
    return [[int(x) for x in re.findall(r"-?\d+", part)] for part in re.findall(r"\[([^\[\]]*)\]", t)]


def split_flags(m):
    """model step [failed; flags...; -7; obs...] -> (failed, flags, obs)"""
    k = m.index(-7)
    return m[0], m[1:k], m[k + 1:]


def run(ctx):
    ctx.level = "proof"
    ctx.cov["trusted_base"] = TRUSTED
    ctx.assumptions = [
        "the model's operations are what the VM does: checked on every run by comparing the model's observations (printed "
        "values, by-name map, frame depth) with the real ones on every generated session, including the sessions on which the "
        "real code violates the property",
        "entry conditions ops_ok (a layout id names one layout; syncs are performed for the layout of the running frame)",
    ]
    ctx.cov["refuted_lemmas"] = []
    proved = ctx.prove("C14", extracted=["ReplShape"])
    proved2 = ctx.prove("C14Session", extracted=["ReplShape", "CallCacheConsts"])
    if ctx.tier == "thorough" and proved and proved2:
        ctx.coqchk("C14")
        ctx.coqchk("C14Session")
    ok, out = vlib.coq_make(["Base/CaseCheck.vo", "Model/GlobalsSync.vo", "Model/Session.vo"])
    if not ok:
        ctx.broken.append("coq: model files for the C14 tie do not build")
        ctx.log(out[-2000:])
        return
    corpus_cases(ctx)
    n_cases = 300 if ctx.tier == "quick" else 8000
    # (build profile, optimisation level, cases, seed): quick = one run; thorough = dev + release (overflow checks and debug
    # assertions on / off), every optimisation level, three more seeds
    if ctx.tier == "quick":
        # (levels 2 and 3 through the host API run_with_vm_and_opt: a session unit is optimised by Optimizer::for_session_unit at
        #  every level; the REPL command itself uses level 1)
        runs = [("dev", 1, n_cases, ctx.seed), ("dev", 2, n_cases // 3, ctx.seed + 11), ("dev", 3, n_cases // 3, ctx.seed + 12)]
    else:
        runs = [("dev", 1, n_cases, ctx.seed), ("release", 1, n_cases, ctx.seed), ("dev", 0, n_cases // 2, ctx.seed + 101),
                ("release", 0, n_cases // 4, ctx.seed + 202), ("dev", 2, n_cases // 2, ctx.seed + 303), ("release", 2, n_cases // 4, ctx.seed + 404),
                ("dev", 3, n_cases // 2, ctx.seed + 505), ("release", 3, n_cases // 4, ctx.seed + 606)]
    total, nsteps = 0, 0
    s_total, s_untranslated = 0, {}
    model_classes, lengths = {}, {}
    distinct = set()
    kinds, by_sig = {}, {}
    for prof, opt_level, n_cases, run_seed in runs:
        ok, paths, log = vlib.harness_build(["hx_repl"], profile=prof)
        if not ok:
            ctx.broken.append("harness build failed (hx_repl, %s)" % prof)
            ctx.log(log[-3000:])
            return
        rc, out = vlib.sh([paths["hx_repl"], "--seed", str(run_seed), "--n", str(n_cases), "--opt", str(opt_level)], timeout=2400)
        cases = []
        sess = {}
        for line in out.splitlines():
            f = line.split("\t")
            if len(f) >= 7 and f[0] == "SESS":
                sess[f[1]] = {"ok": f[2] == "1", "code": f[3], "steps": f[4], "expect": f[5], "why": f[6]}
            if len(f) >= 9 and f[0] == "CASE":
                cases.append({"seed": f[1], "query": f[2], "observed": f[3], "real": f[4].split(" ;; "), "oracle": f[5].split(" ;; "),
                              "source": f[6], "problems": f[7], "kinds": f[8], "stale": len(f) > 9 and f[9] == "1"})
        if rc != 0 or len(cases) != n_cases:
            ctx.violation("c14:harness-crash", "hx_repl died (the VM took the process down) after %d sessions" % len(cases),
                          {"profile": prof, "opt": opt_level, "seed": run_seed, "completed": len(cases), "cmd": f"hx_repl --seed {run_seed} --n {n_cases} --opt {opt_level}",
                           "output_tail": out[-1500:]})
            if not cases:
                return
        total += len(cases)
        for c in cases:
            nsteps += len(c["real"])
            distinct.add(c["source"])
            for kv in c["kinds"].split(","):
                if "=" in kv:
                    k, v = kv.split("=")
                    kinds[k] = kinds.get(k, 0) + int(v)
        for c in cases:
            if c["problems"]:
                ctx.broken.append("tie C14: harness could not relate the compiled unit to the generated program: " + c["problems"][:200])
                ctx.cov.setdefault("harness_problems", []).append({"seed": c["seed"], "problems": c["problems"][:300]})
                break
        pairs = [(c["query"], c["observed"]) for c in cases]
        fails, err = vlib.coq_eval_cases("c14", IMPORTS, "session_obs_noflags", "zobs_eqb", pairs, shard=20)
        if err:
            ctx.broken.append("correspondence C14: model evaluation failed")
            ctx.log(err[-3000:])
        failset = set(fails)
        # the whole session as code + driver steps of Model/Session.v (layouts, arities, module units and export
        # registrations read off the real compiled units): well formed, specified, and the by-name specification and the
        # two-view machine both print exactly what the real session printed, step by step
        scases = [(c["seed"], sess[c["seed"]]) for c in cases if c["seed"] in sess and sess[c["seed"]]["ok"]]
        untranslated = [sess[c["seed"]]["why"] if c["seed"] in sess else "no SESS line" for c in cases if not (c["seed"] in sess and sess[c["seed"]]["ok"])]
        s_total += len(scases)
        for _, x in scases:
            for key, pat in MODEL_CLASSES:
                model_classes[key] = model_classes.get(key, 0) + len(re.findall(pat, x["steps"] + " " + x["code"]))
            nst = x["expect"].count("], S")
            lengths[nst] = lengths.get(nst, 0) + 1
            model_classes["step status SErr"] = model_classes.get("step status SErr", 0) + x["expect"].count("SErr")
            model_classes["step status SOk"] = model_classes.get("step status SOk", 0) + x["expect"].count("SOk")
        for w in untranslated:
            s_untranslated[w] = s_untranslated.get(w, 0) + 1
        sfails, serr = vlib.coq_eval_cases("c14s", IMPORTS_S, "session_tie", "sobs_eqb",
                                           [(f"({x['code']}, {x['steps']})", x["expect"]) for _, x in scases], shard=20)
        if serr:
            ctx.broken.append("correspondence C14: evaluation of Model/Session.v failed")
            ctx.log(serr[-3000:])
        sfail_seeds = {scases[i][0] for i in sfails}
        for i, c in enumerate(cases):
            if c["seed"] in sfail_seeds:
                failset.add(i)
        # No failure class is excused any more (KF-C14-1..4 are repaired): a step that differs from the session's
        # reference semantics is a violation with the session as the failing input; so is a host call that finds
        # frames of an earlier run on the stack, and a session on which the model mispredicts an observation
        def first_div(c):
            return next((j for j in range(len(c["real"])) if j >= len(c["oracle"]) or c["real"][j] != c["oracle"][j]), None)
        # concrete failing sessions first, then sessions the model mispredicts
        div = [i for i, c in enumerate(cases) if first_div(c) is not None]
        stale = [i for i, c in enumerate(cases) if first_div(c) is None and c["stale"]]
        mism = [i for i, c in enumerate(cases) if first_div(c) is None and not c["stale"] and i in failset]
        for i in div[:5] + stale[:2] + mism[:3]:
            c = cases[i]
            k = first_div(c)
            rep = {"case_seed": c["seed"], "profile": prof, "opt": opt_level, "seed": run_seed, "source": c["source"], "real_steps": c["real"], "oracle_steps": c["oracle"],
                   "observed": c["observed"], "model_query": c["query"], "first_step_differing_from_oracle": k}
            if i in failset and i in set(fails):
                mo, _ = vlib.coq_eval_terms("c14", IMPORTS, [f"session_obs_noflags ({c['query']})"])
                rep["model"] = mo[0]
            if c["seed"] in sfail_seeds:
                x = sess[c["seed"]]
                mo, _ = vlib.coq_eval_terms("c14s", IMPORTS_S, [f"session_tie ({x['code']}, {x['steps']})", f"session_machine ({x['code']}, {x['steps']})"])
                rep["session_model"] = {"code": x["code"], "steps": x["steps"], "real_observations": x["expect"],
                                        "specification_and_machine (marker -1: ill-formed layouts, -2: unspecified, -3: they differ)": mo[0] if mo else None,
                                        "machine_alone": mo[1] if mo and len(mo) > 1 else None}
            if k is not None:
                ctx.violation("c14:session-divergence", f"step {k} of the session does not do what the session's reference semantics say "
                              f"(real {c['real'][k] if k < len(c['real']) else None!r}, expected {c['oracle'][k] if k < len(c['oracle']) else None!r})", rep)
            elif c["stale"]:
                ctx.violation("c14:frames-left-between-steps", "a host call found frames of an earlier run on the VM's frame stack", rep)
            else:
                ctx.violation("c14:model-mismatch", "the implementation follows the property on this session but the model "
                              "predicts other observations: Model/GlobalsSync.v / Model/Session.v no longer describe the code", rep)
        if div:
            by_sig["c14:session-divergence"] = by_sig.get("c14:session-divergence", 0) + len(div)
        if mism:
            by_sig["c14:model-mismatch"] = by_sig.get("c14:model-mismatch", 0) + len(mism)
        ctx.add_samples([{"source": c["source"][:500], "real_steps": c["real"][:6], "oracle_steps": c["oracle"][:6]} for c in cases[:2] + cases[7:8]])
    ctx.cov["evaluations"] = total
    ctx.cov["runs (profile, optimisation level, cases, seed)"] = [list(r) for r in runs]
    ctx.cov["distinct_nontrivial"] = len(distinct)
    ctx.cov["session_steps"] = nsteps
    ctx.cov["sessions_checked_against_Model_Session"] = s_total
    ctx.cov["sessions_not_translated_to_Model_Session"] = s_untranslated
    if total and s_total * 10 < total * 9:
        ctx.broken.append("tie C14: fewer than 90%% of the generated sessions could be translated to Model/Session.v (%d of %d)" % (s_total, total))
    ctx.cov["input_distribution"] = {"step_kinds": kinds, "sessions_violating_the_property_by_signature": by_sig,
                                     "session_model_classes (occurrences in the Model/Session.v terms of this run)": model_classes,
                                     "steps_per_session (histogram)": {str(k): v for k, v in sorted(lengths.items())}}
    starved = [k for k, _ in MODEL_CLASSES if model_classes.get(k, 0) < (3 if ctx.tier == "quick" else 30)]
    if s_total and starved:
        ctx.broken.append("tie C14: the generator reaches these classes of Model/Session.v fewer than %d times: %s" % (3 if ctx.tier == "quick" else 30, "; ".join(starved)))
    ctx.cov["rule"] = ("seeded random sessions of 5-14 steps on one VM: REPL inputs of 1-4 statements (let / let mut of ints and strings, "
                       "redefinitions, assignments and increments of earlier `let mut`, fn definitions and redefinitions of four kinds "
                       "-- pure, reading a global, mutating a global, failing --, prints of variables and of calls), inputs rejected at "
                       "compile time (undefined name, syntax error, assignment to an immutable) with valid statements around the bad "
                       "one, inputs failing at run time after printing / defining fresh names, `needs` inputs (whole-module, aliased and selective "
                       "imports of two generated user modules written to the session's working directory, and of std.math) whose every imported "
                       "spelling is used by LATER inputs and by host calls into the imported functions, host calls by name and through a cached "
                       "callable (succeeding, failing inside the callee, undefined name); no input observes the partial effects of a "
                       "failed input; functions that call other global functions (two-level calls from inputs and from the host, including into a failing callee); "
                       "opt level 1 and (every 5th session) 0; per step: class, printed text and returned value vs the reference "
                       "interpreter; printed values, by-name map and frame depth vs the Coq model")


def corpus_cases(ctx):
    d = os.path.join(vlib.VERIF, "corpus", "C14")
    if not os.path.isdir(d):
        return
    ok, paths, log = vlib.harness_build(["hx_repl"])
    if not ok:
        return
    for fn in sorted(os.listdir(d)):
        if not fn.endswith(".json"):
            continue
        spec = json.load(open(os.path.join(d, fn)))
        src = os.path.join(d, spec["session"])
        rc, out = vlib.sh([paths["hx_repl"], "--session", src, "--opt", str(spec.get("opt", 1))], timeout=120,
                          cwd=os.path.join(d, spec["cwd"]) if spec.get("cwd") else None)
        got = []
        text = open(src).read()
        steps = text.split("\n=====\n")
        for line, st in zip([l for l in out.splitlines() if "\t" in l], steps):
            f = line.split("\t")
            cls = "ok" if f[1] == "ok" else ("compile-error" if f[1] == "compile-error" else "runtime-error")
            val = f[3] if st.strip().startswith("@") else ""
            o = f[2]
            if len(o) > 200:
                o = o[:200] + "..."
            got.append(f"{cls}|{o}|{val}")
        want = spec["expected"]
        ctx.cov.setdefault("corpus", []).append({"file": fn, "observed": got, "expected_by_property": want})
        if got != want:
            ctx.violation(spec["signature"], spec["what"] + f" (observed {got}, the property requires {want})",
                          {"corpus": fn, "session": text, "observed": got, "expected": want})
