"""C15 -- Layout of the source text does not change a program's meaning.
Proof (Props/C15.v: semicolon insertion over pieces, integer literal text) + translator
(Extracted/AsiTokens.v) + contract ties (real Lexer vs model on piece lists and literal texts) +
observational tie / direct oracle (generated programs vs their licensed re-layouts, run behaviour)."""
import json, os, re
import vlib

TRUSTED = [
    "Coq 8.16.1 kernel (+ vm_compute in the refutation witnesses and the non-vacuity Example)",
    "tools/extractors/c15.py transcribes enum TokenKind, can_end_statement, which bracket arms of scan_token change "
    "nesting_depth, and which characters next_token_is_else skips; it refuses (tie broken) when the newline arm is no longer "
    "`pending_semicolon && nesting_depth == 0 && !next_token_is_else()`",
    "Model/Asi.v is a hand model of Lexer::scan / scan_token / next_token_is_else over pieces (token texts are abstract: "
    "maximal munch inside one token text and between adjacent texts is NOT modelled, the renderer only juxtaposes texts "
    "that cannot merge); tied on every run by hx_asi --mode lex against the real Lexer",
    "Model/Literal.v is a hand model of number.rs for integer literals (i64::from_str_radix / parse::<i64> as positional "
    "value with overflow above i64::MAX); tied by hx_asi --mode lit; float literals are not modelled",
    "the PARSER half of the property (what the parser makes of the token stream: Grouping nodes, `;;`, statement "
    "boundaries) carries one theorem only -- the is_expression_start list, regenerated from atom.rs, covers every kind "
    "primary()/unary() accept -- the rest is explored by the variant-vs-original runs; value_block_yields in "
    "Model/ExprStart.v is a hand reading of block_expression, tied by the if-expression variants",
    "run behaviour is compared as (outcome class, captured output, final value) at -O0 and -O2 under an instruction budget; "
    "for rejected programs only the fact of rejection is compared (messages contain positions)",
]
IMPORTS = "From Aelys Require Import Extracted.AsiTokens Model.Asi Model.Literal Model.BlockParse Model.AsiObs."

KNOWN_CLASS = {
    "tilde-at-block-value": "the value of an if-expression branch starts with the prefix operator `~` (KF-C15-3, repaired by 3fa327d)",   # repaired root causes the corpus pairs guard against (regression cases)
    "comment-line-before-else": "a `//` comment on a line of its own between `}` and an `else` that starts the next line",
    "newline-separator-inside-parens": "newline-separated statements of a block that sits inside ( or [ (lambda body passed as an argument or wrapped in parentheses)",
}


def unesc(s):
    out, i = [], 0
    while i < len(s):
        c = s[i]
        if c != "\\" or i + 1 >= len(s):
            out.append(c)
            i += 1
            continue
        n = s[i + 1]
        if n == "x" and i + 3 < len(s):
            out.append(chr(int(s[i + 2:i + 4], 16)))
            i += 4
            continue
        out.append({"n": "\n", "t": "\t", "r": "\r", "\\": "\\"}.get(n, "\\" + n))
        i += 2
    return "".join(out)


def py_int_literal(text):
    """Reference value of an integer literal text (Python, independent of the model), or -1."""
    m = re.fullmatch(r"0[xX]([0-9a-fA-F_]*)", text)
    base, body = (16, m.group(1)) if m else (None, None)
    if base is None:
        m = re.fullmatch(r"0[bB]([01_]*)", text)
        base, body = (2, m.group(1)) if m else (None, None)
    if base is None:
        m = re.fullmatch(r"0[oO]([0-7_]*)", text)
        base, body = (8, m.group(1)) if m else (None, None)
    if base is None:
        m = re.fullmatch(r"[0-9][0-9_]*", text)
        base, body = (10, text) if m else (None, None)
    if base is None:
        return -1
    body = body.replace("_", "")
    if not body:
        return -1
    v = int(body, base)
    return v if v <= (1 << 63) - 1 else -1


def run_corpus(ctx, hx):
    cdir = os.path.join(vlib.VERIF, "corpus", "C15")
    n = 0
    for fn in sorted(os.listdir(cdir)) if os.path.isdir(cdir) else []:
        if not fn.endswith(".aelys"):
            continue
        rc, out = vlib.sh([hx, "--mode", "pairs", "--file", os.path.join(cdir, fn)], timeout=300)
        if rc != 0:
            ctx.violation("c15:corpus:harness-crash:" + fn, "hx_asi crashed on a corpus file", {"file": fn, "tail": out[-1500:]})
            continue
        for line in out.split("\n"):
            p = line.split("\t")
            if len(p) != 8 or p[0] != "K":
                continue
            n += 1
            name, opt, ca, cb, same = p[1], p[2], p[3], p[4], p[5]
            if same != "1":
                ctx.violation(f"c15:corpus:{name}",
                              f"corpus pair {name} at -O{opt}: one layout is {ca}" + (f" printing {p[6]!r}" if ca == cb else "") +
                              f", the other {cb}" + (f" printing {p[7]!r}" if ca == cb else "") +
                              (f" ({KNOWN_CLASS[name]})" if name in KNOWN_CLASS else ""),
                              {"file": "corpus/C15/" + fn, "pair": name, "opt": opt, "first": ca, "second": cb,
                               "first_output": p[6], "second_output": p[7]})
    return n


def replay(ctx, hx_run, hx):
    r = json.load(open(ctx.replay_file))["replay"]
    for k in ("text", "text_with_extra_blanks"):
        if r.get(k) is not None:
            tmp = os.path.join(vlib.CACHE, f"c15_replay_{os.getpid()}.txt")
            open(tmp, "w").write(r[k])
            rc, out = vlib.sh([hx, "--mode", "lexfile", "--file", tmp], timeout=60)
            os.remove(tmp)
            ctx.log(f"real lexer on {k} = {r[k]!r}: {out.strip()}")
    if r.get("pieces"):
        mo, _ = vlib.coq_eval_terms("c15r", IMPORTS, [f"asi ({r['pieces']})"])
        ctx.log("model asi:", mo[0])
    progs = [r[k] for k in ("base_program", "variant_program", "program") if r.get(k)]
    if not progs:
        if not r.get("text"):
            ctx.log("replay file has no program text; content:", json.dumps(r)[:1500])
        return
    tmp = os.path.join(vlib.CACHE, f"c15_replay_{os.getpid()}.aelys")
    open(tmp, "w").write("\n=====\n".join(progs))
    rc, out = vlib.sh([hx_run, "--file", tmp, "--opts", str(r.get("opt", "0,2")), "--budget", "300000"], timeout=120)
    os.remove(tmp)
    ctx.log("replay (program index 0 = base, 1 = variant; opt; gc; class; output; value; detail):\n" + out)


def run(ctx):
    ctx.level = "proof"
    ctx.cov["trusted_base"] = TRUSTED
    ctx.assumptions = ["the piece-level model of the lexer is the code: contract tie on every run",
                       "the theorems cover the lexer's decisions and integer literal values; the parser's use of the stream is explored, not proved"]
    # all three former refutations were repaired in /repo (33a78fa, d14529d, 3fa327d) and are theorems now
    ctx.cov["refuted_lemmas"] = []
    proved = ctx.prove("C15", extracted=["AsiTokens", "ParserSets"])
    if ctx.tier == "thorough" and proved:
        ctx.coqchk("C15")
    ok, out = vlib.coq_make(["Base/CaseCheck.vo", "Model/AsiObs.vo"])
    if not ok:
        ctx.broken.append("coq: model files for the C15 tie do not build")
        ctx.log(out[-2000:])
        return
    quick = ctx.tier == "quick"
    okb, paths, log = vlib.harness_build(["hx_asi", "hx_run"])
    if not okb:
        ctx.broken.append("harness build failed (hx_asi)")
        ctx.log(log[-3000:])
        return
    hx = paths["hx_asi"]
    if ctx.replay_file:
        replay(ctx, paths["hx_run"], hx)
        return
    total, distinct = 0, set()
    dist = {}
    total += run_corpus(ctx, hx)

    # ---------------------------------------------------------------- lexer contract
    args = [hx, "--mode", "lex", "--seed", str(ctx.seed), "--n", "3000" if quick else "20000"]
    if not quick:
        args.append("--all-pairs")
    rc, out = vlib.sh(args, timeout=900)
    if rc != 0:
        ctx.violation("c15:harness-crash:lex", "hx_asi --mode lex crashed", {"tail": out[-2000:]})
        return
    cases, meta = [], []
    n_alt_bad = 0
    kinds_hist = {"pair": 0, "rand": 0, "look": 0, "nest": 0}
    for line in out.split("\n"):
        p = line.split("\t")
        if len(p) != 7 or p[0] != "A":
            continue
        kinds_hist[p[1].split(":")[0]] += 1
        q = p[2][len("QAsi "):]
        if p[3] == "ERR":
            ctx.violation("c15:lexer-rejects-valid-tokens", "the lexer rejects a text made of valid token texts",
                          {"pieces": q, "text": unesc(p[4])})
            continue
        obs = "[" + "; ".join("T" + t for t in p[3].split()) + "]"
        cases.append((q, obs))
        meta.append((p[1], q, p[3], p[4]))
        distinct.add(q)
        if p[5] != "1":
            n_alt_bad += 1
            if n_alt_bad <= 3:
                ctx.violation("c15:blank-or-blank-line-changes-tokens",
                              "adding blanks between tokens / blank lines after a newline changes the token kinds the lexer produces",
                              {"pieces": q, "text": unesc(p[4]), "text_with_extra_blanks": unesc(p[6]), "kinds": p[3]})
    total += len(cases)
    dist["lexer_cases"] = kinds_hist
    fails, err = vlib.coq_eval_cases("c15a", IMPORTS, "asi", "tlist_eqb", cases, shard=400)
    if err:
        ctx.broken.append("correspondence C15 (lexer): model evaluation failed")
        ctx.log(err[-3000:])
    if fails:
        ctx.broken.append(f"correspondence C15 (lexer): model and implementation differ on {len(fails)} piece lists")
        bad = fails[:6]
        mo, _ = vlib.coq_eval_terms("c15a", IMPORTS, [f"asi ({cases[i][0]})" for i in bad])
        ctx.cov["disagreements"] = [{"case": meta[i][0], "pieces": meta[i][1][:500], "text": unesc(meta[i][3])[:300],
                                     "implementation": meta[i][2][:500], "model": (m or "")[:500]} for i, m in zip(bad, mo)]
        i = bad[0]
        ctx.violation("c15:model-mismatch:lexer", "the real lexer's token kinds differ from the semicolon-insertion model",
                      {"case": meta[i][0], "pieces": meta[i][1], "program": unesc(meta[i][3]), "implementation": meta[i][2]})
    ctx.add_samples([{"case": m[0], "pieces": m[1][:300], "text": unesc(m[3])[:200], "kinds": m[2][:300]}
                     for m in (meta[len(meta) // 2: len(meta) // 2 + 1] + meta[-3:-2])])

    # ---------------------------------------------------------------- literal contract
    rc, out = vlib.sh([hx, "--mode", "lit", "--seed", str(ctx.seed), "--n", "4000" if quick else "40000"], timeout=600)
    if rc != 0:
        ctx.violation("c15:harness-crash:lit", "hx_asi --mode lit crashed", {"tail": out[-2000:]})
        return
    lcases, lmeta = [], []
    tags = {}
    for line in out.split("\n"):
        p = line.split("\t")
        if len(p) != 5 or p[0] != "L":
            continue
        tags[p[1]] = tags.get(p[1], 0) + 1
        q = p[2][len("QLit "):] + "%N"
        v = int(p[3])
        lcases.append((q, "(%d)%%Z" % v if v < 0 else "%d%%Z" % v))
        lmeta.append((p[1], p[4], v))
        distinct.add("lit:" + p[4])
        ref = py_int_literal(p[4])
        if ref != v:
            ctx.violation("c15:literal-value", f"integer literal text {p[4]!r} lexes to {v}, its digits denote {ref}",
                          {"text": p[4], "lexer": v, "reference": ref, "program": p[4]})
    total += len(lcases)
    dist["literal_cases"] = tags
    fails, err = vlib.coq_eval_cases("c15l", IMPORTS, "lit_obs", "Z.eqb", lcases, shard=600)
    if err:
        ctx.broken.append("correspondence C15 (literals): model evaluation failed")
        ctx.log(err[-3000:])
    if fails:
        ctx.broken.append(f"correspondence C15 (literals): model and implementation differ on {len(fails)} texts")
        ctx.cov["literal_disagreements"] = [{"text": lmeta[i][1], "implementation": lmeta[i][2]} for i in fails[:8]]
        i = fails[0]
        ctx.violation("c15:model-mismatch:literal", "the real lexer's literal value differs from the literal model",
                      {"text": lmeta[i][1], "implementation": lmeta[i][2], "program": lmeta[i][1]})
    ctx.add_samples([{"literal": lmeta[i][1], "value": lmeta[i][2]} for i in (60, len(lmeta) // 2) if i < len(lmeta)])

    # ---------------------------------------------------------------- value-block parser contract
    rc, out = vlib.sh([hx, "--mode", "blk", "--seed", str(ctx.seed), "--n", "3000" if quick else "40000"], timeout=600)
    if rc != 0:
        ctx.violation("c15:harness-crash:blk", "hx_asi --mode blk crashed", {"tail": out[-2000:]})
        return
    bcases, bmeta, bhist = [], [], {}
    for line in out.split("\n"):
        p = line.split("\t")
        if len(p) != 5 or p[0] != "B":
            continue
        ob = p[3]
        bhist[ob.split()[0]] = bhist.get(ob.split()[0], 0) + 1
        if ob in ("Shape", "Panic"):
            ctx.violation("c15:value-block:" + ob.lower(), "the parser panicked on / produced an unexpected AST shape for a value block",
                          {"items": p[2], "program": unesc(p[4])})
            continue
        bcases.append((p[2][len("QBlk "):], "(" + ob + ")"))
        bmeta.append((p[2], ob, p[4]))
        distinct.add("blk:" + p[2])
    total += len(bcases)
    dist["value_block_cases"] = bhist
    fails, err = vlib.coq_eval_cases("c15b", IMPORTS, "block_value", "bresult_eqb", bcases, shard=500)
    if err:
        ctx.broken.append("correspondence C15 (value blocks): model evaluation failed")
        ctx.log(err[-3000:])
    if fails:
        ctx.broken.append(f"correspondence C15 (value blocks): parser model and real parser differ on {len(fails)} item lists")
        mo, _ = vlib.coq_eval_terms("c15b", IMPORTS, [f"block_value ({bcases[i][0]})" for i in fails[:6]])
        ctx.cov["value_block_disagreements"] = [{"items": bmeta[i][0][:300], "parser": bmeta[i][1], "model": m, "text": unesc(bmeta[i][2])[:300]}
                                                for i, m in zip(fails[:6], mo)]
        i = fails[0]
        ctx.violation("c15:model-mismatch:value-block", "the real parser's result for a value block differs from the block parser model",
                      {"items": bmeta[i][0], "parser": bmeta[i][1], "program": unesc(bmeta[i][2])})
    if bmeta:
        ctx.add_samples([{"value_block_items": bmeta[len(bmeta) // 2][0][:300], "parser": bmeta[len(bmeta) // 2][1], "text": unesc(bmeta[len(bmeta) // 2][2])[:200]}])

    # ---------------------------------------------------------------- statement-sequence parser contract
    rc, out = vlib.sh([hx, "--mode", "seq", "--seed", str(ctx.seed), "--n", "3000" if quick else "40000"], timeout=600)
    if rc != 0:
        ctx.violation("c15:harness-crash:seq", "hx_asi --mode seq crashed", {"tail": out[-2000:]})
        return
    scases, smeta, shist = [], [], {}
    for line in out.split("\n"):
        p = line.split("\t")
        if len(p) != 5 or p[0] != "Q":
            continue
        ob = p[3]
        shist[ob.split()[0]] = shist.get(ob.split()[0], 0) + 1
        if ob in ("Shape", "Panic"):
            ctx.violation("c15:statement-sequence:" + ob.lower(), "the parser panicked on / produced an unexpected AST shape for a statement sequence",
                          {"items": p[2], "program": unesc(p[4])})
            continue
        t = p[2].split(None, 2)
        scases.append((f"({t[1]}, {t[2]})", "(" + ob + ")" if ob.startswith("Some") else ob))
        smeta.append((p[2], ob, p[4]))
        distinct.add("seq:" + p[2])
    total += len(scases)
    dist["statement_sequence_cases"] = shist
    fails, err = vlib.coq_eval_cases("c15s", IMPORTS, "fun q => parse_sequence (fst q) (snd q)", "optnat_eqb", scases, shard=500)
    if err:
        ctx.broken.append("correspondence C15 (statement sequences): model evaluation failed")
        ctx.log(err[-3000:])
    if fails:
        ctx.broken.append(f"correspondence C15 (statement sequences): parser model and real parser differ on {len(fails)} item lists")
        ctx.cov["statement_sequence_disagreements"] = [{"items": smeta[i][0][:300], "parser": smeta[i][1], "text": unesc(smeta[i][2])[:300]} for i in fails[:6]]
        i = fails[0]
        ctx.violation("c15:model-mismatch:statement-sequence", "the real parser's result for a statement sequence differs from the sequence model",
                      {"items": smeta[i][0], "parser": smeta[i][1], "program": unesc(smeta[i][2])})

    # ---------------------------------------------------------------- programs vs re-layouts (direct oracle)
    nprog = 500 if quick else 8000
    rc, out = vlib.sh([hx, "--mode", "var", "--seed", str(ctx.seed), "--n", str(nprog), "--opts", "0,2" if quick else "0,1,2,3"], timeout=2400)
    if rc != 0:
        ctx.violation("c15:harness-crash:var", "hx_asi --mode var crashed", {"tail": out[-2000:]})
        return
    fam_hist, cls_hist, positions, ast_hist = {}, {}, {}, {}
    nviol = {"known": 0, "new": 0}
    nvar = 0
    for line in out.split("\n"):
        p = line.split("\t")
        if len(p) == 3 and p[0] == "D":
            positions[p[1]] = int(p[2])
            continue
        if len(p) != 12 or p[0] != "V":
            continue
        nvar += 1
        pid, fam, flags, opt, cb, cv, same = p[1], p[2], p[3], p[4], p[5], p[6], p[7]
        fam_hist[fam] = fam_hist.get(fam, 0) + 1
        key = cb if cb == cv else cb + " / " + cv
        cls_hist[key] = cls_hist.get(key, 0) + 1
        if cb == "ok":
            distinct.add(("var", pid, fam, flags, opt))
        if p[8] and len(ctx.cov["samples"]) < 6 and same == "1" and fam in ("Semi", "Breaks", "Parens"):
            ctx.add_samples([{"family": fam, "base": unesc(p[8])[:500], "variant": unesc(p[9])[:700], "class": cb}])
        fl = dict(x.split("=") for x in flags.split(","))
        ast_hist[fl.get("ast", "?")] = ast_hist.get(fl.get("ast", "?"), 0) + 1
        if same == "1" and fl.get("ast") == "0":
            # parser-level oracle: the two texts run alike but the parser built different trees (modulo spans,
            # Grouping nodes and the folding of a negated literal)
            r = ctx.violation(f"c15:ast-differs:{fam}", f"re-layout by family {fam} changes the AST although the program behaves the same ({flags}, -O{opt})",
                              {"family": fam, "flags": flags, "opt": opt, "base_program": unesc(p[8]), "variant_program": unesc(p[9])})
            nviol[r] += 1
        if same == "1":
            continue
        bsep, vsep = [int(x) for x in fl["sep_inside_parens"].split("/")]
        rep = {"family": fam, "flags": flags, "opt": opt, "base_class": cb, "variant_class": cv,
               "base_program": unesc(p[8]), "variant_program": unesc(p[9]), "base_output": p[10], "variant_output": p[11]}
        # no known class is left: KF-C15-1 and KF-C15-2 are repaired, any mismatch is a violation;
        # the renderer's flags only say where to look
        sig = f"c15:variant-differs:{fam}"
        # KF-C15-5..7 are repaired (467b596, 4ccf78e, 0637485): no known class is left; the renderer's flags stay as hints
        if False:
            pass
        elif fam == "Parens" and int(fl.get("tilde_tail", "0")) > 0:
            sig += ":tilde-at-block-value"      # hint only: KF-C15-3 is repaired (3fa327d), a recurrence is a violation
        elif fam == "Comment" and fl["comment_before_else"] == "1" and cb != "compile-error" and cv == "compile-error":
            sig += ":comment-line-before-else"
        elif (fam == "Semi" and bsep > 0 and cb == "compile-error" and cv != "compile-error") or \
             (fam == "Parens" and vsep > bsep and cb != "compile-error" and cv == "compile-error"):
            sig += ":newline-separator-inside-parens"
        r = ctx.violation(sig, f"re-layout by family {fam} changes the program: original is {cb}, variant is {cv} ({flags}, -O{opt})", rep)
        nviol[r] += 1
    total += nvar
    dist["variant_runs_by_family"] = fam_hist
    dist["variant_ast_equal (1 equal, 0 different, - a text was rejected)"] = ast_hist
    # how often each family was applied in each syntactic position it can be applied in; a position the
    # generator never reaches is a hole in the search and is reported
    ctx.cov["position_distribution"] = positions
    missing = sorted(k for k, v in positions.items() if v == 0)
    if missing or not positions:
        ctx.broken.append("generator coverage: transformation positions never reached: " + (", ".join(missing) or "(no distribution reported)"))
    dist["variant_outcomes (base[/variant])"] = cls_hist
    ctx.cov["variant_mismatches"] = nviol
    ctx.cov["evaluations"] = total
    ctx.cov["distinct_nontrivial"] = len(distinct)
    ctx.cov["input_distribution"] = dist
    ctx.cov["rule"] = ("lexer contract: every ordered pair of the 67 token kinds across one of 14 separators (newline, blank lines, trailing / own-line "
                       "line comment, block comment, nothing, `;`) in one of 6 bracket contexts (top level, call parens, [ ], { }, lambda body inside "
                       "call parens, unbalanced closers) -- 2 random (context, separator) choices per pair in quick, all 84 in thorough -- plus statement "
                       "templates joined by random separators and uniformly random piece lists (malformed stream), rendered with random token spellings, "
                       "blanks and comment texts; literal contract: 50 fixed edge texts + seeded values in 8 magnitude classes spelled in 4 radices with "
                       "random underscores/case, every 5th damaged; variants: seeded programs (let/assign/++/print/if-else with else on the same or its "
                       "own line/while/for/fn/lambda/Vec and Array literals/calls/index) rendered canonically and by each of 8 families (Semi, Blank, "
                       "Indent, Comment, Parens, Literal, Breaks, Reflow) twice, run at -O0 and -O2; distinct_nontrivial = distinct piece lists + distinct literal "
                       "texts + distinct (program, family, variant, level) whose original is accepted and runs")
