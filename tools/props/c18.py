"""C18 -- struct layouts follow the System V AMD64 C ABI.
Proof (Props/C18.v) + translator (layout_of table) + contract tie (hx_layout) + direct oracle
(independent Python transcription of the SysV rules vs the implementation's own outputs) +
validation of the specification itself against clang -target x86_64-linux-gnu."""
import os, re, shutil
import vlib

TRUSTED = [
    "Coq 8.16.1 kernel + vm_compute (evaluation of the model on the tie cases; no native_compute)",
    "tools/extractors/c18.py transcribes the constant (size, align) arms of layout_of (air/src/layout.rs) and the AirType "
    "variant list (air/src/lib.rs) into Extracted/LayoutTable.v; it fails when an arm is not a constant or a variant is new",
    "Model/Layout.v is a hand model of try_compute_layouts/resolved_layout/array_layout/struct_layout/align_to/"
    "detect_self_references/topological_order (names as numbers, HashMap as association list, HashSet as duplicate-free list, "
    "checked u32 arithmetic as unbounded arithmetic with a < 2^32 test); tied by hx_layout on every run in the dev and the "
    "release profile through compute_layouts, the panicking wrapper whose message is the LayoutError's Display text",
    "Model/SysV.v (the specification the theorems compare against) is an arithmetic statement of the psABI struct rules with "
    "its own table of C scalar types; it is validated, not proved, against clang 14 -target x86_64-linux-gnu "
    "(__builtin_offsetof/sizeof/_Alignof of generated C translations); the C translation maps Str/FnPtr/Param to pointers, "
    "Slice to struct{void*;unsigned long}, Void to the GNU C empty struct, Array(t,0) to a GNU zero-length array",
    "spec fuel: c_struct is evaluated with fuel = #structs + 1; by c_struct_sa_mono any defined answer is the answer for all larger fuel",
    "error kinds are recognised by the diagnostic text (`has infinite size`, `recursive struct cycle`, `referenced before`, "
    "`is too large`); that the driver pipeline returns them as PipelineError values (no panic) is probed on three source "
    "programs per run (--api-probe), not proved",
]

IMPORTS = ("From Aelys Require Import Extracted.LayoutTable Model.Layout Model.SysV Model.LayoutObs.\n"
           "Open Scope N_scope.")
W32 = 1 << 32

# ------------------------------------------------------------------ compact syntax
PRIM_NAMES = ["i8", "i16", "i32", "i64", "u8", "u16", "u32", "u64", "f32", "f64", "bool", "str", "fnptr", "param", "void"]


def parse_ty(s, i):
    for kw, tag in (("ptr(", "ptr"), ("slice(", "slice")):
        if s.startswith(kw, i):
            t, i = parse_ty(s, i + len(kw))
            assert s[i] == ")"
            return (tag, t), i + 1
    if s.startswith("arr(", i):
        t, i = parse_ty(s, i + 4)
        assert s[i] == ","
        m = re.match(r"\d+", s[i + 1:])
        i = i + 1 + m.end()
        assert s[i] == ")"
        return ("arr", t, int(m.group(0))), i + 1
    if s.startswith("s:S", i):
        m = re.match(r"\d+", s[i + 3:])
        return ("struct", int(m.group(0))), i + 3 + m.end()
    m = re.match(r"[a-z0-9]+", s[i:])
    if not m or m.group(0) not in PRIM_NAMES:
        raise ValueError("bad type at %d in %r" % (i, s))
    return ("prim", m.group(0)), i + m.end()


def parse_prog(s):
    out = []
    for part in s.split(" "):
        if not part:
            continue
        m = re.match(r"S(\d+)\{(.*)\}$", part)
        name, body, fs, i = int(m.group(1)), m.group(2), [], 0
        while i < len(body):
            t, i = parse_ty(body, i)
            fs.append(t)
            if i < len(body):
                assert body[i] == ";"
                i += 1
        out.append((name, fs))
    return out


def coq_ty(t):
    k = t[0]
    if k == "prim":
        return "TPrim P" + {"fnptr": "FnPtr"}.get(t[1], t[1].capitalize())
    if k == "ptr":
        return "TPtr (%s)" % coq_ty(t[1])
    if k == "slice":
        return "TSlice (%s)" % coq_ty(t[1])
    if k == "struct":
        return "TStruct %d" % t[1]
    return "TArray (%s) %d" % (coq_ty(t[1]), t[2])


def coq_prog(p):
    return "[" + "; ".join("(%d, [%s])" % (n, "; ".join(coq_ty(t) for t in fs)) for n, fs in p) + "]"


# ------------------------------------------------------------------ the SysV rules, in Python (direct oracle)
C_PRIM = {"i8": (1, 1), "u8": (1, 1), "bool": (1, 1), "i16": (2, 2), "u16": (2, 2), "i32": (4, 4), "u32": (4, 4),
          "f32": (4, 4), "i64": (8, 8), "u64": (8, 8), "f64": (8, 8), "str": (8, 8), "fnptr": (8, 8), "param": (8, 8),
          "void": (0, 1)}


def round_up(x, a):
    return -(-x // a) * a


def byvalue_dep(t):
    while t[0] == "arr":
        t = t[1]
    return t[1] if t[0] == "struct" else None


class Undefined(Exception):
    pass


def py_spec(prog):
    """name -> (offsets, size, align, biggest intermediate quantity); raises Undefined on an
    undefined name or a by-value cycle.  Requires unique names."""
    defs = dict(prog)
    done, active = {}, set()

    def sa(t):
        k = t[0]
        if k == "prim":
            return C_PRIM[t[1]] + (0,)
        if k == "ptr":
            return (8, 8, 0)
        if k == "slice":
            return (16, 8, 0)
        if k == "arr":
            s, a, big = sa(t[1])
            return (s * t[2], a, max(big, s * t[2]))
        r = struct(t[1])
        return (r[1], r[2], r[3])

    def struct(nm):
        if nm in done:
            return done[nm]
        if nm not in defs or nm in active:
            raise Undefined(nm)
        active.add(nm)
        end, al, offs, big = 0, 1, [], 0
        for t in defs[nm]:
            s, a, b = sa(t)
            o = round_up(end, a)
            offs.append(o)
            end = o + s
            al = max(al, a)
            big = max(big, b, end)
        size = round_up(end, al)
        active.discard(nm)
        done[nm] = (offs, size, al, max(big, size), end)
        return done[nm]

    return {nm: struct(nm) for nm, _ in prog}


def parse_obs(o):
    if not o.startswith("OLaid"):
        return o.split()[0], None
    m2 = re.match(r"OLaid \[(.*)\] \[([^\[\]]*)\]$", o)
    body = m2.group(1) if m2 else o[len("OLaid ["):-1]
    out = []
    for m in re.finditer(r"None|Some \[([^\]]*)\]", body):
        out.append(None if m.group(0) == "None" else [int(x) for x in m.group(1).split(";") if x.strip()])
    return "OLaid", out


def parse_printed(o):
    """[(size, align) | None] as printed by print_program, or None when the observation has none."""
    m2 = re.match(r"OLaid \[(.*)\] \[([^\[\]]*)\]$", o)
    if not m2:
        return None
    return [None if m.group(0) == "None" else (int(m.group(1)), int(m.group(2)))
            for m in re.finditer(r"None|Some \((\d+), (\d+)\)", m2.group(2))]


def has_array_of_struct(prog):
    def inside(t, in_arr):
        if t[0] == "arr":
            return inside(t[1], True)
        return t[0] == "struct" and in_arr
    return any(inside(t, False) for _, fs in prog for t in fs)


SRC_KIND = {"src-nested": "nested", "src-after-return": "after-return", "src-undef": "undef", "src-builtin-name": "builtin-name",
            "src-cycle": "cycle", "src-self": "cycle", "src-wf": "nested", "src-dup": "dup", "src-spelling": "spelling",
            "src-unicode": "unicode-name", "src-dead-branch": "dead-branch"}


def direct_oracle(prog, obs, cls=""):
    """None | (signature, text).  Independent of the Coq model."""
    names = [n for n, _ in prog]
    kind, offs = parse_obs(obs)
    if kind == "ODirty":
        return ("rejected-but-laid-out", "compute_layouts rejected the definitions but left field offsets written in the program")
    if kind == "OPrintPanic":
        sig = "print-panics"
        if has_array_of_struct(prog):
            sig = "print-panics:array-of-struct"
        else:
            try:
                if any(v[4] + v[2] >= W32 for v in py_spec(prog).values()):
                    sig = "print-panics:u32-rounding"      # end of last field + alignment reaches 2^32
            except Exception:
                pass
        return (sig,
                "the structs are laid out, but print_program (the only place that reports size and alignment) panics on them")
    if kind == "OTypeMismatch":
        return ("lowered-field-type-mismatch:" + SRC_KIND.get(cls, "other"),
                "source path: a declared struct is missing from the AIR or a field declared with a struct type was lowered to another type (i64)")
    if cls == "src-dup":
        if kind == "OLaid":
            return ("duplicate-struct-names-laid-out", "two struct declarations with the same name are laid out (only a warning): the printed size/align "
                    "of an embedding struct comes from the first declaration, its field offsets from the other")
        return None
    if len(set(names)) != len(names):
        return None                     # duplicate definitions: not a C translation unit; tie only
    defs = dict(prog)
    # by-value cycle?
    cyclic, undefined = False, False
    color = {}

    def visit(n):
        nonlocal cyclic, undefined
        if n not in defs:
            undefined = True
            return
        if color.get(n) == 1:
            cyclic = True
            return
        if color.get(n) == 2:
            return
        color[n] = 1
        for t in defs[n]:
            d = byvalue_dep(t)
            if d is not None:
                visit(d)
        color[n] = 2
    for n in names:
        visit(n)
    if cyclic:
        if kind != "ODiag":
            return ("cycle-not-diagnosed", f"by-value cycle but compute_layouts gave {obs[:80]}")
        return None
    if undefined:
        return None                     # undefined by-value names: outside the property's domain; tie only
    spec = py_spec(prog)
    big = max([0] + [v[3] for v in spec.values()])
    if big >= W32:
        # some struct or array does not fit u32: must be diagnosed, never laid out
        if kind != "OTooLarge":
            return ("too-large-not-diagnosed:" + kind,
                    f"a size of {big} bytes does not fit u32 but compute_layouts gave {obs[:100]}")
        return None
    if kind == "OTooLarge":
        return ("false-too-large", f"every size fits u32 (largest {big}) but the definitions were rejected as too large")
    if kind == "OLaid":
        want = [spec[n][0] for n in names]
        for i, n in enumerate(names):
            if offs[i] != want[i]:
                return ("layout-mismatch", f"struct S{n}: offsets {offs[i]} but the C ABI gives {want[i]}")
        printed = parse_printed(obs)
        if printed is not None:
            for i, n in enumerate(names):
                if printed[i] != (spec[n][1], spec[n][2]):
                    return ("printed-size-align-mismatch",
                            f"struct S{n}: reported [size={printed[i][0]}, align={printed[i][1]}] but the C ABI gives size {spec[n][1]}, align {spec[n][2]}")
        return None
    if kind == "ODiag":
        return ("false-diagnosis", "acyclic definitions diagnosed as recursive")
    return ("layout-failure:" + kind, f"acyclic, fully defined structs but compute_layouts gave {kind}")


# ------------------------------------------------------------------ clang validation of the specification
C_BASE = {"i8": "signed char", "u8": "unsigned char", "bool": "_Bool", "i16": "short", "u16": "unsigned short",
          "i32": "int", "u32": "unsigned int", "i64": "long", "u64": "unsigned long", "f32": "float", "f64": "double",
          "str": "const char *", "fnptr": "aelys_fnptr", "param": "void *", "void": "struct aelys_void"}


def c_decl(t, pfx, defined):
    dims = []
    while t[0] == "arr":
        dims.append(t[2])
        t = t[1]
    k = t[0]
    if k == "prim":
        base = C_BASE[t[1]]
    elif k == "ptr":
        inner = t[1]
        base = f"struct {pfx}S{inner[1]} *" if inner[0] == "struct" and inner[1] in defined else "void *"
    elif k == "slice":
        base = "struct aelys_slice"
    else:
        base = f"struct {pfx}S{t[1]}"
    return base, "".join("[%d]" % d for d in dims)


def c_translation(k, prog):
    """C text for program k (dependencies first) and the list of (struct name, nfields) in the
    order the numbers are emitted (= declaration order of prog)."""
    pfx = f"p{k}_"
    defs = dict(prog)
    out = [f"struct {pfx}S{n};" for n, _ in prog]
    emitted = set()

    def emit(n):
        if n in emitted:
            return
        emitted.add(n)
        for t in defs[n]:
            d = byvalue_dep(t)
            if d is not None:
                emit(d)
        body = []
        for i, t in enumerate(defs[n]):
            base, dims = c_decl(t, pfx, defs)
            body.append(f"  {base} f{i}{dims};")
        out.append(f"struct {pfx}S{n} {{\n" + "\n".join(body) + "\n};")
    for n, _ in prog:
        emit(n)
    vals = []
    for n, fs in prog:
        for i in range(len(fs)):
            vals.append(f"__builtin_offsetof(struct {pfx}S{n}, f{i}) + 1")
        vals.append(f"sizeof(struct {pfx}S{n}) + 1")
        vals.append(f"_Alignof(struct {pfx}S{n}) + 1")
    out.append(f"const unsigned long long v_{k}[] = {{ {', '.join(vals)} }};")
    return "\n".join(out)


def clang_numbers(progs, workdir):
    """[per program: per struct: offsets + [size, align]] as computed by clang, or (None, log)."""
    hdr = ("typedef void (*aelys_fnptr)(void);\nstruct aelys_void {};\n"
           "struct aelys_slice { void *ptr; unsigned long len; };\n")
    src = hdr + "\n".join(c_translation(k, p) for k, p in enumerate(progs)) + "\n"
    os.makedirs(workdir, exist_ok=True)
    f = os.path.join(workdir, "layouts.c")
    open(f, "w").write(src)
    rc, out = vlib.sh(["clang", "-target", "x86_64-linux-gnu", "-std=gnu11", "-w", "-S", "-O0", "-o", "-", f], timeout=300)
    if rc != 0:
        return None, out[-2000:]
    res = []
    for k, p in enumerate(progs):
        m = re.search(r"^v_%d:\n((?:[ \t]+\.quad[ \t]+\d+[^\n]*\n)+)" % k, out, flags=re.M)
        if not m:
            return None, f"no data for v_{k} in clang output"
        nums = [int(x) - 1 for x in re.findall(r"\.quad[ \t]+(\d+)", m.group(1))]
        per, i = [], 0
        for n, fs in p:
            per.append(nums[i:i + len(fs) + 2])
            i += len(fs) + 2
        if i != len(nums):
            return None, f"v_{k}: expected {i} numbers, clang emitted {len(nums)}"
        res.append(per)
    return res, None


# ------------------------------------------------------------------ the check
def read_cases(out):
    cases, notes = [], []
    for line in out.splitlines():
        if line.startswith("#"):
            notes.append(line[1:])
            continue
        parts = line.split("\t")
        if len(parts) == 4:
            parts.append("")
        if len(parts) != 5:
            continue
        cases.append(tuple(parts))
    return cases, notes


def side_path(kind):
    import importlib
    ex = importlib.import_module("extractors.c18")
    return ex.side_path(kind)


# ------------------------------------------------------------------ generator audit
def ty_features(t, acc, depth=0):
    k = t[0]
    if k == "prim":
        acc["type:" + t[1]] += 1
    elif k in ("ptr", "slice"):
        acc["type:" + k] += 1
        inner = t[1]
        while inner[0] == "arr":
            inner = inner[1]
        if inner[0] == "struct":
            acc[k + "-to-struct"] += 1
    elif k == "struct":
        acc["type:struct-by-value"] += 1
    else:
        acc["type:array"] += 1
        n = t[2]
        acc["array-len:" + ("0" if n == 0 else "1" if n == 1 else "2-16" if n <= 16 else "17-300" if n <= 300 else ">=2^29")] += 1
        acc["array-depth:%d" % (depth + 1)] += 1
        if t[1][0] == "struct":
            acc["array-of-struct"] += 1
        ty_features(t[1], acc, depth + 1)


def nesting_depth(prog):
    defs = dict(prog)
    memo = {}

    def d(n, stack=()):
        if n in memo:
            return memo[n]
        if n not in defs or n in stack:
            return 0
        r = 1 + max([0] + [d(byvalue_dep(t), stack + (n,)) for t in defs[n] if byvalue_dep(t) is not None])
        memo[n] = r
        return r
    return max([0] + [d(n) for n, _ in prog])


def audit(cases):
    import collections
    acc = collections.Counter()
    for q, o, comp, cls, detail in cases:
        kind = o.split()[0]
        dd = detail.split(":")[0] if cls.startswith("src-") and ":" in detail else ("" if cls.startswith("src-") else detail)
        acc["outcome:" + kind + (":" + dd if dd else "")] += 1
        acc["class:%s->%s" % (cls, kind)] += 1
        if cls.startswith("src-"):
            acc["stream:" + cls] += 1
            acc["opt-level:" + detail.split(":")[-1]] += 1
        if comp.startswith("T:"):
            t, _ = parse_ty(comp[2:], 0)
            ty_features(t, acc)
            continue
        prog = parse_prog(comp)
        ns = len(prog)
        acc["structs:" + ("1" if ns == 1 else "2-4" if ns <= 4 else "5-12" if ns <= 12 else "13-36" if ns <= 36 else ">36")] += 1
        for _, fs in prog:
            acc["fields:" + (str(len(fs)) if len(fs) <= 2 else "3-5" if len(fs) <= 5 else "6-8" if len(fs) <= 8 else ">8")] += 1
            for i, t in enumerate(fs):
                ty_features(t, acc)
                if byvalue_dep(t) is not None:
                    acc["by-value-position:" + ("first" if i == 0 else "last" if i == len(fs) - 1 else "middle")] += 1
        acc["nesting-depth:%d" % min(nesting_depth(prog), 6)] += 1
        names = [n for n, _ in prog]
        if len(set(names)) == len(names) and len(prog) > 1:
            # declaration order relative to the dependencies
            pos = {n: i for i, n in enumerate(names)}
            fwd = bwd = 0
            for n, fs in prog:
                for t in fs:
                    d = byvalue_dep(t)
                    if d in pos and d != n:
                        if pos[d] < pos[n]:
                            fwd += 1
                        else:
                            bwd += 1
            if fwd or bwd:
                acc["order:" + ("dependencies-first" if bwd == 0 else "dependents-first" if fwd == 0 else "mixed")] += 1
    return dict(sorted(acc.items()))


REQUIRED = (["stream:src-dead-branch", "stream:src-spelling", "stream:src-unicode", "stream:src-nested", "stream:src-after-return", "stream:src-undef", "stream:src-builtin-name", "stream:src-dup", "class:src-wf->OLaid", "class:src-self->ODiag", "class:src-cycle->ODiag", "outcome:OLaid", "outcome:ODiag:selfref", "outcome:ODiag:cycle", "outcome:OUnresolved", "outcome:OTooLarge",
             "outcome:ONeedsContext", "outcome:OSizeAlign", "type:ptr", "type:slice", "type:struct-by-value", "type:array",
             "array-of-struct", "ptr-to-struct", "array-len:0", "array-len:1", "array-len:2-16", "array-len:17-300",
             "array-len:>=2^29", "array-depth:2", "array-depth:3", "nesting-depth:2", "nesting-depth:3", "nesting-depth:4",
             "order:dependencies-first", "order:dependents-first", "order:mixed", "by-value-position:first",
             "by-value-position:middle", "by-value-position:last", "structs:1", "structs:2-4", "structs:5-12", "structs:13-36",
             "fields:0", "fields:1", "fields:6-8"] + ["type:" + p for p in PRIM_NAMES])


def clang_features(progs):
    import collections
    acc = collections.Counter()
    for p in progs:
        f = collections.Counter()
        for _, fs in p:
            for t in fs:
                ty_features(t, f)
        for k in f:
            acc[k] += 1          # number of validated programs that have the feature
        acc["nesting-depth:%d" % min(nesting_depth(p), 6)] += 1
        sp = py_spec(p)
        # tail padding: a struct whose size is larger than the end of its last member, used by value or in an array elsewhere
        defs = dict(p)
        padded = set()
        for n, fs in p:
            offs, size, al = sp[n][:3]
            if fs:
                last = fs[-1]
                lsz = _size_of(last, sp)
                if offs[-1] + lsz < size:
                    padded.add(n)
        if padded:
            acc["struct-with-tail-padding"] += 1
            if any(byvalue_dep(t) in padded for _, fs in p for t in fs):
                acc["tail-padded-struct-nested-by-value"] += 1
            if any(t[0] == "arr" and byvalue_dep(t) in padded for _, fs in p for t in fs):
                acc["array-of-tail-padded-struct"] += 1
    return dict(sorted(acc.items()))


def _size_of(t, sp):
    k = t[0]
    if k == "prim":
        return C_PRIM[t[1]][0]
    if k == "ptr":
        return 8
    if k == "slice":
        return 16
    if k == "arr":
        return _size_of(t[1], sp) * t[2]
    return sp[t[1]][1]


EXPECTED_PHASES = ["detect_self_references", "topological_order", "struct_layout"]


def run(ctx):
    import json
    ctx.level = "proof"
    ctx.cov["trusted_base"] = TRUSTED
    ctx.assumptions = [
        "the model of layout.rs is the code: checked by the contract tie below (dev and release profiles)",
        "Model/SysV.v states what a C compiler for x86-64 System V computes: checked against clang on generated translations",
    ]
    thorough = ctx.tier == "thorough"
    n_cases = 260 if not thorough else 8000
    seeds = [ctx.seed] if not thorough else [ctx.seed + 1000 * k for k in range(5)]
    replay_prog = None
    if getattr(ctx, "replay_file", None):
        rp = json.load(open(ctx.replay_file)).get("replay", {})
        replay_prog = rp.get("program") or rp.get("order2")
        if replay_prog:
            n_cases = 0
    cdir = os.path.join(vlib.VERIF, "corpus", "C18")
    corpus = sorted(os.path.join(cdir, f) for f in (os.listdir(cdir) if os.path.isdir(cdir) else []) if f.endswith(".txt"))
    if replay_prog:
        rf = os.path.join(vlib.CACHE, "c18-replay-%d.txt" % os.getpid())
        open(rf, "w").write(replay_prog + "\n")
        corpus = [rf]
    # literal fragments of LayoutError's Display arms as they are in the source now (the harness has built-in defaults)
    needles = os.path.join(vlib.CACHE, "c18-needles-%d.txt" % os.getpid())
    try:
        import importlib
        ex = importlib.import_module("extractors.c18")
        fr = ex.message_fragments(ex.strip_comments_keep_strings(ex.rd("air/src/layout.rs")))
    except Exception:
        fr = {}
    open(needles, "w").write("".join(f"{k}\t{v}\n" for k, v in fr.items()))
    # every scalar type spelling of the front end's three tables, with what the spelling means
    spell_file = os.path.join(vlib.CACHE, "c18-spellings-%d.txt" % os.getpid())
    try:
        sp_tab = ex.spelling_tables()
    except Exception as e:
        sp_tab = {"rows": {}, "inconsistencies": [], "parsed": {}, "error": str(e)}
    open(spell_file, "w").write("".join(f"{k}\t{v['expected']}\n" for k, v in sp_tab["rows"].items() if v.get("expected")))

    # ---- 1. run the real code first (both profiles); the executed primitive table feeds the translator
    runs = {}
    for prof in ["dev", "release"]:
        ok, paths, log = vlib.harness_build(["hx_layout"], profile=prof)
        if not ok:
            ctx.broken.append("harness build failed (hx_layout, %s)" % prof)
            ctx.log(log[-3000:])
            return
        outs = []
        for cf in corpus:
            rc, o = vlib.sh([paths["hx_layout"], "--seed", "0", "--cases", "0", "--corpus", cf, "--needles", needles], timeout=300)
            if rc != 0:
                ctx.violation("hx_layout-crash", "layout harness crashed on the corpus", {"profile": prof, "corpus": cf, "output_tail": o[-1500:]})
                return
            outs.append("\n".join(l for l in o.splitlines() if l.startswith("#") or "\tcorpus" in l))
        for k, sd in enumerate(seeds):
            big = thorough and k == 4
            cmd = [paths["hx_layout"], "--seed", str(sd), "--cases", str(n_cases // 4 if big else n_cases), "--needles", needles]
            if k == 0:
                cmd += ["--spellings", spell_file]
            if prof == "dev" and k == 0:
                cmd.append("--api-probe")
            if k > 0 or replay_prog:
                cmd.append("--no-grids")
            if big:         # one thorough seed with large graphs: up to 40 structs (120 with probes), 16 fields
                cmd += ["--max-structs", "40", "--max-fields", "16"]
            rc, o = vlib.sh(cmd, timeout=1200)
            if rc != 0:
                ctx.violation("hx_layout-crash", "layout harness crashed (panic escaped catch_unwind / abort inside layout?)",
                              {"profile": prof, "output_tail": o[-2000:]})
                return
            if k > 0:   # the fixed layout_of lines repeat per seed
                o = "\n".join(l for l in o.splitlines() if not (l.startswith("QLayoutOf (TPrim") and "\tT:" in l and "arr" not in l) or k == 0)
            outs.append(o)
        cases, notes = read_cases("\n".join(outs))
        runs[prof] = (cases, notes, paths)
    executed = {}
    for q, o, comp, cls, _ in runs["dev"][0]:
        if cls == "layout_of" and comp[2:] in PRIM_NAMES and o.startswith("OSizeAlign"):
            nm = {"fnptr": "FnPtr"}.get(comp[2:], comp[2:].capitalize())
            executed[nm] = [int(x) for x in o.split()[1:3]]
    for q, o, comp, cls, _ in runs["dev"][0]:          # Ptr / Slice through the pair grid: S1{ptr;..} probes
        pass
    # Ptr and Slice have no standalone layout_of line with a prim name: take them from layout_of on ptr(..)/slice(..) cases
    for q, o, comp, cls, _ in runs["dev"][0]:
        if cls == "layout_of" and o.startswith("OSizeAlign"):
            if comp.startswith("T:ptr(") and "Ptr" not in executed:
                executed["Ptr"] = [int(x) for x in o.split()[1:3]]
            if comp.startswith("T:slice(") and "Slice" not in executed:
                executed["Slice"] = [int(x) for x in o.split()[1:3]]
    if len(executed) == 17:
        json.dump(executed, open(side_path("executed"), "w"))
    elif os.path.exists(side_path("executed")):
        os.remove(side_path("executed"))

    # ---- 2. translate + prove
    proved = ctx.prove("C18", extracted=["LayoutTable"])
    if thorough and proved:
        ctx.coqchk("C18")
    try:
        side = json.load(open(side_path("side")))
    except Exception:
        side = {}
    for n in side.get("notes", []):
        ctx.notes.append("translator: " + n)
    ctx.cov["translator"] = {"phase_order": side.get("phase_order"), "message_fragments": side.get("fragments"),
                             "executed_table_crosschecked": len(executed) == 17}
    ctx.cov["translator"]["type_spellings"] = {k: v.get("expected") for k, v in sp_tab.get("rows", {}).items()}
    ctx.cov["translator"]["spelling_tables_parsed"] = sp_tab.get("parsed")
    for inc in sp_tab.get("inconsistencies", []):
        ctx.broken.append("translator: type spelling tables of sema disagree: " + inc)
    if side.get("phase_order") and side["phase_order"] != EXPECTED_PHASES:
        ctx.broken.append(f"translator: try_compute_layouts runs its phases in the order {side['phase_order']}, the model assumes {EXPECTED_PHASES}")
    ok, out = vlib.coq_make(["Base/CaseCheck.vo", "Model/LayoutObs.vo"])
    if not ok:
        ctx.broken.append("coq: model files for the C18 tie do not build")
        ctx.log(out[-2000:])
        return

    # ---- 3. per profile: direct oracle, then the contract tie
    total, distinct, dist, oracle_fail = 0, set(), {}, 0
    by_prog = {}
    for prof in ["dev", "release"]:
        cases, notes, paths = runs[prof]
        chk = any("overflow_checks=true" in n for n in notes)
        if chk != (prof == "dev"):
            ctx.broken.append(f"harness profile {prof}: overflow checks are {'on' if chk else 'off'}, expected the opposite")
        for n in notes:
            if n.startswith("api-probe"):
                txt = n[len("api-probe "):]
                ctx.cov.setdefault("pipeline_api_probe", []).append(txt)
                what, _, res = txt.partition(": ")
                what = what.split()[-1]
                good = res.startswith("ok") if what == "ok" else res.startswith("error:")
                if not good:
                    ctx.violation("pipeline-diagnostic:" + what + (":panic" if res.startswith("PANIC") else ""),
                                  "the driver's standard pipeline does not turn a malformed struct definition into an error value",
                                  {"probe": txt, "profile": prof})
        total += len(cases)
        for q, o, comp, cls, _ in cases:
            dist[cls] = dist.get(cls, 0) + 1
            if ";" in comp or "(" in comp:
                distinct.add((prof, comp))
        reported = set()
        flagged = set()      # cases the direct oracle reports with their input: not reported again as a broken tie
        last_wf = None
        for q, o, comp, cls, detail in cases:
            if not q.startswith("QCompute"):
                continue
            prog = parse_prog(comp)
            d = direct_oracle(prog, o, cls)
            if d and cls.startswith("src-"):
                sig = d[0] if d[0].startswith(("lowered-field-type-mismatch", "duplicate-struct")) else d[0] + ":" + SRC_KIND.get(cls, "src")
                d = (sig, d[1] + f" [source stream {cls}; type spelling / optimisation level: {detail}; names S7001.. = Int, Float, Missing, S7101.. = Élan, Ωmega, Ärmel, Öse, Жук, Ñandú, Şekil, Δelta]")
            if d:
                flagged.add((q, o))
                oracle_fail += 1
                if d[0] not in reported:
                    reported.add(d[0])
                    ctx.violation(d[0], d[1], {"program": comp, "implementation": o, "profile": prof,
                                               "replay_cmd": f"echo '{comp}' > /tmp/c.txt && {paths['hx_layout']} --cases 0 --corpus /tmp/c.txt"})
            if cls == "wf":
                last_wf = (prog, o, comp)
            elif cls == "wf-perm" and last_wf:
                k1, o1 = parse_obs(last_wf[1])
                k2, o2 = parse_obs(o)
                a = dict(zip([n for n, _ in last_wf[0]], o1 or []))
                b = dict(zip([n for n, _ in prog], o2 or []))
                if (k1 != k2 or a != b) and "order-dependence" not in reported:
                    reported.add("order-dependence")
                    oracle_fail += 1
                    ctx.violation("order-dependence", "the same struct definitions in two declaration orders give different layouts",
                                  {"order1": last_wf[2], "result1": last_wf[1], "order2": comp, "result2": o, "profile": prof})
            if cls in ("wf-probes", "ptrcycle", "grid-pairs", "grid-align", "grid-array", "grid-nested", "src-wf") and o.startswith("OLaid"):
                by_prog.setdefault(comp, {"prog": prog, "cls": cls})[prof] = o
        pairs = [(q, o) for q, o, _, _, _ in cases]
        fails, err = vlib.coq_eval_cases("c18", IMPORTS, "run", "obs_eqb", pairs, shard=max(40, len(pairs) // 16 + 1))
        if err:
            ctx.broken.append("correspondence C18: model evaluation failed")
            ctx.log(err[-3000:])
        # duplicate struct names are outside the property's domain (not a C translation unit) and the
        # outcome there depends on the processing order, which is not part of the contract: a
        # disagreement on such inputs is recorded, not reported
        drift = [i for i in fails if cases[i][3] in ("dup", "src-dup")]
        # a panic of the printer on a laid-out program is reported by the direct oracle with its input
        # (print-panics*), not a second time as a broken tie
        fails = [i for i in fails if cases[i][3] not in ("dup", "src-dup") and cases[i][1] not in ("OPrintPanic", "OTypeMismatch")
                 and not (cases[i][3].startswith("src-") and (cases[i][0], cases[i][1]) in flagged)]
        if drift:
            ctx.cov["model_drift_on_duplicate_names"] = ctx.cov.get("model_drift_on_duplicate_names", 0) + len(drift)
            ctx.notes.append(f"{prof}: model and implementation differ on {len(drift)} inputs with duplicate struct names "
                             "(outside the property's domain; the model's pop order / last-duplicate-wins no longer matches)")
        if fails:
            ctx.broken.append(f"correspondence C18 ({prof}): model and implementation differ on {len(fails)} cases")
            bad = [cases[i] for i in fails[:6]]
            mo, _ = vlib.coq_eval_terms("c18", IMPORTS, [f"run ({q})" for q, _, _, _, _ in bad])
            ctx.cov["disagreements"] = [{"program": c, "class": cl, "implementation": o, "model": m, "profile": prof}
                                        for (q, o, c, cl, _), m in zip(bad, mo)]
            ctx.log("tie disagreements:", ctx.cov["disagreements"][:2])
        k = len(cases)
        ctx.add_samples([{"program": c, "observed": o, "class": cl, "profile": prof}
                         for _, o, c, cl, _ in cases[k // 3: k // 3 + 2] + cases[-2:]])
        if prof == "dev":
            a = audit(cases)
            ctx.cov["generator_audit"] = a
            starved = [r for r in REQUIRED if a.get(r, 0) < (1 if ctx.tier == "quick" and replay_prog else 3)]
            if starved and not replay_prog:
                ctx.broken.append("generator audit: classes with fewer than 3 cases in this run: " + ", ".join(starved))

    # ---- 4. the specification: Coq spec == Python transcription == clang == implementation (directly)
    cand = []
    for comp, e in by_prog.items():
        p = e["prog"]
        if len(set(n for n, _ in p)) != len(p):
            continue
        try:
            big = max([0] + [v[3] for v in py_spec(p).values()])
        except Undefined:
            continue
        if big < (1 << 31):
            cand.append((comp, e))
    grids = [c for c in cand if c[1]["cls"].startswith("grid")]
    rnd = [c for c in cand if not c[1]["cls"].startswith("grid")]
    n_spec = 150 if not thorough else 5000
    n_clang = 60 if not thorough else 4000
    spec_set = grids + rnd[:n_spec]
    spec_pairs = []
    for comp, e in spec_set:
        p = e["prog"]
        sp = py_spec(p)
        spec_pairs.append(("QSpec " + coq_prog(p),
                           "OSpec [" + "; ".join("Some [%s]" % "; ".join(str(x) for x in sp[n][0] + [sp[n][1], sp[n][2]]) for n, _ in p) + "]"))
    fails, err = vlib.coq_eval_cases("c18s", IMPORTS, "run", "obs_eqb", spec_pairs, shard=max(20, len(spec_pairs) // 16 + 1))
    if err or fails:
        ctx.broken.append(f"spec cross-check: Model/SysV.v and the Python oracle's SysV rules differ on {len(fails)} programs" if fails
                          else "spec cross-check: evaluation failed")
        ctx.log((err or "")[-2000:], [spec_pairs[i] for i in fails[:2]])
    cl_set = grids + rnd[:n_clang]
    cl_progs = [e["prog"] for _, e in cl_set]
    wd = os.path.join(vlib.CACHE, "c18-clang-%d" % os.getpid())
    if shutil.which("clang") is None:
        ctx.notes.append("clang not installed: the specification was not validated against a C compiler in this run")
        ctx.cov["clang_validated_programs"] = 0
    elif cl_progs:
        nums, log = clang_numbers(cl_progs, wd)
        if nums is None:
            ctx.broken.append("clang validation: the C translation did not compile")
            ctx.log(log)
        else:
            bad = impl_bad = 0
            cl_pairs = []
            for (comp, e), per in zip(cl_set, nums):
                p = e["prog"]
                sp = py_spec(p)
                mine = [sp[n][0] + [sp[n][1], sp[n][2]] for n, _ in p]
                if mine != per:
                    bad += 1
                    if bad == 1:
                        ctx.cov["clang_disagreement"] = {"program": comp, "spec": mine, "clang": per}
                # clang against the implementation's own output on the same program (its declaration
                # order as generated: dependents first, shuffled, ...); sizeof/alignof through the probes
                for prof in ("dev", "release"):
                    if prof in e:
                        _, offs = parse_obs(e[prof])
                        printed = parse_printed(e[prof])
                        if offs != [v[:-2] for v in per] or (printed is not None and printed != [tuple(v[-2:]) for v in per]):
                            impl_bad += 1
                            if impl_bad == 1:
                                ctx.violation("clang-mismatch", "offsets computed by compute_layouts differ from clang's __builtin_offsetof/sizeof/_Alignof",
                                              {"program": comp, "implementation": e[prof], "clang": per, "profile": prof})
                cl_pairs.append(("QSpec " + coq_prog(p),
                                 "OSpec [" + "; ".join("Some [%s]" % "; ".join(map(str, v)) for v in per) + "]"))
            fails, err = vlib.coq_eval_cases("c18c", IMPORTS, "run", "obs_eqb", cl_pairs, shard=max(20, len(cl_pairs) // 16 + 1))
            if bad or fails or err:
                ctx.broken.append(f"clang validation: the SysV specification disagrees with clang on {max(bad, len(fails))} programs")
                ctx.log((err or "")[-1500:])
            ctx.cov["clang_validated_programs"] = len(cl_progs)
            ctx.cov["clang_validated_structs"] = sum(len(p) for p in cl_progs)
            ctx.cov["clang_vs_implementation_mismatches"] = impl_bad
            ctx.cov["clang_feature_coverage"] = clang_features(cl_progs)
            ctx.cov["clang_classes"] = {c: sum(1 for _, e in cl_set if e["cls"] == c) for c in sorted(set(e["cls"] for _, e in cl_set))}
            ctx.cov["clang"] = vlib.sh(["clang", "--version"])[1].split("\n")[0]
    shutil.rmtree(wd, ignore_errors=True)
    for f in (needles, spell_file):
        try:
            os.remove(f)
        except OSError:
            pass
    ctx.cov["evaluations"] = total + len(spec_pairs)
    ctx.cov["distinct_nontrivial"] = len(distinct)
    ctx.cov["direct_oracle_failures"] = oracle_fail
    ctx.cov["input_distribution"] = dist
    ctx.cov["spec_crosscheck_programs"] = len(spec_pairs)
    ctx.cov["rule"] = (
        "hx_layout, per profile: (a) complete grids: every ordered pair of the 17 field-type classes, align_to on offsets 0..17 for every "
        "alignment class, array stride for every element class x lengths {0,1,2,3,5}, three-level nesting with arrays of tail-padded "
        "structs in three declaration orders, each with sizeof/alignof probes; (b) per seed, struct graphs with 1-12 structs x 0-8 fields "
        "over 11 scalar types, str, fnptr, param, void, ptr/slice (pointing anywhere, including back edges), arrays (length 0..300, nested "
        "to depth 3) and by-value nesting along a random rank order, each well-formed graph in three declaration orders plus its probe "
        "program; (c) malformed streams: duplicate names, undefined names, self reference (also through arrays), by-value cycles of length "
        "2-5, two malformations at once, legal pointer cycles, sizes around 2^32 (byte arrays ending within 17 bytes of 2^32, huge arrays, "
        "27-31 level doubling chains); (d) layout_of on random types; (e) corpus/C18 first. clang validates grids + random probe programs. "
        "distinct = distinct (profile, program) pairs with at least one field")
