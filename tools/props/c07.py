"""C07 -- No input can crash the toolchain.
Level `other`: theorems over the .avbc reader model (allocation bounded by the input's own size,
limits guard allocations, bounded nesting) + fuzz tie over source / .aasm / .avbc / manifest
inputs, in process (hx_fuzz, 8 MiB stack, catch_unwind) and through the real CLI binary in child
processes (wall-clock, address-space and stack limits), + accept/reject of .avbc against the model."""
import collections, os, random, re, resource, signal, struct, subprocess
import vlib
from props import c08, c08_gen

TRUSTED = [
    "Coq 8.16.1 kernel + vm_compute (non-vacuity Example, evaluation of the model on the .avbc stream)",
    "tools/extractors/c08.py (MAX_* limits, which limit guards which count, tags) and Model/Avbc.v (hand model of the reader; "
    "tied to binary.rs by the C08 contract tie on every C08 run and by the accept/reject comparison here)",
    "element sizes in read_alloc are nominal (Value 8, u32 4, Function 256, UpvalueDescriptor 2, line 8, String 24); hx_avbc checks "
    "size_of of the real types is not larger; Vec growth policy and allocator overhead are not modelled",
    "the harness: catch_unwind, an 8 MiB thread stack, process-death detection by the driver, rlimits for the CLI children",
    "NOT proved: absence of panics / stack overflow / non-termination in any Rust stage -- explored by fuzzing only",
]
IMPORTS = "From Aelys Require Import Model.Value Model.Avbc Model.AvbcObs.\nOpen Scope N_scope."


def hexs(b):
    return b.hex()


def inp(data):
    """replay fields for an input: whole when small, else a prefix + length + digest (the label and the seed regenerate it)"""
    import hashlib
    whole = len(data) <= 65536
    return {"input_hex": hexs(data if whole else data[:4000]), "input_len": len(data), "input_whole": whole,
            "input_sha256": hashlib.sha256(data).hexdigest()}


# ---------------------------------------------------------------------------------- structured inputs
def nest(kind, d):
    if kind == "parens":
        return "(" * d + "1" + ")" * d
    if kind == "blocks":
        return "if true { " * d + "1" + " }" * d
    if kind == "unary-minus":
        return "- " * d + "1"
    if kind == "unary-not":
        return "not " * d + "true"
    if kind == "unary-tilde":
        return "~" * d + "1"
    if kind == "array":
        return "Array[" * d + "1" + "]" * d
    if kind == "calls":
        return "fn f(x) { x }\n" + "f(" * d + "1" + ")" * d
    if kind == "lambdas":
        return "let g = " + "fn() { " * d + "1" + " }" * d
    if kind == "binary-chain":
        return "1" + " + 1" * d
    if kind == "index":
        return "let a = Array[1]\na" + "[0]" * d
    if kind == "member":
        return "let a = 1\na" + ".b" * d
    if kind == "while":
        return "while false { " * d + " }" * d
    if kind == "fn-nest":
        return "".join(f"fn f{i}() {{ " for i in range(d)) + "1" + " }" * d
    if kind == "else-if":
        return "let x = 3\nif x == 0 { 0 }" + "".join(f" else if x == {i} {{ {i} }}" for i in range(1, d)) + " else { 9 }"
    if kind == "fmt":
        return "let x = 1\n" + '"' + "{" * 1 + "x" + "}" + '"' if d < 2 else "let x = 1\n\"" + "{x} " * d + "\""
    if kind == "type-nest":
        return "let a: " + "Array<" * d + "int" + ">" * d + " = null"
    return "1"


NEST_KINDS = ["parens", "blocks", "unary-minus", "unary-not", "unary-tilde", "array", "calls", "lambdas", "binary-chain", "index",
              "member", "while", "fn-nest", "else-if", "fmt", "type-nest"]


def infinite_type_shapes(quick):
    """programs whose type constraints are cyclic (a = [a], a = fn() -> a, ...): the occurs check of the unifier is what
    keeps substitution finite. The variable must arrive on either side of the constraint, through every constructor."""
    wraps = {
        "self": lambda x: x, "array": lambda x: f"[{x}]", "array-pair": lambda x: f"[{x}, {x}]", "vec": lambda x: f"Vec[{x}]",
        "typed-array": lambda x: f"Array[{x}]", "lambda": lambda x: f"fn() {{ return {x} }}", "lambda-param": lambda x: f"fn(a) {{ {x} }}",
        "lambda-call": lambda x: f"fn() {{ {x} }}()", "group": lambda x: f"({x})", "fmt": lambda x: '"{' + x + '}"',
        "index": lambda x: f"{x}[0]", "call-result": lambda x: f"{x}()", "if-expr": lambda x: f"if true {{ {x} }} else {{ {x} }}",
    }
    def nestw(w, k, x):
        for _ in range(k):
            x = wraps[w](x)
        return x
    out = []
    depths = (1, 2, 5) if quick else (1, 2, 3, 5, 20, 150)
    for w in wraps:
        for k in depths:
            if (w in ("self", "group") and k > 1) or (w in ("array-pair", "if-expr") and k > 5):
                continue          # (the last two double the text per level)
            for rname, ref in (("fn", "f"), ("result", "f()"), ("rec-arg", "g(n - 1)")):
                fn, hd = ("g", "fn g(n) {") if rname == "rec-arg" else ("f", "fn f() {")
                e = nestw(w, k, ref)
                forms = {
                    "return": f"{hd} return {e} }}",
                    "implicit": f"{hd} {e} }}",
                    "base-first": f"{hd}\n  if true {{ return {nestw(w, k, '1') if w not in ('self', 'group', 'index', 'call-result') else '[]'} }}\n  return {e}\n}}",
                    "base-last": f"{hd}\n  if true {{ return {e} }}\n  return {ref}\n}}",
                    "via-let": f"{hd}\n  let r = {ref}\n  return {nestw(w, k, 'r')}\n}}",
                    "via-mut": f"{hd}\n  let mut r = {ref}\n  r = {nestw(w, k, 'r')}\n  return r\n}}",
                }
                for fname, body in forms.items():
                    out.append((f"inftype-{w}-{rname}-{fname}-{k}", (body + "\nprint(1)").encode()))
    fixed = {
        "returns-itself": "fn f() { return f }\nprint(1)",
        "returns-itself-called": "fn f() { return f }\nprint(f()()()() == f)",
        "nested-list": "fn build(n) {\n    if n == 0 { return [] }\n    return [build(n - 1)]\n}\nprint(build(3))",
        "nested-vec": "fn build(n) {\n    if n == 0 { return Vec[null] }\n    return Vec[build(n - 1)]\n}\nprint(build(3))",
        "self-apply-left": "fn g(x) { return x(x) }\nprint(1)",
        "self-apply-wrapped": "fn g(x) { return [x(x)] }\nprint(1)",
        "self-apply-twice": "fn g(x) { return x(x)(x) }\nprint(1)",
        "self-apply-arg": "fn g(x) { return x([x]) }\nprint(1)",
        "self-apply-lambda": "let g = fn(x) { x(x) }\nprint(1)",
        "self-apply-omega": "let g = fn(x) { x(x) }\ng(g)",
        "self-apply-two-params": "fn g(x, y) { return y(x, y) }\nprint(1)",
        "self-apply-compare-right": "fn g(x) { return [x] == x }\nprint(1)",
        "self-apply-compare-left": "fn g(x) { return x == [x] }\nprint(1)",
        "param-grows": "fn f(x) { return f([x]) }\nprint(1)",
        "param-grows-result": "fn f(x) { return [f([x])] }\nprint(1)",
        "param-reassigned": "fn f(mut x) { x = [x]\n return x }\nprint(1)",
        "param-reassigned-lambda": "fn f(mut x) { x = fn() { x }\n return x }\nprint(1)",
        "local-reassigned": "let mut a = [1]\na = [a]\nprint(1)",
        "local-reassigned-swap": "let mut a = [1]\nlet mut b = [a]\na = b\nb = [a]\nprint(1)",
        "local-fn-reassigned": "let mut h = fn() { 1 }\nh = fn() { h }\nprint(1)",
        "loop-grows": "let mut a = []\nlet mut i = 0\nwhile i < 3 { a = [a]\n i = i + 1 }\nprint(a)",
        "for-grows": "let mut a = []\nfor i in 0..3 { a = [a] }\nprint(a)",
        "mutual-fn": "fn a() { return b }\nfn b() { return a }\nprint(1)",
        "mutual-result": "fn a() { return [b()] }\nfn b() { return a() }\nprint(1)",
        "mutual-result-swapped": "fn a() { return b() }\nfn b() { return [a()] }\nprint(1)",
        "mutual-both-wrap": "fn a() { return [b()] }\nfn b() { return Vec[a()] }\nprint(1)",
        "mutual-lambda": "fn a() { return fn() { b() } }\nfn b() { return fn() { a() } }\nprint(1)",
        "mutual-three": "fn a() { return [b()] }\nfn b() { return c() }\nfn c() { return a }\nprint(1)",
        "mutual-three-results": "fn a() { return b() }\nfn b() { return c() }\nfn c() { return [a()] }\nprint(1)",
        "mutual-params": "fn a(x) { return b([x]) }\nfn b(y) { return a(y) }\nprint(1)",
        "mutual-params-fn": "fn a(x) { return b(a) }\nfn b(y) { return a(b) }\nprint(1)",
        "passes-itself": "fn f(x) { return x }\nprint(f(f)(f) == f)",
        "passes-itself-rec": "fn f(x) { return f(f) }\nprint(1)",
        "stores-itself": "fn f() { let v = [f]\n return v }\nprint(1)",
        "stores-itself-result": "fn f() { let v = [f()]\n return v[0] }\nprint(1)",
        "annotated-wrong": "fn f() -> int { return f }\nprint(1)",
        "annotated-array": "fn f() -> Array<int> { return [f()] }\nprint(1)",
        "annotated-param": "fn f(x: int) { return f(f) }\nprint(1)",
        "nested-fn-returns-outer": "fn f() {\n  fn g() { return f }\n  return g\n}\nprint(1)",
        "nested-fn-returns-outer-result": "fn f() {\n  fn g() { return [f()] }\n  return g()\n}\nprint(1)",
        "closure-captures-self": "fn f() {\n  let h = fn() { return [f()] }\n  return h()\n}\nprint(1)",
        "method-style": "fn f() { return f().len() }\nfn g() { return [g().len()] }\nprint(1)",
        "binary-op": "fn f() { return f() + [f()] }\nprint(1)",
        "binary-op-swapped": "fn f() { return [f()] + f() }\nprint(1)",
        "ternary-mix": "fn f(c) { if c { return f(false) } else { return [f(true)] } }\nprint(1)",
        "ternary-mix-swapped": "fn f(c) { if c { return [f(false)] } else { return f(true) } }\nprint(1)",
        "index-of-self": "fn f() { return f()[0] }\nprint(1)",
        "index-assign-self": "let mut a = [[1]]\na[0] = a\nprint(1)",
        "push-self-typed": "let v = Vec[1]\nv.push(v)\nprint(1)",
        "struct-field-fn": "struct S { g: int }\nfn f() { return S { g: f } }\nprint(1)",
    }
    out += [(f"inftype-{k}", v.encode()) for k, v in fixed.items()]
    return out


def did_you_mean_shapes(quick):
    """an undefined name next to declared names that are close to it (the hint of E0201 compares them character by
    character): ASCII and non-ASCII names, as locals / parameters / globals / functions, byte length within 2"""
    out = []
    pairs = [
        ("count", "coumt"), ("café", "cafe"), ("cafe", "café"), ("café", "cafè"), ("naïve", "naive"), ("naive", "naïve"), ("über", "uber"),
        ("日本", "日木"), ("日本語", "日本"), ("πr", "pr"), ("é", "e"), ("e", "é"), ("éé", "ee"), ("ee", "éé"), ("ééé", "éé"), ("éé", "ééé"),
        ("données", "donnees"), ("donnees", "données"), ("x😀", "x1"), ("x1234", "x😀"), ("ab", "€"), ("€", "ab"), ("€€", "€"), ("a€", "a$b"),
        ("ñ", "n"), ("straße", "strasse"), ("strasse", "straße"), ("_é", "_e"), ("é1", "e1"), ("Ω", "O"), ("переменная", "переменнaя"),
    ]
    if quick:
        pairs = pairs[:20]
    ctxs = {
        "global": lambda d, u: f"let {d} = 1\nprint({u})",
        "global-mut": lambda d, u: f"let mut {d} = 1\n{u} = 2",
        "local": lambda d, u: f"fn f() {{\n  let {d} = 1\n  return {u}\n}}\nprint(f())",
        "param": lambda d, u: f"fn f({d}) {{ return {u} }}\nprint(f(1))",
        "function": lambda d, u: f"fn {d}() {{ return 1 }}\nprint({u}())",
        "lambda-param": lambda d, u: f"let g = fn({d}) {{ {u} }}\nprint(g(1))",
        "loop-var": lambda d, u: f"for {d} in 0..3 {{ print({u}) }}",
        "block-local": lambda d, u: f"{{ let {d} = 1\n print({u}) }}",
        "captured": lambda d, u: f"fn f() {{\n  let {d} = 1\n  let g = fn() {{ {u} }}\n  return g()\n}}\nprint(f())",
        "many": lambda d, u: "\n".join(f"let {d}{c} = 1" for c in "abcé€") + f"\nlet {d} = 1\nprint({u})",
        "fmt": lambda d, u: f'let {d} = 1\nprint("{{{u}}}")',
        "call-undefined-fn": lambda d, u: f"let {d} = 1\n{u}(1)",
        "assign-undefined": lambda d, u: f"fn f() {{\n  let mut {d} = 1\n  {u} += 1\n}}\nf()",
        "member": lambda d, u: f"needs std.math\nlet {d} = 1\nprint(math.{u}(1))",
        "struct-field": lambda d, u: f"struct S {{ {d}: int }}\nlet s = S {{ {d}: 1 }}\nprint(s.{u})",
        "struct-name": lambda d, u: f"struct {d} {{ x: int }}\nlet s = {u} {{ x: 1 }}\nprint(s.x)",
        "module-alias": lambda d, u: f"needs std.math as {d}\nprint({u}.sqrt(4.0))",
    }
    for i, (d, u) in enumerate(pairs):
        for cn, mk in ctxs.items():
            out.append((f"didyoumean-{cn}-{i}", mk(d, u).encode()))
    return out


def round4_shapes(quick):
    """round-4 reviewer: a struct name defined twice where only some of the definitions close a by-value cycle,
    generic functions whose instances multiply, and the program-wide call-site counter"""
    import itertools
    out = []
    defs = {"A": "struct A { x: int, b: B }", "B1": "struct B { z: int, a: A }", "B2": "struct B { y: int }"}
    for i, perm in enumerate(itertools.permutations(defs)):
        out.append((f"dupstruct-cycle-perm-{i}", ("\n".join(defs[k] for k in perm) + "\nprint(1)").encode()))
    fixed = {
        "self-first": "struct A { a: A }\nstruct A { x: int }\nprint(1)",
        "self-last": "struct A { x: int }\nstruct A { a: A }\nprint(1)",
        "three-cycle-dup-middle": "struct A { b: B }\nstruct B { c: C }\nstruct C { a: A }\nstruct B { y: int }\nprint(1)",
        "three-cycle-dup-last": "struct A { b: B }\nstruct B { c: C }\nstruct C { a: A }\nstruct C { y: int }\nprint(1)",
        "both-duplicated": "struct A { b: B }\nstruct B { a: A }\nstruct A { x: int }\nstruct B { y: int }\nprint(1)",
        "both-duplicated-crossed": "struct A { x: int }\nstruct B { a: A }\nstruct A { b: B }\nstruct B { y: int }\nprint(1)",
        "triple": "struct B { a: A }\nstruct A { b: B }\nstruct B { a: A, y: int }\nstruct B { y: int }\nprint(1)",
        "used": "struct A { x: int, b: B }\nstruct B { z: int, a: A }\nstruct B { y: int }\nlet b = B { y: 1 }\nlet a = A { x: 1, b: b }\nprint(a.b.y)",
        "different-sizes": "struct P { a: i8 }\nstruct P { a: i64, b: i8 }\nstruct Q { h: i8, p: P }\nprint(1)",
        "in-function": "struct A { x: int, b: B }\nstruct B { z: int, a: A }\nstruct B { y: int }\nfn f(b: B) -> int { return b.y }\nprint(f(B { y: 2 }))",
        "nested-four": "struct A { b: B }\nstruct B { c: C }\nstruct C { d: D }\nstruct D { a: A }\nstruct D { y: int }\nstruct C { y: int }\nprint(1)",
    }
    out += [(f"dupstruct-{k}", v.encode()) for k, v in fixed.items()]
    # instances of a generic function: one new type per round (linear), two (doubling), three, through a second function
    wrap = {"array": "let {v} = [x]", "lambda": "let {v} = fn(y: int) -> T {{ return x }}", "vec": "let {v} = Vec[x]", "pair": "let {v} = [[x]]",
            "lambda2": "let {v} = fn() -> T {{ return x }}"}
    for n, ks in (("one", ["array"]), ("two", ["array", "lambda"]), ("two-arrays", ["array", "pair"]), ("three", ["array", "lambda", "vec"]),
                  ("four", ["array", "lambda", "vec", "lambda2"])):
        lets = "\n    ".join(wrap[k].format(v=f"v{i}") for i, k in enumerate(ks))
        calls = " + ".join(f"f(v{i}, n - 1)" for i in range(len(ks)))
        for start in ((3,) if quick else (3, 12)):
            out.append((f"mono-growth-{n}-{start}", (f"fn f<T>(x: T, n: int) -> int {{\n    if n == 0 {{ return 0 }}\n    {lets}\n    return {calls}\n}}\n"
                                                      f"fn main() -> int {{ return f(1, {start}) }}\nprint(main())").encode()))
    out += [
        ("mono-growth-mutual", b"fn f<T>(x: T, n: int) -> int {\n    if n == 0 { return 0 }\n    return g([x], n - 1) + g(fn() -> T { return x }, n - 1)\n}\n"
                               b"fn g<U>(y: U, n: int) -> int {\n    if n == 0 { return 0 }\n    return f([y], n - 1)\n}\nprint(f(1, 3))"),
        ("mono-growth-two-params", b"fn f<T, U>(x: T, y: U, n: int) -> int {\n    if n == 0 { return 0 }\n    return f([x], y, n - 1) + f(x, [y], n - 1)\n}\nprint(f(1, 2, 3))"),
        ("mono-growth-swap", b"fn f<T, U>(x: T, y: U, n: int) -> int {\n    if n == 0 { return 0 }\n    return f(y, [x], n - 1) + f([y], x, n - 1)\n}\nprint(f(1, 2.0, 3))"),
        ("mono-growth-no-base-case", b"fn f<T>(x: T) -> int {\n    return f([x]) + f(fn() -> T { return x })\n}\nprint(1)"),
    ]
    # the call-site counter is program wide (u16); the VM has its own, lower, slot limit
    for n in (4097, 66000) if quick else (255, 256, 4095, 4096, 4097, 32767, 32768, 65534, 65535, 65536, 65537, 66000, 131072):
        out.append((f"many-call-sites-{n}", ("fn g(x) { return x }\n" + "g(1)\n" * n).encode()))
    if not quick:
      out.append(("many-call-sites-in-lambdas-66000", ("fn g(x) { return x }\n" + "".join(f"let h{i} = fn() {{\n" + "g(1)\n" * 330 + "}\n" for i in range(200)) + "print(1)").encode()))
      out.append(("many-call-sites-nested-args-66000", ("fn g(x) { return x }\n" + ("g(g(g(g(g(g(g(g(g(g(1))))))))))\n" * 6600)).encode()))
    if not quick:
      out.append(("many-call-sites-in-functions-66000", ("fn g(x) { return x }\n" + "".join(f"fn h{i}() {{\n" + "g(1)\n" * 330 + "}\n" for i in range(200)) + "print(1)").encode()))
    # flat programs whose inference links one type variable per statement (run with a 1 MiB stack by the CLI driver)
    for n in (1000, 2600) if quick else (1000, 3000, 5000):
        if quick and n > 1000:
            out.append((f"var-chain-module-arg-{n}", ("needs std.math\nfn g(x) { return x }\n" + "g(math.abs(1))\n" * n).encode()))
            continue
        out.append((f"var-chain-module-arg-{n}", ("needs std.math\nfn g(x) { return x }\n" + "g(math.abs(1))\n" * n).encode()))
        out.append((f"var-chain-native-result-{n}", ("needs std.math\nlet mut a = math.abs(1)\nfn g(x) { return x }\n" + "a = g(math.abs(a))\n" * n).encode()))
        out.append((f"var-chain-lambda-arg-{n}", ("needs std.math\nlet g = fn(x) { x }\n" + "g(math.sqrt(4.0))\n" * n).encode()))
    out.append(("many-call-sites-module-4097", ("needs std.math\nfn g(x) { return x }\n" + "g(math.abs(1))\n" * 4097).encode()))
    return out


def slice_shapes(quick):
    """slice and range expressions (parsed and type-checked, no lowering in the code generator) in every expression position"""
    out = []
    slices = {"mid": "a[1..2]", "from": "a[1..]", "to": "a[..2]", "full": "a[..]", "incl": "a[1..=2]", "vars": "a[i..j]", "nested": "a[1..3][0..1]",
              "of-call": "mk()[0..1]", "expr-bounds": "a[(i + 1)..(j * 2)]", "neg": "a[-1..2]"}
    if quick:
        slices = {k: slices[k] for k in ("mid", "to", "vars", "of-call")}
    decls = {"array": "let a = Array[1, 2, 3, 4]", "literal": "let a = [1, 2, 3, 4]", "vec": "let a = Vec[1, 2, 3, 4]", "string": 'let a = "hello"'}
    pos = {
        "let": "let s = {e}\nprint(s)", "arg": "print({e})", "return": "fn f(a, i, j) {{ return {e} }}\nprint(f(a, i, j))", "implicit": "fn f(a, i, j) {{ {e} }}\nprint(f(a, i, j))",
        "condition": "if {e} == a {{ print(1) }}", "while": "while {e} == 0 {{ break }}", "operand": "let s = {e} + {e}", "index": "print({e}[0])",
        "method": "print({e}.len())", "fmt": 'print("{{{e}}}")', "lambda": "let g = fn() {{ {e} }}\nprint(g())", "for-iter": "for x in {e} {{ print(x) }}",
        "assign": "let mut s = a\ns = {e}", "assign-target": "{e} = a", "array-elem": "let s = [{e}, {e}]", "call-arg-user": "fn h(x) {{ return x }}\nprint(h({e}))",
        "struct-field": "struct S {{ f: int }}\nlet s = S {{ f: {e} }}", "unary": "print(not {e})", "cast": "print({e} as int)", "and": "print(true and {e})",
        "closure": "fn mkc(a, i, j) {{ return fn() {{ {e} }} }}\nprint(mkc(a, i, j)())", "top-level": "{e}",
    }
    for dn, d in decls.items():
        for sn, e in slices.items():
            for pn, t in pos.items():
                if quick and dn != "array" and pn not in ("let", "return", "top-level"):
                    continue
                out.append((f"slice-{dn}-{sn}-{pn}", (d + "\nlet i = 1\nlet j = 2\nfn mk() { return [1, 2, 3] }\n" + t.format(e=e)).encode()))
    for k, v in {"bare": "let r = 1..5\nprint(r)", "paren": "let r = (1..5)\nprint(r)", "arg": "print(1..5)", "incl": "print((1..=5))", "in-array": "let r = [1..5]",
                 "for-var": "let r = (0..3)\nfor i in r { print(i) }", "step": "for i in (0..10) { print(i) }", "return": "fn f() { return (1..2) }\nprint(f())",
                 "open": "print((..5))", "index-range-var": "let a = [1, 2, 3]\nlet r = (0..1)\nprint(a[r])"}.items():
        out.append((f"range-{k}", v.encode()))
    return out


def structured_source(quick):
    out = []
    depths = [10, 100, 250, 1000, 10000] + ([] if quick else [100000])
    for k in NEST_KINDS:
        for d in depths:
            if k in ("fn-nest", "else-if", "lambdas") and d > 10000:
                continue
            out.append((f"nest-{k}-{d}", nest(k, d).encode()))
    # shapes whose tree depth is not the parser's recursion depth (external review, round 3)
    def left_chains(levels, links):
        e = "1"
        for _ in range(levels):
            e = "(" + e + " + 1" * links + ")"
        return e
    for levels, links in ((9, 90), (50, 300), (90, 900), (99, 999)):
        out.append((f"nest-left-chains-{levels * links}", left_chains(levels, links).encode()))
    out.append(("nest-right-operand-chains-40000", ("1" + "".join(" + (1" + " * 2" * 400 for _ in range(100)) + ")" * 100).encode()))
    for d in depths:
        out.append((f"nest-assign-chain-{d}", ("let mut a = 1\n" + "a = " * d + "1").encode()))
        out.append((f"nest-compound-assign-chain-{d}", ("let mut a = 1\n" + "a += " * d + "1").encode()))
        out.append((f"nest-cast-chain-{d}", ("let a = 1\na" + " as int" * d).encode()))
        out.append((f"nest-mixed-postfix-chain-{d}", ("let a = 1\na" + " as int.b[0]" * (d // 3)).encode()))
    if 100000 not in depths:
        out.append(("nest-cast-chain-100000", ("let a = 1\na" + " as int" * 100000).encode()))
    for par in (10, 50, 95):
        inner = "(" * par + "1" + ")" * par
        lvl2 = '"{' + inner + '}"'
        out.append((f"nest-fmt-in-fmt-{par}", ('let x = "{' + "(" * par + lvl2 + ")" * par + '}"\nx').encode()))
        out.append((f"nest-fmt-chain-in-fmt-{par}", ('let x = "{' + left_chains(par, par * 9) + ' + "{' + left_chains(par, par * 9) + '}"}"\nx').encode()))
    out += [
        ("cyclic-vec-print", b"let v = Vec[null]\nv.push(v)\nprint(v)"),
        ("cyclic-array-print", b"let a = Array[null]\na[0] = a\nprint(a)"),
        ("cyclic-vec-interpolate", b'needs std.io\nlet v = Vec[null]\nv.push(v)\nio.println("{v}")'),
        ("cyclic-vec-to-string", b"needs std.io\nlet v = Vec[null]\nv.push(v)\nio.println(v.to_string())"),
        ("cyclic-two-vecs-print", b"let v = Vec[null]\nlet w = Vec[v]\nv.push(w)\nprint(v)\nprint(w)"),
        ("cyclic-vec-result", b"let v = Vec[null]\nv.push(v)\nv"),
        ("cyclic-vec-compare", b"let v = Vec[null]\nv.push(v)\nlet w = Vec[null]\nw.push(w)\nprint(v == w)"),
        ("deep-vec-print", b"let mut v = Vec[null]\nlet mut i = 0\nwhile i < 5000 {\n  let w = Vec[null]\n  w.push(v)\n  v = w\n  i = i + 1\n}\nprint(v)"),
    ]
    # a diagnostic far to the right on one line (the caret line is padded up to the column)
    for col in (65534, 65535, 65536, 70000) if quick else (255, 256, 32767, 32768, 65534, 65535, 65536, 70000, 1 << 20):
        pad = " " * col
        out += [
            (f"far-column-lex-error-{col}", (pad + "let a = 1 $ 2").encode()),
            (f"far-column-parse-error-{col}", (pad + "let = 1").encode()),
            (f"far-column-sem-error-{col}", (pad + "print(undefined_thing)").encode()),
            (f"far-column-type-error-{col}", (pad + 'let a: int = "s"').encode()),
            (f"far-column-warning-{col}", (pad + 'print(1 == "a")').encode()),
            (f"far-column-shadow-warning-{col}", ("let x = 1\n" + pad + "{ let x = 2\nprint(x) }").encode()),
            (f"far-column-runtime-error-{col}", (pad + "print(1 / 0)").encode()),
            (f"far-column-wide-span-{col}", ("print(" + "a" * col + ")").encode()),
            (f"far-column-after-multibyte-{col}", ('let s = "' + "\u00e9" * col + '"; print(undefined_thing)').encode()),
        ]
    out += slice_shapes(quick)
    out += round4_shapes(quick)
    out += infinite_type_shapes(quick)
    out += did_you_mean_shapes(quick)
    big = 20000 if quick else 1000000
    out += [
        ("huge-int", ("let a = " + "9" * big).encode()), ("huge-float", ("let a = 1." + "0" * big + "e999999").encode()),
        ("huge-hex", ("0x" + "F" * big).encode()), ("huge-underscores", ("1" + "_" * big + "1").encode()),
        ("huge-string", ('let s = "' + "a" * big + '"\ns').encode()), ("huge-ident", ("let " + "a" * big + " = 1").encode()),
        ("huge-comment", ("// " + "x" * big + "\n1").encode()), ("exp-float", b"1e999999999999999999"), ("int-overflow", b"140737488355328 * 140737488355328"),
        ("neg-shift", b"1 << -1"), ("big-shift", b"1 << 64"), ("min-div", b"(-140737488355327 - 1) / -1"), ("mod-zero", b"5 % 0"),
        ("array-neg", b"let a = Array<Int>(-1)\na.len()"), ("unterminated-string", b'let s = "abc'), ("unterminated-fmt", b'"{x'), ("lone-brace", b"}"),
        ("nul-bytes", b"let a = 1\x00\x00 + 2"), ("bom", b"\xef\xbb\xbflet a = 1\na"), ("crlf", b"let a = 1\r\nlet b = 2\r\na + b"),
        ("struct-self", b"struct A { x: A }\n1"), ("struct-mutual", b"struct A { x: B }\nstruct B { y: A }\n1"),
        ("struct-3cycle", b"struct A { x: B }\nstruct B { y: C }\nstruct C { z: A }\nlet q = 1\nq"),
        ("struct-unknown-field", b"struct A { x: Nope }\n1"), ("struct-dup", b"struct A { x: int }\nstruct A { y: int }\n1"),
        ("struct-literal-cycle", b"struct A { x: A }\nlet a = A { x: 1 }\na"),
        ("needs-dotdot", b"needs ..\n1"), ("needs-empty", b"needs \n1"), ("needs-std-only", b"needs std\n1"), ("needs-std-dot", b"needs std.\n1"),
        ("needs-nonexistent", b"needs std.nonexistent\n1"), ("needs-abs", b"needs /etc/passwd\n1"), ("needs-string", b'needs "x"\n1'),
        ("needs-long", ("needs " + ".".join(["a"] * 5000) + "\n1").encode()), ("needs-self", b"needs c07_input\n1"),
        ("needs-from-nothing", b"needs from std.io\n1"), ("needs-as-keyword", b"needs std.io as fn\n1"), ("needs-dup", b"needs std.io\nneeds std.io\nneeds std.io as io\nio.println(1)"),
        ("bad-utf8-string", b'let s = "\xff\xfe"\ns'), ("bad-utf8-ident", b"let \xc3\x28 = 1"), ("bad-utf8-comment", b"// \xf0\x28\x8c\xbc\n1"), ("surrogate", b'"\xed\xa0\x80"'),
        ("many-fns", ("\n".join(f"fn f{i}() {{ return {i} }}" for i in range(300)) + "\nf299()").encode()),
        ("many-locals", ("fn f() {\n" + "\n".join(f"let v{i} = {i}" for i in range(300)) + "\nreturn v299 }\nf()").encode()),
        ("many-params", ("fn f(" + ", ".join(f"p{i}" for i in range(300)) + ") { return p0 }\n1").encode()),
        ("many-args", ("fn f(a) { a }\nf(" + ", ".join("1" for _ in range(300)) + ")").encode()),
        ("many-globals", ("\n".join(f"let g{i} = {i}" for i in range(70000 if not quick else 3000)) + "\ng1").encode()),
        # quadratic compile time (2.5 min for 20 000 statements in the debug CLI): slow is not a crash, keep it inside the wall-clock budget
        ("many-constants", ("let mut s = 0.0\n" + "\n".join(f"s = s + {i}.5" for i in range(6000 if not quick else 3000)) + "\ns").encode()),
        ("many-strings", ("\n".join(f'let s{i} = "str{i}"' for i in range(300)) + "\ns1").encode()),
        ("deep-recursion-run", b"fn r(n) { return r(n + 1) }\nr(0)"), ("infinite-loop", b"while true { }"),
        ("closure-chain", ("let f0 = fn(x) { x }\n" + "\n".join(f"let f{i} = fn(x) {{ f{i - 1}(x) }}" for i in range(1, 200)) + "\nf199(1)").encode()),
        ("attr-garbage", b"@@@\nfn f() { }"), ("attr-unknown", b"@nope\nfn f() { 1 }\nf()"), ("no-gc-misuse", b"@no_gc\nfn f() { let b = alloc(-1)\n free(b)\n free(b) }\nf()"),
        ("for-huge-range", b"let mut s = 0\nfor i in 0..140737488355327 { s += 1 }\ns"), ("for-step-zero", b"for i in 0..10 step 0 { }\n1"),
        ("string-repeat-huge", b'needs std.string\nstring.repeat("ab", 100000000000)'), ("vec-reserve-huge", b"let v = Vec[1]\nv.reserve(100000000000)\n1"),
        ("open-paren-at-eof", b"("), ("open-call-at-eof", b"f("), ("open-bracket-at-eof", b"Array["), ("open-brace-at-eof", b"if true {"),
        ("open-index-at-eof", b"a["), ("open-if-at-eof", b"let a = 1\nif "), ("operator-at-eof", b"1 +"), ("while-at-eof", b"while"),
        # limits that became diagnostics: jump span > 32767 (E0214), literal > 255 elements, inference depth
        # top-level bodies; in the debug CLI these take 20 s each (compile time is quadratic in the body), so the quick
        # tier sends them through the in-process stages only
        ("long-loop-body", ("let mut s = 0\nlet mut i = 0\nwhile i < 2 {\n" + "s = s + 1\n" * 12000 + "i = i + 1\n}\ns").encode()),
        ("long-if-body", ("let mut s = 0\nif s == 0 {\n" + "s = s + 1\n" * 12000 + "}\ns").encode()),
        ("long-fn-body", ("fn f(x) {\nlet mut s = x\n" + "s = s * 3 + x * 7 - s / 2 + (s % 5)\n" * 600 + "return s }\nf(1)").encode()),
        ("wide-array-255", ("let a = Array[" + ", ".join("1" for _ in range(255)) + "]\na[254]").encode()),
        ("wide-array-256", ("let a = Array[" + ", ".join("1" for _ in range(256)) + "]\na[255]").encode()),
        ("wide-array-70000", ("let a = Array[" + ", ".join("1" for _ in range(70000)) + "]\na[0]").encode()),
        ("wide-vec-300", ("let a = Vec[" + ", ".join("1.5" for _ in range(300)) + "]\na.len()").encode()),
        ("wide-call-args-254", ("fn f(" + ", ".join(f"p{i}" for i in range(254)) + ") { p0 }\nf(" + ", ".join("1" for _ in range(254)) + ")").encode()),
        ("wide-call-args-255", ("fn f(a) { a }\nf(" + ", ".join("1" for _ in range(255)) + ")").encode()),
        ("wide-params-255", ("fn f(" + ", ".join(f"p{i}" for i in range(255)) + ") { p0 }\n1").encode()),
        ("deep-member-chain", ("let a = 1\n" + "a" + ".b" * 5000).encode()),
        ("deep-call-chain", ("fn f(x) { x }\nlet r = " + "f(" * 99 + "1" + ")" * 99 + "\nr").encode()),
        ("long-and-chain", ("let t = true\nt" + " and t" * 20000).encode()),
        ("long-concat-chain", ('let s = "a"\ns' + ' + "b"' * 5000).encode()),
        ("empty", b""), ("only-newlines", b"\n" * 10000), ("only-semicolons", b";" * 10000),
    ]
    return out


def mutate_text(r, b):
    b = bytearray(b)
    n = max(1, len(b))
    k = r.randint(0, 7)
    if k == 0:
        del b[r.randrange(n):]
    elif k == 1 and b:
        b[r.randrange(len(b))] = r.randrange(256)
    elif k == 2:
        i = r.randrange(n)
        b[i:i] = r.choice([b"(", b")", b"{", b"}", b"[", b"]", b'"', b"\\", b"fn ", b"needs ", b"@", b"..", b"\x00", b"\xff", b"struct S { s: S }\n", b"1e", b"0x", b"-"]) * r.choice([1, 1, 2, 50])
    elif k == 3 and b:
        i, j = sorted((r.randrange(len(b)), r.randrange(len(b))))
        del b[i:j]
    elif k == 4 and b:
        i, j = sorted((r.randrange(len(b)), r.randrange(len(b))))
        b[i:i] = b[i:j]
    elif k == 5:
        m = list(re.finditer(rb"\d+", bytes(b)))
        if m:
            x = r.choice(m)
            b[x.start():x.end()] = r.choice([b"99999999999999999999", b"140737488355328", b"-1", b"0", b"255", b"256", b"65536", b"1e400", b"0.0000000000000000000000001"])
    elif k == 6 and b:
        for _ in range(3):
            b[r.randrange(len(b))] = r.randrange(256)
    else:
        i = r.randrange(n)
        b[i:i] = bytes(r.randrange(256) for _ in range(r.randint(1, 8)))
    return bytes(b)


def aasm_chain(n):
    one = b".function %d\n  .arity 0\n  .registers 1\n  .nested 1\n  .code\n    0000: Return0\n"
    return b".version 1\n" + b"".join(one % i for i in range(n)) + b".function %d\n  .arity 0\n  .registers 1\n  .code\n    0000: Return0\n" % n


def aasm_wide(n):
    return (b".version 1\n.function 0\n  .arity 0\n  .registers 1\n  .nested %d\n  .code\n    0000: Return0\n" % n
            + b"".join(b".function %d\n  .code\n    0000: Return0\n" % i for i in range(1, n + 1)))


def structured_aasm(seeds):
    hd = b"; x\n.version 1\n.function 0\n  .arity 0\n  .registers 4\n"
    out = [
        ("aasm-empty", b""), ("aasm-no-function", b".version 1\n"), ("aasm-unknown-directive", b".version 1\n.foo 1\n.function 0\n  .code\n    0000: Return0\n"),
        ("aasm-directive-only", b".foo\n"), ("aasm-stray-tokens", b"1 2 3\n, : @ [ ]\n"), ("aasm-no-code", hd),
        ("aasm-big-register", hd + b"  .code\n    0000: Move r999, r0\n"), ("aasm-jump-far", hd + b"  .code\n    0000: Jump 30000\n    0001: Return0\n"),
        ("aasm-jump-back", hd + b"  .code\n    0000: Jump -30000\n"), ("aasm-undefined-label", hd + b"  .code\n    0000: Jump L9\n"),
        ("aasm-dup-label", hd + b"  .code\n  L0:\n  L0:\n    0000: Return0\n"), ("aasm-loadk-oob", hd + b"  .code\n    0000: LoadK r0, 500\n    0001: Return r0\n"),
        ("aasm-func-ref-oob", hd + b"  .constants\n    0: func @40\n  .code\n    0000: LoadK r0, 0\n    0001: Call r1, r0, 0\n    0002: Return r1\n"),
        ("aasm-func-ref-zero", hd + b"  .constants\n    0: func @0\n  .code\n    0000: LoadK r0, 0\n    0001: Return r0\n"),
        ("aasm-global-idx-huge", hd + b"  .globals\n    4000000000: \"x\"\n  .code\n    0000: Return0\n"),
        ("aasm-global-idx-negative", hd + b"  .globals\n    -1: \"x\"\n  .code\n    0000: Return0\n"),
        ("aasm-upvalue-idx-huge", hd + b"  .upvalues\n    4000000000: local 0\n  .code\n    0000: Return0\n"),
        ("aasm-callglobal-end", hd + b"  .globals\n    0: \"f\"\n  .code\n    0000: CallGlobal r0, 0, 0\n"),
        ("aasm-registers-huge", b".function 0\n  .registers 99999\n  .code\n    0000: Return0\n"), ("aasm-arity-huge", b".function 0\n  .arity 99999\n  .code\n    0000: Return0\n"),
        ("aasm-int-huge", hd + b"  .constants\n    0: int 99999999999999999999999999\n  .code\n    0000: Return0\n"),
        ("aasm-string-unterminated", hd + b"  .constants\n    0: string \"abc\n"), ("aasm-bad-escape", hd + b"  .constants\n    0: string \"\\q\\x\\u{110000}\"\n  .code\n    0000: Return0\n"),
        ("aasm-many-functions", b"".join(b".function %d\n  .code\n    0000: Return0\n" % i for i in range(5000))),
        ("aasm-long-line", hd + b"  .code\n    0000: Move " + b"r1, " * 20000 + b"\n"), ("aasm-run-off-end", hd + b"  .code\n    0000: LoadI r0, 1\n"),
        ("aasm-bad-utf8", hd + b"  .name \"\xff\xfe\"\n  .code\n    0000: Return0\n"), ("aasm-word", hd + b"  .code\n    0000: .word 0x7d000000\n"),
        ("aasm-makeclosure-oob", hd + b"  .code\n    0000: MakeClosure r0, 9, 9\n    0001: Return r0\n"),
        ("aasm-nested-chain-64", aasm_chain(64)), ("aasm-nested-chain-65", aasm_chain(65)), ("aasm-nested-chain-1000", aasm_chain(1000)),
        ("aasm-nested-chain-200000", aasm_chain(200000)), ("aasm-nested-wide", aasm_wide(5000)),
        ("aasm-nested-count-huge", hd.replace(b".registers 4", b".registers 4\n  .nested 4000000000") + b"  .code\n    0000: Return0\n"),
        ("aasm-nested-negative", hd.replace(b".registers 4", b".registers 4\n  .nested -5") + b"  .code\n    0000: Return0\n"),
    ] + [
        (f"aasm-foreach-offset-{op}-{off}", hd.replace(b".registers 4", b".registers 6") + b'  .constants\n    0: string "h\xc3\xa9llo \xf0\x9f\x98\x80"\n  .code\n'
         + b"    0000: LoadK     r3, 0\n    0001: LoadI     r2, %d\n    0002: %s r1, 1\n    0003: Return0\n    0004: Return0\n" % (off, op.encode()))
        for op in ("StringForLoop", "VecForLoop", "ArrayForLoop") for off in (0, 1, 2, 3, 8, 9, 10, -1, 32767)
    ] + [
        ("aasm-deep-label-chain", hd + b"  .code\n" + b"".join(b"  L%d:\n    %04d: Jump L%d\n" % (i, i, i + 1) for i in range(3000)) + b"  L3000:\n    3000: Return0\n"),
    ]
    return out + [(f"aasm-seed-{i}", s) for i, s in enumerate(seeds[:6])]


def avbc_fn(code=(), consts=b"", nconsts=0, nested=b"", nnested=0, name=b"", regs=4, upv=b"", nupv=0, lines=b"", nlines=0, globs=b"", nglobs=0):
    b = struct.pack("<H", len(name)) + name + bytes([0, regs]) + struct.pack("<H", nconsts) + consts
    b += struct.pack("<I", len(code)) + b"".join(struct.pack("<I", w & 0xFFFFFFFF) for w in code)
    b += struct.pack("<H", nnested) + nested + struct.pack("<H", nupv) + upv + struct.pack("<H", nlines) + lines + struct.pack("<H", nglobs) + globs
    return b


AVBC_HDR = b"VBXQ" + struct.pack("<HHII", 1, 0, 1, 0)


def structured_avbc(seeds):
    ret0 = 23 << 24
    out = [("avbc-empty", b""), ("avbc-magic-only", b"VBXQ"), ("avbc-header-only", AVBC_HDR), ("avbc-minimal", AVBC_HDR + avbc_fn([ret0]))]
    for op in (122, 125, 129, 174, 175, 179, 200, 255):
        out.append((f"avbc-opcode-{op}", AVBC_HDR + avbc_fn([op << 24, ret0])))
    out += [
        ("avbc-bigptr-const", AVBC_HDR + avbc_fn([ret0], consts=b"\x06" + b"\xff" * 8, nconsts=1)),
        ("avbc-ptr-2pow48", AVBC_HDR + avbc_fn([ret0], consts=b"\x06" + struct.pack("<Q", 1 << 48), nconsts=1)),
        ("avbc-no-code", AVBC_HDR + avbc_fn([])), ("avbc-run-off-end", AVBC_HDR + avbc_fn([1 << 24 | 1])),
        ("avbc-jump-far", AVBC_HDR + avbc_fn([18 << 24 | 0x7fff, ret0])), ("avbc-jump-back", AVBC_HDR + avbc_fn([18 << 24 | 0x8000, ret0])),
        ("avbc-jumpif-back", AVBC_HDR + avbc_fn([19 << 24 | 0x8000, ret0])), ("avbc-jumpifnot-back", AVBC_HDR + avbc_fn([20 << 24 | 0x8000, ret0])),
        ("avbc-forloop-back", AVBC_HDR + avbc_fn([41 << 24 | 0x8000, ret0])),
        ("avbc-loadk-oob", AVBC_HDR + avbc_fn([2 << 24 | 0 << 16 | 500, ret0])), ("avbc-reg-oob", AVBC_HDR + avbc_fn([0 << 24 | 200 << 16 | 250 << 8, ret0], regs=1)),
        ("avbc-callglobal-end", AVBC_HDR + avbc_fn([77 << 24])), ("avbc-callmono-garbage", AVBC_HDR + avbc_fn([78 << 24, 0xdeadbeef, 0xffff, ret0])),
        ("avbc-callnative-garbage", AVBC_HDR + avbc_fn([104 << 24, 0xdeadbeef, 0xffff0001, ret0])),
        ("avbc-marker-oob", AVBC_HDR + avbc_fn([ret0], consts=b"\x05" + struct.pack("<I", 7), nconsts=1)),
        ("avbc-str-limit", AVBC_HDR + avbc_fn([ret0], consts=b"\x04" + struct.pack("<I", 1000000) + b"a" * 1000000, nconsts=1)),
        ("avbc-str-limit+1", AVBC_HDR + avbc_fn([ret0], consts=b"\x04" + struct.pack("<I", 1000001) + b"a" * 1000001, nconsts=1)),
        ("avbc-str-claims-4g", AVBC_HDR + avbc_fn([ret0], consts=b"\x04" + struct.pack("<I", 0xffffffff), nconsts=1)),
        ("avbc-code-claims-4g", AVBC_HDR + struct.pack("<H", 0) + bytes([0, 1]) + struct.pack("<H", 0) + struct.pack("<I", 0xffffffff)),
        ("avbc-code-claims-limit", AVBC_HDR + struct.pack("<H", 0) + bytes([0, 1]) + struct.pack("<H", 0) + struct.pack("<I", 1000000)),
        ("avbc-consts-claim-max", AVBC_HDR + struct.pack("<H", 0) + bytes([0, 1]) + struct.pack("<H", 65535)),
        ("avbc-upvals-257", AVBC_HDR + avbc_fn([ret0], upv=b"\x01\x00" * 257, nupv=257)), ("avbc-upvals-256", AVBC_HDR + avbc_fn([ret0], upv=b"\x01\x00" * 256, nupv=256)),
        ("avbc-section-claims-256m", AVBC_HDR + avbc_fn([ret0]) + b"MANF" + struct.pack("<I", 256 * 1024 * 1024)),
        ("avbc-section-claims-4g", AVBC_HDR + avbc_fn([ret0]) + b"MANF" + struct.pack("<I", 0xffffffff)),
        ("avbc-section-bad-manifest", AVBC_HDR + avbc_fn([ret0]) + b"MANF" + struct.pack("<I", 4) + b"\xff\xfe[["),
        ("avbc-bundle-count-4g", AVBC_HDR + avbc_fn([ret0]) + b"NBND" + struct.pack("<I", 4) + struct.pack("<I", 0xffffffff)),
        ("avbc-bad-utf8-name", AVBC_HDR + avbc_fn([ret0], name=b"\xff\xfe")), ("avbc-version-2", b"VBXQ" + struct.pack("<HHII", 2, 0, 1, 0) + avbc_fn([ret0])),
    ]
    f = avbc_fn([ret0])
    for d in (64, 65, 66, 1000):
        g = f
        for _ in range(d):
            g = avbc_fn([ret0], nested=g, nnested=1)
        out.append((f"avbc-depth-{d}", AVBC_HDR + g))
    ret = struct.pack("<I", ret0)
    pre = struct.pack("<H", 0) + bytes([0, 4]) + struct.pack("<H", 0) + struct.pack("<I", 1) + ret + struct.pack("<H", 1)
    suf = struct.pack("<H", 0) * 3
    for d in (100000,):
        out.append((f"avbc-depth-{d}", AVBC_HDR + pre * d + f + suf * d))
    out.append(("avbc-nested-4096", AVBC_HDR + avbc_fn([ret0], nested=f * 4096, nnested=4096)))
    out.append(("avbc-nested-4097", AVBC_HDR + avbc_fn([ret0], nested=f * 4097, nnested=4097)))
    return out + [(f"avbc-seed-{i}", s) for i, s in enumerate(seeds[:6])]


def structured_manifest(quick):
    d = 2000 if quick else 100000
    return [
        ("toml-empty", b""), ("toml-valid", b'[module.foo]\ncapabilities = ["fs"]\nrequired_version = ">=1.0"\nkind = "native"\n[build]\nbundle_native_modules = true\n'),
        ("toml-wrong-types", b'[module]\nfoo = 3\n[build]\nbundle_native_modules = "yes"\n'), ("toml-module-not-table", b'module = 1\n'),
        ("toml-deep-tables", ("[" + ".".join(["a"] * d) + "]\nx = 1\n").encode()), ("toml-deep-arrays", ("x = " + "[" * d + "]" * d + "\n").encode()),
        ("toml-deep-inline", ("x = " + "{a=" * d + "1" + "}" * d + "\n").encode()), ("toml-huge-string", ('x = "' + "a" * (d * 50) + '"\n').encode()),
        ("toml-huge-int", ("x = " + "9" * 5000 + "\n").encode()), ("toml-dup-keys", b"[module.a]\nkind = \"std\"\n[module.a]\nkind = \"std\"\n"),
        ("toml-bad-utf8", b"x = \"\xff\xfe\"\n"), ("toml-unterminated", b'[module.foo\ncapabilities = ["fs"'), ("toml-nul", b"x = 1\x00\n"),
        ("toml-date", b"x = 1979-05-27T07:32:00Z\n"), ("toml-many-modules", "".join(f'[module.m{i}]\nkind = "std"\n' for i in range(5000)).encode()),
        ("toml-caps-huge", ('[module.a]\ncapabilities = [' + ", ".join('"c"' for _ in range(50000)) + "]\n").encode()),
        ("toml-path-traversal", b'[module.a]\npath = "../../../../etc/passwd"\nkind = "script"\n'), ("toml-unicode-keys", '[module."\u202e\u0000x"]\nkind = "std"\n'.encode()),
    ]


def nesting_depth(b):
    """decidable class predicate on an input: maximal bracket / prefix-operator / chain nesting"""
    d = mx = 0
    for c in b:
        if c in b"([{":
            d += 1
            mx = max(mx, d)
        elif c in b")]}":
            d = max(0, d - 1)
    runs = [len(m.group(0)) for m in re.finditer(rb"(?:(?:-|~|not)\s*){8,}", b)]
    chain = [len(m.group(0)) // 4 for m in re.finditer(rb"(?:\s*[-+*/]\s*\w+){50,}", b)]
    return max([mx] + runs + chain)


# ---------------------------------------------------------------------------------- drivers
def run_inproc(ctx, exe, inputs, wd, tag, timeout_each=20):
    """inputs: list of (kind, label, bytes).  Returns list of outcome strings (one per input)."""
    f = os.path.join(wd, f"inputs_{tag}.txt")
    with open(f, "w") as fh:
        for k, l, b in inputs:
            fh.write(f"{k}\t{l}\t{hexs(b)}\n")
    outcomes, accepts = [None] * len(inputs), {}
    start = 0
    while start < len(inputs):
        # watchdog: no input may take longer than timeout_each seconds (a hang is a violation, and must not stall the run)
        import selectors, time as _t
        p = subprocess.Popen([exe, "--file", f, "--start", str(start), "--tmp", wd], stdout=subprocess.PIPE, stderr=subprocess.PIPE)
        sel = selectors.DefaultSelector()
        sel.register(p.stdout, selectors.EVENT_READ)
        buf, last, hung = b"", _t.time(), False
        os.set_blocking(p.stdout.fileno(), False)
        while True:
            if sel.select(timeout=1.0):
                chunk = p.stdout.read()
                if chunk:
                    buf += chunk
                    if b"\nE\t" in chunk or chunk.startswith(b"E\t") or b"\nB\t" in chunk:
                        last = _t.time()
                elif p.poll() is not None:
                    break
            elif p.poll() is not None:
                break
            if _t.time() - last > timeout_each:
                hung = True
                p.kill()
                break
        try:
            rest, errb = p.communicate(timeout=10)
        except Exception:
            rest, errb = b"", b""
        buf += rest or b""
        rc = 124 if hung else p.returncode
        out = buf.decode("utf-8", "replace")

        class _P:          # what the attribution code below expects
            stderr = errb or b""
        p = _P
        cur, stage = None, ""
        for line in out.splitlines():
            t = line.split("\t")
            if t[0] == "B":
                cur, stage = int(t[1]), ""
            elif t[0] == "S":
                stage = t[2]
            elif t[0] == "A":
                accepts[int(t[1])] = t[2]
            elif t[0] == "E":
                outcomes[int(t[1])] = t[2]
                cur = None
        if rc == 0 and cur is None:
            break
        if cur is None:          # died between inputs
            ctx.broken.append(f"hx_fuzz died without a current input (rc={rc})")
            break
        if rc == 124 and timeout_each < 100:
            # slow machine or really stuck?  the same input alone, with eight times the limit (the CLI
            # route does the same); only an input that is still running then is reported as a hang
            o2, a2 = run_inproc(ctx, exe, [inputs[cur]], wd, f"{tag}_slow{cur}", timeout_each=timeout_each * 8)
            outcomes[cur] = o2[0]
            if 0 in a2:
                accepts[cur] = a2[0]
            ctx.cov.setdefault("slow_inputs_retried", []).append(f"{inputs[cur][1]} -> {o2[0]}")
            start = cur + 1
            continue
        err = p.stderr.decode("utf-8", "replace") if rc != 124 else ""
        how = "timeout" if rc == 124 else ("signal-" + signal.Signals(-rc).name if rc < 0 else f"exit-{rc}")
        pa = [l for l in err.splitlines() if l.startswith("PANIC-AT\t")]
        if "has overflowed its stack" in err:
            outcomes[cur] = f"stack-overflow:{stage}"
        elif "memory allocation of" in err:
            outcomes[cur] = f"alloc-failure:{stage}"
        elif pa and rc != 124:
            t = pa[-1].split("\t")
            outcomes[cur] = f"panic:{stage}:{t[1]}:{norm_words(t[2] if len(t) > 2 else '')}"
        else:
            outcomes[cur] = f"crash:{stage}:{how}"
        start = cur + 1
    return outcomes, accepts


def norm_words(msg):
    msg = re.sub(r"`[^`]*`", "", msg)
    return "-".join([w.lower() for w in re.split(r"[^A-Za-z]+", msg) if len(w) > 1][:5])


def norm_site(path):
    path = path.split(vlib.REPO.rstrip("/") + "/")[-1].split("/repo/")[-1]
    return re.sub(r"^/rustc/[0-9a-f]+/library/", "std:", path)


def tok_term(t):
    lst = lambda x: "[" + "; ".join(x.split(".")) + "]" if x else "[]"
    k, _, v = t.partition(":")
    if t in (",", ":", "@", "[", "]"):
        return {",": "AComma", ":": "AColon", "@": "AAt", "[": "ALBr", "]": "ARBr"}[t]
    if t == "NL":
        return "ANl"
    if t == "EOF":
        return "AEof"
    if t == "F":
        return "AFlt"
    if t == "U":
        return "ANull"
    return {"D": f"ADir {lst(v)}", "L": f"ALab {lst(v)}", "I": f"AId {lst(v)}", "S": f"AStr {lst(v)}", "R": f"AReg {v}",
            "N": f"AInt ({v})%Z", "B": f"ABool {v}"}[k]


def lex_tie(ctx, exe, inputs, wd):
    """every short UTF-8 input of every kind through the .aasm lexer (hook asm::verif_tokens): the token list, or
    the fact that lexing fails, must be what Model/AasmLex.v computes"""
    f = os.path.join(wd, "inputs_all.txt")
    rc, out = vlib.sh([exe, "--lex", f], timeout=600)
    cases, nerr = [], 0
    for line in out.splitlines():
        t = line.split("\t")
        if t[0] != "X" or len(t) < 3:
            continue
        idx = int(t[1])
        toks = t[2].split(" ") if t[2] else []
        if toks and toks[-1] == "PANIC":
            ctx.violation("panic:aasm-lexer", "the .aasm lexer panicked", {"input_hex": hexs(inputs[idx][2]), "label": inputs[idx][1]})
            continue
        cps = "[" + "; ".join(str(ord(c)) for c in inputs[idx][2].decode("utf-8")) + "]"
        if toks and toks[-1] == "ERR":
            nerr += 1
            cases.append((cps, "(@None (list atok))"))
        else:
            cases.append((cps, "(Some [" + "; ".join(tok_term(x) for x in toks) + "])"))
    if not cases:
        ctx.broken.append("lexer tie: hx_fuzz --lex produced nothing")
        return
    imp = "From Aelys Require Import Model.AasmLex.\nOpen Scope N_scope."
    fails, err = vlib.coq_eval_cases("c07lex", imp, "(fun cs => fst (lex cs))", "lexobs_eqb", cases, shard=300, timeout=900)
    if err:
        ctx.broken.append("correspondence C07 (aasm lexer): model evaluation failed")
        ctx.log(err[-2000:])
    for k in fails[:3]:
        mo, _ = vlib.coq_eval_terms("c07lex", imp, [f"fst (lex {cases[k][0]})"])
        ctx.violation("aasm-lexer-differs", "the .aasm lexer and Model/AasmLex.v disagree on an input",
                      {"code_points": cases[k][0][:2000], "implementation": cases[k][1][:2000], "model": (mo[0] or "")[:2000] if mo else None})
    if fails:
        ctx.broken.append(f"correspondence C07 (aasm lexer): {len(fails)} of {len(cases)} inputs differ")
    ctx.cov["aasm_lexer_cases"] = {"inputs": len(cases), "lexical_errors": nerr}
    ctx.cov["evaluations"] += len(cases)


def limits_small_stack():
    """1 MiB stack: for inputs that must need O(1) native stack however long they are (a long flat program); the
    8 MiB default only overflows on inputs that take minutes to analyse"""
    limits()
    resource.setrlimit(resource.RLIMIT_STACK, (1 << 20, 1 << 20))


def limits():
    resource.setrlimit(resource.RLIMIT_AS, (4 << 30, 4 << 30))
    resource.setrlimit(resource.RLIMIT_STACK, (8 << 20, 8 << 20))
    resource.setrlimit(resource.RLIMIT_CORE, (0, 0))


CONFIRMED_HANGS = collections.Counter()
DIAG = collections.Counter()      # diagnostics (error codes) the CLI answered with: which limits the streams reach


def run_cli(cli, args, wd, timeout=20, small_stack=False):
    try:
        p = subprocess.run([cli] + args, stdout=subprocess.PIPE, stderr=subprocess.PIPE, timeout=timeout, cwd=wd, preexec_fn=limits_small_stack if small_stack else limits)
        err = p.stderr.decode("utf-8", "replace")
        rc = p.returncode
    except subprocess.TimeoutExpired:
        key = args[0]
        if timeout < 100 and CONFIRMED_HANGS[key] < 2:
            r = run_cli(cli, args, wd, timeout=timeout * 8, small_stack=small_stack)     # slow machine or really stuck?
            if r == "timeout":
                CONFIRMED_HANGS[key] += 1
            return r
        return "timeout"                                            # this command has hung twice at 160 s already
    if rc in (0, 1):
        for m in re.finditer(r"error\[(E\d+)\]", err):
            DIAG[m.group(1)] += 1
        if rc == 1 and "error[" not in err:
            DIAG["other:" + "-".join(re.split(r"[^A-Za-z]+", err.strip().split("\n")[0])[:4]).lower()[:40]] += 1
        return "ok" if rc == 0 else "err"
    m = re.search(r"panicked at ([^\s:]+):\d+:\d+:\s*\n?([^\n]*)", err)
    if m:
        return "panic:" + norm_site(m.group(1)) + ":" + norm_words(m.group(2))
    if "has overflowed its stack" in err:
        return "stack-overflow"
    if "memory allocation of" in err:
        return "alloc-failure"
    return "signal-" + signal.Signals(-rc).name if rc < 0 else f"exit-{rc}"


CLI_CMDS = {
    "source": [("run", ["run", "-O2", "{f}"], ".aelys"), ("compile", ["compile", "-O1", "{f}", "-o", "{f}.avbc"], ".aelys"),
               ("emit-air", ["compile", "--emit-air", "{f}"], ".aelys"), ("asm", ["asm", "{f}", "--stdout"], ".aelys")],
    "aasm": [("run", ["run", "{f}"], ".aasm"), ("compile", ["compile", "{f}", "-o", "{f}.avbc"], ".aasm")],
    "avbc": [("run", ["run", "{f}"], ".avbc"), ("asm", ["asm", "{f}", "--stdout"], ".avbc")],
}


def input_class(kind, label, data):
    """decidable class of an input: the generator's label for structured inputs, a predicate for mutants / raw bytes"""
    if not label.startswith(("mut-", "raw", "corpus-")):
        if label.startswith("inftype-"):
            return "infinite-type"
        if label.startswith("didyoumean-"):
            return "did-you-mean"
        m = re.match(r"(dupstruct|mono-growth|many-call-sites|var-chain|slice|range)-", label)
        if m:
            return m.group(1)
        base = re.sub(r"-\d+$", "", label)
        return "expr-expected-at-eof" if re.fullmatch(r"open-(paren|call|bracket|index|if)-at-eof", base) else base
    if kind == "source" and (data.rstrip().endswith((b"(", b"[")) or re.search(rb"(^|[^A-Za-z0-9_])if\s*$", data)) and nesting_depth(data) < 150:
        return "expr-expected-at-eof"
    if kind == "source" and re.search(rb"(reserve|repeat)\([^)]*\d{9,}", data):
        return "huge-allocation-request"
    if kind == "source" and nesting_depth(data) >= 150:
        return "deep-nesting"
    if kind == "aasm" and re.search(rb"(?m)^\s*\d{7,}\s*:", data):
        return "huge-table-index"
    if kind == "avbc" and b"NBND" in data:
        return "nbnd-section"
    return "random"


def signature(kind, label, data, where, outcome):
    """root-cause-specific signature of a crash: the panic site, or kind of death + stage/command + input class"""
    if outcome.startswith("panic:"):
        t = outcome.split(":")
        # in-process: panic:<stage>:<file>:<words> ; cli: panic:<file>:<words>
        site, words = (t[2], t[3]) if len(t) >= 4 and "/" not in t[1] else (t[1], t[2] if len(t) > 2 else "")
        if "std:" in outcome:
            site = "std:" + outcome.split("std:")[1].split(":")[0]
            words = outcome.rsplit(":", 1)[1]
        return f"panic:{norm_site(site)}:{words}"
    head = outcome.split(":")[0]
    if head == "alloc-failure":
        return f"alloc-failure:{kind}:{input_class(kind, label, data)}"
    return f"{head}:{kind}:{where}:{input_class(kind, label, data)}"


def note_sig(ctx, sig, label):
    d = ctx.cov.setdefault("crash_signatures", {})
    e = d.setdefault(sig, {"count": 0, "labels": []})
    e["count"] += 1
    if len(e["labels"]) < 4 and label not in e["labels"]:
        e["labels"].append(label)


def run(ctx):
    ctx.level = "other"
    ctx.cov["trusted_base"] = TRUSTED
    ctx.cov["explanation"] = (
        "Partial by nature. Machine-checked part (Coq, Props/C07.v): for the .avbc reader as modelled in Model/Avbc.v the total capacity "
        "requested from the allocator is <= 80 MB + 16 x input length for EVERY byte string, no single request exceeds 8 MB, every count is "
        "guarded before the allocation it sizes, accepted files nest <= 64 deep, and the model's fuel never runs out (so the model is a total "
        "function that predicts accept/reject for every input). The constants are written in the theorem statements, so removing or inflating "
        "a MAX_* limit breaks the proof. Explored part (no proof): panics, aborts, native stack overflow, timeouts of lexer, parser, module "
        "loading, inference, optimiser, AIR lowering/layout/mono, code generation, loading, verification and execution, by structured "
        "near-valid inputs and random bytes for source, .aasm, .avbc and manifest, in process (8 MiB thread stack, catch_unwind, instruction "
        "budget) and through the CLI binary built from the current tree in child processes (8 MiB stack, 4 GiB address space, wall clock). "
        "The accept/reject classification of every .avbc input is compared with the Coq model's `read`.")
    ctx.assumptions = ["Gallina functions are total: the totality half of the property cannot be a theorem about the model; it is explored only",
                       "a crash is attributed to the stage that was running when the worker process died"]
    DIAG.clear()
    CONFIRMED_HANGS.clear()
    proved = ctx.prove("C07", extracted=["AvbcLayout", "ValueConsts", "AasmEscapes"])
    try:
        import json as _json
        w = _json.load(open(os.path.join(vlib.COQ, "Extracted", "AvbcLayout.warnings.json")))
    except Exception:
        w = []
    ctx.cov["translator_shape_warnings"] = w      # code written differently from what the model's author read; the ties decide
    if w:
        ctx.log("translator: shape drift (not an alarm): " + "; ".join(w)[:300])
    if ctx.tier == "thorough" and proved:
        ctx.coqchk("C07")
    quick = ctx.tier == "quick"
    okc, outc = vlib.coq_make(["Base/CaseCheck.vo", "Model/AvbcObs.vo", "Model/AasmLex.vo"])
    wd = os.path.join(vlib.CACHE, "c07", f"{vlib.repo_tag()}_{ctx.tier}_{ctx.seed}")
    os.makedirs(wd, exist_ok=True)
    ok, paths, log = vlib.harness_build(["hx_fuzz", "hx_avbc"], profile="dev")
    if not ok:
        ctx.broken.append("harness build failed (hx_fuzz)")
        ctx.log(log[-3000:])
        return
    r = random.Random(ctx.seed * 7919 + 13)
    # ---- valid seeds
    progs = c08_gen.snippet_programs() + [c08_gen.gen_program(ctx.seed, i) for i in range(10)]
    pfile = os.path.join(wd, "seed_progs.txt")
    open(pfile, "w", encoding="utf-8").write("\n=====\n".join(progs))
    rc, out = vlib.sh([paths["hx_fuzz"], "--seeds", pfile, "--tmp", wd], timeout=600)
    seeds = {"avbc": [], "aasm": []}
    for line in out.splitlines():
        t = line.split("\t")
        if t[0] == "SEED":
            seeds[t[1]].append(bytes.fromhex(t[2]))
    if not seeds["avbc"]:
        ctx.broken.append("hx_fuzz --seeds produced no valid inputs")
        return
    # ---- the input streams
    inputs = []
    cd = os.path.join(vlib.VERIF, "corpus", "C07")
    if os.path.isdir(cd):
        for fn in sorted(os.listdir(cd)):
            kind = {"aelys": "source", "aasm": "aasm", "avbc": "avbc", "toml": "manifest"}.get(fn.rsplit(".", 1)[-1])
            if kind:
                inputs.append((kind, "corpus-" + fn.rsplit(".", 1)[0], open(os.path.join(cd, fn), "rb").read()))
    ncorpus = len(inputs)
    inputs += [("source", l, b) for l, b in structured_source(quick)]
    inputs += [("aasm", l, b) for l, b in structured_aasm(seeds["aasm"])]
    inputs += [("avbc", l, b) for l, b in structured_avbc(seeds["avbc"])]
    inputs += [("manifest", l, b) for l, b in structured_manifest(quick)]
    nm = 150 if quick else 1000
    srcs = [p.encode() for p in progs]
    tomls = [b for _, b in structured_manifest(True)[:4]]
    for kind, base in (("source", srcs), ("aasm", seeds["aasm"]), ("manifest", tomls)):
        for i in range(nm):
            b = mutate_text(r, r.choice(base))
            if r.random() < 0.3:
                b = mutate_text(r, b)
            inputs.append((kind, f"mut-{i}", b[:200000]))
        for i in range(nm // 3):
            inputs.append((kind, f"raw-{i}", bytes(r.randrange(256) for _ in range(r.randint(0, 200)))))
    # .avbc mutants come from the codec harness (same mutators as C08) so that model comparison is cheap
    rc, out = vlib.sh([paths["hx_avbc"], "--mode", "codec", "--seed", str(ctx.seed + 1000), "--file", pfile, "--tmp", wd, "--compiled", "8",
                       "--hand", "40", "--mutants", str(nm * 2), "--raw", str(nm // 3)], timeout=900)
    for line in out.splitlines():
        t = line.split("\t")
        if t[0] == "R":
            inputs.append(("avbc", ("raw-" if t[3] == "raw" else "mut-") + t[3], bytes.fromhex(t[1])))
    ctx.log(f"{len(inputs)} inputs; in-process run")
    outcomes, accepts = run_inproc(ctx, paths["hx_fuzz"], inputs, wd, "all")
    if not quick:
        # release profile: no debug assertions / overflow checks, other frame sizes -- crashes only (outcomes may differ)
        okr, pr, logr = vlib.harness_build(["hx_fuzz"], profile="release")
        if okr:
            ctx.log("in-process run (release profile)")
            out_r, _ = run_inproc(ctx, pr["hx_fuzz"], inputs, wd, "all")
            for (kind, label, data), o in zip(inputs, out_r):
                o = o or "missing"
                if o.startswith(("panic", "crash", "missing", "stack-overflow", "alloc-failure")):
                    sig = signature(kind, label, data, o.split(":")[1] if ":" in o else "", o)
                    note_sig(ctx, sig + " (release)", label)
                    ctx.violation(sig, f"in-process (release profile) {kind} input `{label}` ({len(data)} bytes): {o}",
                                  {"kind": kind, "label": label, **inp(data), "outcome": o, "where": "hx_fuzz release profile"})
            ctx.cov["evaluations"] += len(inputs)
        else:
            ctx.broken.append("harness build failed (hx_fuzz, release)")
    stats = collections.Counter()
    nontrivial = set()
    for (kind, label, data), o in zip(inputs, outcomes):
        o = o or "missing"
        stats[f"{kind}:{o.split(':')[0]}" + (":" + o.split(":")[1] if o.startswith("err:") else "")] += 1
        if o.split(":")[0] in ("ok", "budget") or o.startswith("err:") and o not in ("err:lex", "err:utf8", "err:manifest"):
            nontrivial.add((kind, data))
        if o.startswith(("panic", "crash", "missing", "stack-overflow", "alloc-failure")):
            stage = o.split(":")[1] if ":" in o else ""
            sig = signature(kind, label, data, stage, o)
            note_sig(ctx, sig, label)
            ctx.violation(sig, f"in-process {kind} input `{label}` ({len(data)} bytes): {o}",
                          {"kind": kind, "label": label, **inp(data), "outcome": o, "where": "hx_fuzz (dev profile: opt-level 2, debug assertions, 8 MiB stack)"})
    ctx.cov["evaluations"] += len(inputs)
    ctx.cov["inprocess"] = dict(stats)
    # ---- .avbc accept/reject against the model
    av = [(i, inputs[i][2]) for i in sorted(accepts) if len(inputs[i][2]) < 20000]
    cases = [(f"(true, hx \"{hexs(b)}\")", {"accept": "0", "reject": "1", "crash": "2"}[accepts[i]]) for i, b in av]
    if okc and cases:
        fails, err = vlib.coq_eval_cases("c07", IMPORTS, "(fun q => accepts (fst q) (snd q))", "N.eqb", cases, shard=400, timeout=900)
        if err:
            ctx.broken.append("correspondence C07: model evaluation failed")
            ctx.log(err[-2000:])
        for k in fails[:3]:
            i, b = av[k]
            ctx.violation("avbc-classification-differs", "deserialize and the Coq model disagree on accept/reject/crash of a .avbc input",
                          {"input_hex": hexs(b), "implementation": accepts[i], "label": inputs[i][1]})
        if fails:
            ctx.broken.append(f"correspondence C07: accept/reject differs from Model/Avbc.v on {len(fails)} of {len(cases)} .avbc inputs")
        ctx.cov["avbc_classified"] = dict(collections.Counter(accepts.values()))
        ctx.cov["avbc_model_compared"] = len(cases)
    elif not okc:
        ctx.broken.append("coq: Model/AvbcObs.vo does not build")
    # deserialize must never panic (the model has no crash outcome any more)
    for i in sorted(accepts):
        if accepts[i] == "crash":
            b = inputs[i][2]
            o = outcomes[i] or ""
            if not o.startswith("panic:"):
                ctx.violation("panic:avbc-read:unattributed", "deserialize panics but the run of the same input did not report the site",
                              {"input_hex": hexs(b[:4000]), "label": inputs[i][1], "outcome": o})
    # ---- the .aasm lexer against its model (tokens, or error)
    lex_tie(ctx, paths["hx_fuzz"], inputs, wd)
    # ---- the real CLI in child processes
    cli = c08.cli_build(ctx)
    if not cli:
        ctx.broken.append("cli: aelys-cli does not build from the current tree")
    else:
        ctx.log("cli children")
        cstats = collections.Counter()
        per_kind = collections.Counter()
        cap = 40 if quick else 150
        for n, ((kind, label, data), o) in enumerate(zip(inputs, outcomes)):
            structured = not label.startswith(("mut-", "raw"))
            fam = re.match(r"(inftype|didyoumean|slice)-", label)
            if fam and quick and not (o or "").startswith(("panic", "crash", "stack-overflow", "alloc-failure", "missing")):
                per_kind[fam.group(1)] += 1
                if per_kind[fam.group(1)] % 8 != 1:
                    continue
            if not structured:
                per_kind[kind] += 1
                if per_kind[kind] > cap:
                    continue
            if len(data) > 3000000 and not label.startswith("aasm-nested-chain"):
                continue
            runnable = (o or "") in ("ok", "err:execute", "err:load", "err:assemble", "err:lex", "err:parse", "err:infer", "err:modules", "err:utf8", "err:codegen") or (o or "").startswith(("panic", "crash", "stack-overflow", "alloc-failure"))
            if label in ("infinite-loop", "for-huge-range", "deep-recursion-run"):
                runnable = False
            if quick and label in ("long-loop-body", "long-if-body"):
                continue
            if kind == "manifest":
                d = os.path.join(wd, f"m{n}")
                os.makedirs(d, exist_ok=True)
                open(os.path.join(d, "aelys.toml"), "wb").write(data)
                open(os.path.join(d, "main.aelys"), "w").write("needs helper\n1\n")
                open(os.path.join(d, "helper.aelys"), "w").write("pub fn h() { 1 }\n")
                cmds = [("run", ["run", os.path.join(d, "main.aelys")]), ("compile", ["compile", os.path.join(d, "main.aelys"), "-o", os.path.join(d, "o.avbc")])]
            else:
                ext = CLI_CMDS[kind][0][2]
                f = os.path.join(wd, f"i{n}{ext}")
                open(f, "wb").write(data)
                cmds = [(nm_, [a.replace("{f}", f) for a in args]) for nm_, args, _ in CLI_CMDS[kind] if nm_ != "run" or runnable]
            for cname, args in cmds:
                if CONFIRMED_HANGS[args[0]] >= 2 and not structured:
                    continue          # this command already hung twice at 160 s: reported; do not spend the run on repeats
                res = run_cli(cli, args, wd, small_stack=label.startswith("var-chain-"))
                cstats[f"{kind}:{cname}:{res.split(':')[0]}"] += 1
                ctx.cov["evaluations"] += 1
                if res not in ("ok", "err"):
                    if res == "timeout" and cname == "run" and (o in ("budget",) or label.startswith(("mut-", "raw"))):
                        continue     # a mutated program may legitimately loop
                    sig = signature(kind, label, data, cname, res)
                    note_sig(ctx, sig, label)
                    ctx.violation(sig, f"`aelys {' '.join(args[:2])}` on {kind} input `{label}` ({len(data)} bytes): {res}",
                                  {"kind": kind, "label": label, **inp(data), "cmd": args, "outcome": res,
                                   "where": "aelys-cli debug build of the current tree, 8 MiB stack, 4 GiB address space, 20 s"})
        ctx.cov["cli"] = dict(cstats)
        ctx.cov["cli_diagnostics_reached"] = dict(DIAG.most_common(40))
    ctx.cov["distinct_nontrivial"] += len(nontrivial)
    ctx.cov["refuted_lemmas"] = []
    ctx.cov["input_distribution"] = (
        f"{ncorpus} corpus inputs first; structured: {len(NEST_KINDS)} nesting shapes x depths 10..10^4 (10^5 thorough), huge literals, recursive "
        "struct definitions, odd `needs` paths, invalid UTF-8, table-size programs, runtime extremes; hand-written .aasm and .avbc edge files "
        "(opcode gap bytes, size fields at limit and limit+1, claims of 4 GiB, depth 64/65/66/1000, sections); TOML edge files; mutants of valid "
        "programs / disassemblies / manifests (8 text mutation operators) and of valid .avbc files (12 byte operators); raw random bytes per kind")
    ctx.cov["rule"] = ("one evaluation = one input through all in-process stages, or one CLI command on one input; distinct non-trivial = distinct inputs "
                       "that got past the first stage (lexing / UTF-8 / TOML parse) in process")
    ctx.add_samples([{"kind": k, "label": l, "input": b[:120].decode("latin-1"), "outcome": o} for (k, l, b), o in list(zip(inputs, outcomes))[ncorpus:ncorpus + 3]])
