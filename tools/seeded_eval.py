#!/usr/bin/env python3
"""seeded_eval.py <PROP> <k> <worktree> [check ids...]
Confirm an externally produced breaking change (worktree/out/<PROP>_<k>.diff + demo dir):
  1. the patch applies, the workspace builds and the existing test suite passes with it;
  2. the demonstration differs between the unchanged and the changed tree;
  3. run the registered checks against the changed tree (VERIF_REPO) and record the verdicts.
Writes /verif/seeded/<PROP>_<k>/{patch.diff, demo/, meta.json}; restores the worktree."""
import json, os, re, shutil, subprocess, sys, time

prop, k, wt = sys.argv[1], sys.argv[2], sys.argv[3]
checks = sys.argv[4:] or [prop]
out = f"/verif/seeded/{prop}_{k}"
diff = f"{wt}/out/{prop}_{k}.diff"
demo = f"{wt}/out/{prop}_{k}_demo"
env = dict(os.environ, CARGO_NET_OFFLINE="true")


def sh(cmd, cwd=wt, timeout=3000, extra_env=None):
    e = dict(env)
    if extra_env:
        e.update(extra_env)
    p = subprocess.run(cmd, shell=True, cwd=cwd, env=e, stdout=subprocess.PIPE, stderr=subprocess.STDOUT, text=True, timeout=timeout)
    return p.returncode, p.stdout


def run_demo():
    """Returns a dict file -> output for the demonstration on the current state of the worktree."""
    res = {}
    rc, o = sh("cargo build --offline -q 2>&1 | tail -3")
    res["_build"] = o.strip()
    rs = [f for f in os.listdir(demo) if f.endswith(".rs")]
    for f in sorted(rs):
        # integration tests of the umbrella crate `aelys` can use every workspace crate
        src = open(f"{demo}/{f}").read()
        crate, tdir = ("aelys", "aelys/tests")
        if "aelys_" in src and not os.path.isdir(f"{wt}/aelys/tests"):
            crate, tdir = ("aelys-bytecode", "bytecode/tests")
        os.makedirs(f"{wt}/{tdir}", exist_ok=True)
        shutil.copy(f"{demo}/{f}", f"{wt}/{tdir}/{f}")
        rc, o = sh(f"cargo test --offline -p {crate} --test {f[:-3]} 2>&1 | grep -E 'test result|panicked|FAILED|failed|error' | head -20")
        res[f] = o.strip()
        os.remove(f"{wt}/{tdir}/{f}")
    # demonstrations with their own driver script
    if os.path.exists(f"{demo}/run.sh"):
        rc, o = sh(f"timeout 300 sh {demo}/run.sh 2>&1 | head -80")
        res["run.sh"] = o.strip()
    # demonstrations made of module directories: every main.aelys below the demo dir
    for root, dirs, files in os.walk(demo):
        if root != demo and "main.aelys" in files:
            rc, o = sh(f"cd {root} && timeout 60 {wt}/target/debug/aelys-cli run ./main.aelys 2>&1 | head -40")
            res[os.path.relpath(root, demo) + "/main.aelys"] = o.strip()
    for f in sorted(os.listdir(demo)):
        if f.endswith(".repl"):
            rc, o = sh(f"timeout 60 target/debug/aelys-cli repl < {demo}/{f} 2>&1 | head -60")
            res[f] = o.strip()
        if f.endswith(".aelys"):
            for lvl in (0, 1, 2, 3):
                rc, o = sh(f"timeout 60 target/debug/aelys-cli run -O{lvl} {demo}/{f} 2>&1 | head -40")
                res[f"{f}@O{lvl}"] = o.strip()
    return res


meta = {"property": prop, "k": int(k) if k.isdigit() else k, "worktree_commit": sh("git rev-parse --short HEAD")[1].strip(), "ran": []}
sh("git checkout -- . && git clean -fdq bytecode/tests aelys/tests 2>/dev/null; true")
base = run_demo()
rc, o = sh(f"git apply --check {diff} && git apply {diff}")
meta["applies"] = rc == 0
if rc != 0:
    print("patch does not apply:", o)
    sys.exit(1)
rc, o = sh("cargo nextest run --workspace --no-fail-fast --test-threads 8 --offline 2>&1 | tail -3")
m = re.search(r"(\d+) tests run: (\d+) passed", o)
meta["suite_with_change"] = o.strip().split("\n")[-1].strip()
meta["suite_passes"] = bool(m and m.group(1) == m.group(2))
changed = run_demo()
diffs = {key: {"unchanged": base.get(key), "changed": changed.get(key)} for key in changed if key != "_build" and base.get(key) != changed.get(key)}
meta["demo_differs"] = bool(diffs)
meta["demo_differences"] = {key: v for key, v in list(diffs.items())[:6]}
meta["ran"].append("cargo nextest run --workspace (changed tree); demonstration on unchanged and changed tree")
verdicts = {}
for c in checks:
    t0 = time.time()
    rc, o = sh(f"./check {c}", cwd="/verif", extra_env={"VERIF_REPO": wt}, timeout=3600)
    vio = [l for l in o.splitlines() if l.startswith("VIOLATION")]
    replay = None
    what = None
    if vio:
        mm = re.search(r"replay=(\S+)", vio[0])
        if mm and os.path.exists(mm.group(1)):
            r = json.load(open(mm.group(1)))
            what = (r.get("signature"), (r.get("what") or "")[:300])
    verdicts[c] = {"exit": rc, "violations": vio[:3], "first": what, "wall_s": round(time.time() - t0, 1),
                   "no_failing_input": any("no-failing-input-found" in v for v in vio)}
    meta["ran"].append(f"VERIF_REPO={wt} ./check {c}")
meta["check_verdicts"] = verdicts
meta["caught"] = any(v["exit"] == 1 for v in verdicts.values())
sh("git checkout -- . && git clean -fdq bytecode/tests aelys/tests 2>/dev/null; true")
os.makedirs(out, exist_ok=True)
shutil.copy(diff, f"{out}/patch.diff")
if os.path.exists(f"{out}/demo"):
    shutil.rmtree(f"{out}/demo")
shutil.copytree(demo, f"{out}/demo")
readme = f"{demo}/README.txt"
meta["needs"] = open(readme).read()[:1500] if os.path.exists(readme) else ""
json.dump(meta, open(f"{out}/meta.json", "w"), indent=1)
print(json.dumps({key: meta[key] for key in ("applies", "suite_passes", "demo_differs", "caught")}), {c: (v["exit"], v["first"]) for c, v in verdicts.items()})
