#!/usr/bin/env python3
"""manifest_add.py <ID> <category> <technique> <text> <level_note>  -- add/replace a check entry."""
import json, sys
pid, cat, tech, text, note = sys.argv[1:6]
p = '/verif/MANIFEST.json'
m = json.load(open(p))
m['checks'] = [c for c in m['checks'] if c['property_id'] != pid]
m['checks'].append({
    "property_id": pid, "quick_cmd": f"./check {pid} --tier quick", "thorough_cmd": f"./check {pid} --tier thorough",
    "evidence_file": f"evidence/{pid}.json", "replay_cmd_template": f"./check {pid} --replay {{path}}", "engine": "coq",
    "level_claimed": {"category": cat, "text": text, "design_ref": f"DESIGN.md section 5, {pid}"},
    "level_note": note, "technique": tech})
m['checks'].sort(key=lambda c: c['property_id'])
m['not_applicable'] = [n for n in m.get('not_applicable', []) if n['property_id'] != pid]
for e in m.get('engines', []):
    if pid not in e['serves_properties']:
        e['serves_properties'].append(pid); e['serves_properties'].sort()
json.dump(m, open(p, 'w'), indent=1)
print("claimed:", [c['property_id'] for c in m['checks']])
