#!/usr/bin/env python3
"""Print a markdown table of /verif/seeded/*/meta.json (which checks catch which changes)."""
import json, glob, os, re
rows = []
for f in sorted(glob.glob('/verif/seeded/*/meta.json')):
    m = json.load(open(f))
    name = os.path.basename(os.path.dirname(f))
    diff = open(os.path.join(os.path.dirname(f), 'patch.diff')).read()
    files = sorted(set(re.findall(r'^\+\+\+ b/(\S+)', diff, flags=re.M)))
    v = m.get('check_verdicts', {})
    cells = []
    if not isinstance(v, dict) or not v:
        # metas written by the property owners for their own seeded changes (several layouts)
        v = {}
        ex = m.get('check_exit', (m.get('check_verdict') or {}).get('exit') if isinstance(m.get('check_verdict'), dict) else None)
        sig = ''
        for key in ('signatures', 'first', 'first_concrete_violation', 'replay_excerpt', 'replays', 'violations', 'first_violations'):
            val = m.get(key)
            if not val:
                continue
            mm = re.search(r"'signature': '([^']+)'", str(val)) or re.search(r"^\['([^']+)'", str(val))
            if mm:
                sig = mm.group(1)
                break
        prop = m.get('property') or name.split('_')[0]
        if ex is not None:
            v = {prop: {'exit': int(ex), 'first': sig}}
    for c, r in v.items():
        if not isinstance(r, dict):
            cells.append(f"{c}: {str(r)[:80]}")
            continue
        ex = r.get('exit', r.get('exit_code'))
        if ex == 1:
            first = r.get('first') or r.get('signature') or ['', '']
            sig = first if isinstance(first, str) else (first[0] if isinstance(first, (list, tuple)) and first else '')
            cells.append(f"{c}: VIOLATION ({(sig or '')[:60]}){' no-failing-input' if r.get('no_failing_input') else ''}")
        else:
            cells.append(f"{c}: quiet")
    if m.get('strengthened'):
        cells.append("(after strengthening)")
    suite = m.get('suite_passes', m.get('suite', ''))
    rows.append(f"| {name} | {', '.join(files)} | {'yes' if suite in (True, 'yes') or (isinstance(suite, str) and '1361' in suite) else ('NO' if suite is False else str(suite)[:20])} | {'yes' if m.get('demo_differs', True) else 'NO'} | {'; '.join(cells)} |")
print("| change | files touched | suite passes with it | demo differs | verdicts of the checks run against the changed tree |")
print("|---|---|---|---|---|")
print("\n".join(rows))
