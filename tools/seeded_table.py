#!/usr/bin/env python3
"""Print a markdown table of /verif/seeded/*/meta.json (which checks catch which changes)."""
import json, glob, os, re
rows = []
for f in sorted(glob.glob('/verif/seeded/*/meta.json')):
    m = json.load(open(f))
    name = os.path.basename(os.path.dirname(f))
    diff = open(os.path.join(os.path.dirname(f), 'patch.diff')).read()
    files = sorted(set(re.findall(r'^\+\+\+ b/(\S+)', diff, flags=re.M)))
    v = m.get('check_verdicts', {})
    cells = []
    for c, r in v.items():
        if r['exit'] == 1:
            first = r.get('first') or ['', '']
            cells.append(f"{c}: VIOLATION ({(first[0] or '')[:60]}){' no-failing-input' if r.get('no_failing_input') else ''}")
        else:
            cells.append(f"{c}: quiet")
    rows.append(f"| {name} | {', '.join(files)} | {'yes' if m.get('suite_passes') else 'NO'} | {'yes' if m.get('demo_differs') else 'NO'} | {'; '.join(cells)} |")
print("| change | files touched | suite passes with it | demo differs | verdicts of the checks run against the changed tree |")
print("|---|---|---|---|---|")
print("\n".join(rows))
