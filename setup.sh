#!/bin/sh
# Offline setup after a fresh restore: build the Coq development, the harness (hooks on).
# Failures here are reported by the individual checks (each rebuilds what it needs), so this
# script warms caches and never hides an error from a check.
cd "$(dirname "$0")"
export CARGO_NET_OFFLINE=true
python3 tools/extract.py || true
python3 - <<'PY'
import sys
sys.path.insert(0, "tools")
import vlib, os
ok, out = vlib.coq_make([], timeout=3000)
print("coq build:", "ok" if ok else "FAILED")
if not ok:
    print(out[-3000:])
bins = sorted(f[:-3] for f in os.listdir("harness/src/bin") if f.endswith(".rs"))
ok, paths, log = vlib.harness_build(bins, profile="dev")
print("harness build (dev):", "ok" if ok else "FAILED")
if not ok:
    print(log[-3000:])
PY
exit 0
