(* C19 -- what the property demands of a module tree, stated without the loader's state:
   the import graph under the documented resolution (relative to the importing file's own
   directory), reachability, post-order, and the names each import form grants.
   Also the decidable guards under which the loader (Model/Modules.v) meets it. Definitions only. *)
From Coq Require Import NArith Bool List.
From Aelys Require Import Model.Modules.
Import ListNotations.
Local Open Scope N_scope.

(* the file that import i, written in file f, means *)
Definition target (fs : fsys) (f : fpath) (i : import) : option fpath :=
  if is_std (i_path i) then None
  else match resolve_fb fs (dir_of f) (i_path i) with
       | Some (g, _, _) => Some g
       | None => None
       end.

Definition edge (fs : fsys) (f g : fpath) : Prop :=
  exists m i, find_file fs f = Some m /\ In i (m_imports m) /\ target fs f i = Some g.

Inductive reachable (fs : fsys) (e : fpath) : fpath -> Prop :=
| r_refl : reachable fs e e
| r_step : forall g h, reachable fs e g -> edge fs g h -> reachable fs e h.

(* one or more import edges *)
Inductive path_plus (fs : fsys) : fpath -> fpath -> Prop :=
| pp_one : forall f g, edge fs f g -> path_plus fs f g
| pp_step : forall f g h, path_plus fs f g -> edge fs g h -> path_plus fs f h.

(* every file's dependencies occur earlier in the trace *)
Definition postorder (fs : fsys) (tr : list fpath) : Prop :=
  forall l1 g l2, tr = l1 ++ g :: l2 -> forall h, edge fs g h -> In h l1.

(* ---- names an import grants (docs/language-spec.md, Modules) *)
Definition granted_bare (fs : fsys) (f : fpath) (i : import) : list ident :=
  match target fs f i with
  | None => []
  | Some g =>
      match find_file fs g with
      | None => []
      | Some mg =>
          match i_form i with
          | FModule | FWildcard => pub_names mg
          | FSymbols l => l
          | FAlias _ => []
          end
      end
  end.

(* the qualifier under which the import's module can be named.  (The loader also treats the last
   segment of a wildcard import as a qualifier; nothing is ever bound under it by that import.) *)
Definition granted_qualifier (i : import) : option ident :=
  match i_form i with
  | FModule | FWildcard => Some (last_seg (i_path i))
  | FAlias a => Some a
  | FSymbols _ => None
  end.

(* ---- decidable guards *)
Definition imports_of (fs : fsys) : list (fpath * import) :=
  flat_map (fun fm => map (fun i => (fst fm, i))
                          (filter (fun i => negb (is_std (i_path i))) (m_imports (snd fm)))) fs.

Definition res_of (fs : fsys) (fi : fpath * import) :=
  resolve_fb fs (dir_of (fst fi)) (i_path (snd fi)).

(* no import is resolved through the "parent module + symbol" fallback *)
Definition plain_b (fs : fsys) (fi : fpath * import) : bool :=
  match res_of fs fi with Some (_, _, Some _) => false | _ => true end.

(* two imports have the same dotted path exactly when they mean the same file *)
Definition pair_ok (fs : fsys) (a b : fpath * import) : bool :=
  let same_key := key_eqb (i_path (snd a)) (i_path (snd b)) in
  match res_of fs a, res_of fs b with
  | Some (g, _, _), Some (h, _, _) => Bool.eqb same_key (key_eqb g h)
  | None, None => true
  | _, _ => negb same_key
  end.

Definition keys_ok (fs : fsys) : bool :=
  forallb (plain_b fs) (imports_of fs)
  && forallb (fun a => forallb (pair_ok fs a) (imports_of fs)) (imports_of fs).

(* all files in one directory, single-segment imports (or std imports): the flat case of the property *)
Definition flat (fs : fsys) : bool :=
  forallb (fun fm => match fst fm with [_] => true | _ => false end
                     && forallb (fun i => is_std (i_path i) || match i_path i with [_] => true | _ => false end) (m_imports (snd fm))) fs.

(* a top-level name is defined by at most one file *)
Fixpoint count_id (n : ident) (l : list ident) : nat :=
  match l with [] => O | x :: r => (if n =? x then 1 else 0)%nat + count_id n r end.
Definition all_def_names (fs : fsys) : list ident := flat_map (fun fm => map d_name (m_defs (snd fm))) fs.
Definition unique_defs (fs : fsys) : bool :=
  forallb (fun n => Nat.eqb (count_id n (all_def_names fs)) 1) (all_def_names fs).
