(* C19 -- what the property demands of a module tree, stated without the loader's state:
   the import graph under the documented resolution (relative to the importing file's own
   directory), reachability, post-order, and the names each import form grants.
   Also the decidable guards under which the loader (Model/Modules.v) meets it. Definitions only. *)
From Coq Require Import NArith Bool List.
From Aelys Require Import Model.Modules.
Import ListNotations.
Local Open Scope N_scope.

(* the file that import i, written in file f, means *)
Definition target (fs : fsys) (f : fpath) (i : import) : option fpath :=
  if is_std (i_path i) then None
  else match resolve_fb fs (dir_of f) (i_path i) with
       | Some (g, _, _) => Some g
       | None => None
       end.

Definition edge (fs : fsys) (f g : fpath) : Prop :=
  exists m i, find_file fs f = Some m /\ In i (m_imports m) /\ target fs f i = Some g.

Inductive reachable (fs : fsys) (e : fpath) : fpath -> Prop :=
| r_refl : reachable fs e e
| r_step : forall g h, reachable fs e g -> edge fs g h -> reachable fs e h.

(* one or more import edges *)
Inductive path_plus (fs : fsys) : fpath -> fpath -> Prop :=
| pp_one : forall f g, edge fs f g -> path_plus fs f g
| pp_step : forall f g h, path_plus fs f g -> edge fs g h -> path_plus fs f h.

(* every file's dependencies occur earlier in the trace *)
Definition postorder (fs : fsys) (tr : list fpath) : Prop :=
  forall l1 g l2, tr = l1 ++ g :: l2 -> forall h, edge fs g h -> In h l1.

(* ---- names an import grants (docs/language-spec.md, Modules) *)
Definition granted_bare (fs : fsys) (f : fpath) (i : import) : list ident :=
  match target fs f i with
  | None => []
  | Some g =>
      match find_file fs g with
      | None => []
      | Some mg =>
          match i_form i with
          | FModule | FWildcard => pub_names mg
          | FSymbols l => l
          | FAlias _ => []
          end
      end
  end.

(* what compile_module makes of it for an import written inside a non-entry module: of the
   selected symbols only the first (known finding KF-C19-6); equal to granted_bare when every
   `needs .. from ..` selects one symbol.  (The parser never produces an empty symbol list.) *)
Definition granted_bare_nested (fs : fsys) (f : fpath) (i : import) : list ident :=
  match target fs f i with
  | None => []
  | Some g =>
      match find_file fs g with
      | None => []
      | Some mg =>
          match i_form i with
          | FModule | FWildcard => pub_names mg
          | FSymbols l => [hd 0 l]
          | FAlias _ => []
          end
      end
  end.

Definition single_symbols (m : module) : Prop :=
  forall j l, In j (m_imports m) -> i_form j = FSymbols l -> exists x, l = [x].
Definition nonempty_symbols (m : module) : Prop :=
  forall j l, In j (m_imports m) -> i_form j = FSymbols l -> l <> [].
Definition no_std_imports (m : module) : Prop :=
  forall j, In j (m_imports m) -> is_std (i_path j) = false.

(* the qualifier under which the import's module can be named.  (The loader also treats the last
   segment of a wildcard import as a qualifier; nothing is ever bound under it by that import.) *)
Definition granted_qualifier (i : import) : option ident :=
  match i_form i with
  | FModule | FWildcard => Some (last_seg (i_path i))
  | FAlias a => Some a
  | FSymbols _ => None
  end.

(* ---- decidable guards *)
Definition imports_of (fs : fsys) : list (fpath * import) :=
  flat_map (fun fm => map (fun i => (fst fm, i))
                          (filter (fun i => negb (is_std (i_path i))) (m_imports (snd fm)))) fs.

Definition res_of (fs : fsys) (fi : fpath * import) :=
  resolve_fb fs (dir_of (fst fi)) (i_path (snd fi)).

(* no import is resolved through the "parent module + symbol" fallback *)
Definition plain_b (fs : fsys) (fi : fpath * import) : bool :=
  match res_of fs fi with Some (_, _, Some _) => false | _ => true end.

(* two imports have the same dotted path exactly when they mean the same file *)
Definition pair_ok (fs : fsys) (a b : fpath * import) : bool :=
  let same_key := key_eqb (i_path (snd a)) (i_path (snd b)) in
  match res_of fs a, res_of fs b with
  | Some (g, _, _), Some (h, _, _) => Bool.eqb same_key (key_eqb g h)
  | None, None => true
  | _, _ => negb same_key
  end.

Definition keys_ok (fs : fsys) : bool :=
  forallb (plain_b fs) (imports_of fs)
  && forallb (fun a => forallb (pair_ok fs a) (imports_of fs)) (imports_of fs).

(* all files in one directory, single-segment imports (or std imports): the flat case of the property *)
Definition flat (fs : fsys) : bool :=
  forallb (fun fm => match fst fm with [_] => true | _ => false end
                     && forallb (fun i => is_std (i_path i) || match i_path i with [_] => true | _ => false end) (m_imports (snd fm))) fs.

(* a top-level name is defined by at most one file *)
Fixpoint count_id (n : ident) (l : list ident) : nat :=
  match l with [] => O | x :: r => (if n =? x then 1 else 0)%nat + count_id n r end.
Definition all_def_names (fs : fsys) : list ident := flat_map (fun fm => map d_name (m_defs (snd fm))) fs.
Definition unique_defs (fs : fsys) : bool :=
  forallb (fun n => Nat.eqb (count_id n (all_def_names fs)) 1) (all_def_names fs).

(* every import written in a reachable file resolves, and selects only pub symbols *)
Definition clean (fs : fsys) (E : fpath) : Prop :=
  forall f m i, reachable fs E f -> find_file fs f = Some m -> In i (m_imports m) ->
    is_std (i_path i) = false ->
    i_path i <> [] /\ exists g mg, target fs f i = Some g /\ find_file fs g = Some mg /\
      (forall l s, i_form i = FSymbols l -> In s l -> In s (pub_names mg)).

(* decidable and sufficient: the same for every file of the tree, reachable or not *)
Definition clean_b (fs : fsys) : bool :=
  forallb (fun fm => forallb (fun i =>
     is_std (i_path i) ||
     (match i_path i with [] => false | _ :: _ => true end &&
      match target fs (fst fm) i with
      | Some g =>
          match find_file fs g with
          | Some mg => match i_form i with
                       | FSymbols l => forallb (fun s => mem_id s (pub_names mg)) l
                       | _ => true
                       end
          | None => false
          end
      | None => false
      end)) (m_imports (snd fm))) fs.

(* ---- compile-time name sets of a top level, against the grants above *)
(* a non-entry module (its event has the non-empty key it was registered under) *)
Definition ev_ok_mod (fs : fsys) (ev : event) : Prop :=
  ev_key ev <> [] /\
  forall m, find_file fs (ev_file ev) = Some m -> no_std_imports m ->
    (forall q, In q (ev_aliases ev) <-> exists j, In j (m_imports m) /\ granted_qualifier j = Some q) /\
    (forall n, In n (ev_known ev) <->
       In n (map d_name (m_defs m)) \/ exists j, In j (m_imports m) /\ In n (granted_bare_nested fs (ev_file ev) j)).

(* the entry file *)
Definition entry_names_ok (fs : fsys) (E : fpath) (me : module) (ev : event) : Prop :=
  (forall q, In q (ev_aliases ev) <-> exists j, In j (m_imports me) /\ granted_qualifier j = Some q) /\
  (forall n, In n (ev_known ev) <->
     In n (map d_name (m_defs me)) \/ exists j, In j (m_imports me) /\ In n (granted_bare fs E j)).

(* ---- concrete trees used by the refutation theorems and examples of Props/C19.v *)
Definition imp (p : key) (f : form) : import := {| i_path := p; i_form := f |}.
Definition D (n : ident) (b : bool) : def := {| d_name := n; d_pub := b |}.
Definition M (is : list import) (ds : list def) : module := {| m_imports := is; m_defs := ds |}.
Definition E9 : fpath := [9].


(* two directories (20, 21), each with its own file 12, each imported as `needs n12` from its own directory *)
Definition w_collision : fsys :=
  [ ([9], M [imp [20;10] (FAlias 70); imp [21;11] (FAlias 71)] []);
    ([20;10], M [imp [12] FModule] [D 30 true]);
    ([21;11], M [imp [12] FModule] [D 34 true]);
    ([20;12], M [] [D 40 true; D 41 true]);
    ([21;12], M [] [D 40 true; D 42 true]) ].

(* a/x imported as a.x by the entry and as x by a/y *)
Definition w_twokeys : fsys :=
  [ ([9], M [imp [20;10] (FAlias 70); imp [20;11] (FAlias 71)] []);
    ([20;10], M [] [D 30 true]);
    ([20;11], M [imp [10] FModule] [D 34 true]) ].

(* one directory; 10 has pub 40, 11 a PRIVATE 40; 12 imports 10 (alias 73) after 11 ran *)
Definition w_flatns : fsys :=
  [ ([9], M [imp [10] (FAlias 70); imp [11] (FAlias 71); imp [12] (FAlias 72)] []);
    ([10], M [] [D 40 true]);
    ([11], M [] [D 40 false; D 45 true]);
    ([12], M [imp [10] (FAlias 73)] [D 46 true]) ].

(* 10 `needs n11.n44`, 11 `needs n10.n40` *)
Definition w_pscycle : fsys :=
  [ ([9], M [imp [10] FModule] []);
    ([10], M [imp [11;44] FModule] [D 40 true]);
    ([11], M [imp [10;40] FModule] [D 44 true]) ].

(* `needs n10` then `needs n10.n42`, 42 private *)
Definition w_leak : fsys :=
  [ ([9], M [imp [10] FModule; imp [10;42] FModule] []);
    ([10], M [] [D 40 true; D 42 false]) ].

(* `needs n40, n42 from n10` in the entry and in module 11 *)
Definition w_second : fsys :=
  [ ([9], M [imp [11] FModule; imp [10] (FSymbols [40;42])] []);
    ([11], M [imp [10] (FSymbols [40;42])] [D 46 true]);
    ([10], M [] [D 40 true; D 42 true]) ].

(* `needs n40 from n10`: n10.n40 and n99.n40 work *)
Definition w_qual : fsys :=
  [ ([9], M [imp [10] (FSymbols [40])] []);
    ([10], M [] [D 40 true]) ].

(* 13 imports 11 as 70, 12 imports 10 as 70 *)
Definition w_shared_q : fsys :=
  [ ([9], M [imp [13] FModule; imp [12] FModule] []);
    ([13], M [imp [11] (FAlias 70)] [D 50 true]);
    ([12], M [imp [10] (FAlias 70)] [D 46 true]);
    ([10], M [] [D 40 true]);
    ([11], M [] [D 44 true]) ].

(* non-vacuity: a flat diamond with all import forms initialises in post-order; a 6-cycle behind a
   tail is reported, with the minimal fuel bound *)
Definition w_diamond : fsys :=
  [ ([9], M [imp [10] FModule; imp [11] (FAlias 71); imp [12] (FSymbols [38]); imp [1;0] (FAlias 77)] [D 60 true]);
    ([10], M [imp [19] (FAlias 75)] [D 30 true; D 31 false]);
    ([11], M [imp [19] (FSymbols [66])] [D 34 true]);
    ([12], M [imp [19] FWildcard; imp [10] FModule] [D 38 true]);
    ([19], M [] [D 66 true; D 67 false]) ].

Definition w_cycle6 : fsys :=
  [ ([9], M [imp [10] FModule] []);
    ([10], M [imp [11] (FAlias 70)] [D 30 true]);
    ([11], M [imp [12] FModule] [D 34 true]);
    ([12], M [imp [13] (FSymbols [42])] [D 38 true]);
    ([13], M [imp [14] FWildcard] [D 42 true]);
    ([14], M [imp [15] FModule] [D 46 true]);
    ([15], M [imp [16] FModule] [D 50 true]);
    ([16], M [imp [19] FModule; imp [11] (FAlias 71)] [D 54 true]);
    ([19], M [] [D 66 true]) ].
