(* C19 -- what the property demands of a module tree, stated without the loader's state:
   the import graph under the documented resolution (relative to the importing file's own
   directory, then to the entry file's directory), reachability, post-order, and the names each
   import form grants.  Definitions only. *)
From Coq Require Import NArith Bool List.
From Aelys Require Import Model.Modules.
Import ListNotations.
Local Open Scope N_scope.

(* what import i, written in file f, means: the file, and the import form it stands for
   (`needs a.b.s` with no module a.b.s but a module a.b is the selective import of s from a.b) *)
Definition meaning (fs : fsys) (root : list ident) (f : fpath) (i : import) : option (fpath * form) :=
  if is_std (i_path i) then None
  else match resolve_fb fs root (dir_of f) (i_path i) with
       | Some (g, _, None) => Some (g, i_form i)
       | Some (g, _, Some s) => Some (g, FSymbols [s])
       | None => None
       end.

Definition target (fs : fsys) (root : list ident) (f : fpath) (i : import) : option fpath :=
  match meaning fs root f i with Some (g, _) => Some g | None => None end.

(* the import graph of a program whose entry file is E *)
Definition edge (fs : fsys) (E : fpath) (f g : fpath) : Prop :=
  exists m i, find_file fs f = Some m /\ In i (m_imports m) /\ target fs (dir_of E) f i = Some g.

Inductive reachable (fs : fsys) (E : fpath) : fpath -> Prop :=
| r_refl : reachable fs E E
| r_step : forall g h, reachable fs E g -> edge fs E g h -> reachable fs E h.

(* one or more import edges *)
Inductive path_plus (fs : fsys) (E : fpath) : fpath -> fpath -> Prop :=
| pp_one : forall f g, edge fs E f g -> path_plus fs E f g
| pp_step : forall f g h, path_plus fs E f g -> edge fs E g h -> path_plus fs E f h.

(* every file's dependencies occur earlier in the trace *)
Definition postorder (fs : fsys) (E : fpath) (tr : list fpath) : Prop :=
  forall l1 g l2, tr = l1 ++ g :: l2 -> forall h, edge fs E g h -> In h l1.

(* ---- names an import grants (docs/language-spec.md, Modules) *)
Definition granted_bare (fs : fsys) (root : list ident) (f : fpath) (i : import) : list ident :=
  match meaning fs root f i with
  | None => []
  | Some (g, fm) =>
      match find_file fs g with
      | None => []
      | Some mg =>
          match fm with
          | FModule | FWildcard => pub_names mg
          | FSymbols l => l
          | FAlias _ => []
          end
      end
  end.

(* the qualifier under which the import's module can be named.  (The loader also treats the last
   segment of a wildcard import as a qualifier; nothing is ever bound under it by that import.) *)
Definition granted_qualifier (fs : fsys) (root : list ident) (f : fpath) (i : import) : option ident :=
  if is_std (i_path i) then
    match i_form i with FModule | FWildcard => Some (last_seg (i_path i)) | FAlias a => Some a | FSymbols _ => None end
  else match meaning fs root f i with
  | Some (_, FModule) | Some (_, FWildcard) => Some (last_seg (i_path i))
  | Some (_, FAlias a) => Some a
  | _ => None
  end.

Definition nonempty_symbols (m : module) : Prop :=
  forall j l, In j (m_imports m) -> i_form j = FSymbols l -> l <> [].
Definition no_std_imports (m : module) : Prop :=
  forall j, In j (m_imports m) -> is_std (i_path j) = false.

(* every import written in a reachable file resolves, and selects only pub symbols *)
Definition clean (fs : fsys) (E : fpath) : Prop :=
  forall f m i, reachable fs E f -> find_file fs f = Some m -> In i (m_imports m) ->
    is_std (i_path i) = false ->
    i_path i <> [] /\ exists g fm mg, meaning fs (dir_of E) f i = Some (g, fm) /\ find_file fs g = Some mg /\
      m_fault mg = 0 /\
      (forall l s, fm = FSymbols l -> In s l -> In s (pub_names mg)).

(* decidable and sufficient: the same for every file of the tree, reachable or not *)
Definition clean_b (fs : fsys) (root : list ident) : bool :=
  forallb (fun fm => forallb (fun i =>
     is_std (i_path i) ||
     (match i_path i with [] => false | _ :: _ => true end &&
      match meaning fs root (fst fm) i with
      | Some (g, f) =>
          match find_file fs g with
          | Some mg => (m_fault mg =? 0) &&
                       match f with
                       | FSymbols l => forallb (fun s => mem_id s (pub_names mg)) l
                       | _ => true
                       end
          | None => false
          end
      | None => false
      end)) (m_imports (snd fm))) (files fs).

(* a top-level name is defined by at most one file *)
Fixpoint count_id (n : ident) (l : list ident) : nat :=
  match l with [] => O | x :: r => (if n =? x then 1 else 0)%nat + count_id n r end.
Definition all_def_names (fs : fsys) : list ident := flat_map (fun fm => map d_name (m_defs (snd fm))) (files fs).
Definition unique_defs (fs : fsys) : bool :=
  forallb (fun n => Nat.eqb (count_id n (all_def_names fs)) 1) (all_def_names fs).

(* every import written in file f means a file of the tree and selects only pub symbols of it *)
Definition selected_are_pub (fs : fsys) (E : fpath) (f : fpath) : Prop :=
  forall m j, find_file fs f = Some m -> In j (m_imports m) -> is_std (i_path j) = false ->
    exists g fm mg, meaning fs (dir_of E) f j = Some (g, fm) /\ find_file fs g = Some mg /\
      (forall l s, fm = FSymbols l -> In s l -> In s (pub_names mg)).

(* ---- compile-time name sets of a top level (module or entry), against the grants above *)
Definition names_ok (fs : fsys) (E : fpath) (ev : event) : Prop :=
  forall m, find_file fs (ev_file ev) = Some m -> no_std_imports m -> nonempty_symbols m ->
    (forall q, In q (ev_aliases ev) <->
       exists j, In j (m_imports m) /\ granted_qualifier fs (dir_of E) (ev_file ev) j = Some q) /\
    (forall n, In n (ev_known ev) <->
       In n (map d_name (m_defs m)) \/
       exists j, In j (m_imports m) /\ In n (granted_bare fs (dir_of E) (ev_file ev) j)).

(* ---- which VALUE a spelling reads (the run-time half of visibility).  Because every module's
   globals and every importer's `q::n` bindings share one VM namespace (KF-C19-3, KF-C19-8) this is
   exact only for names defined by one file and qualifiers that always denote one file. *)
Definition defines (fs : fsys) (g : fpath) (n : ident) : Prop :=
  exists mg, find_file fs g = Some mg /\ In n (map d_name (m_defs mg)).

Definition name_unique (fs : fsys) (n : ident) : Prop :=
  forall g1 g2, defines fs g1 n -> defines fs g2 n -> g1 = g2.

(* q is used consistently: every import that grants the qualifier q means the same file, and if one
   of them is a wildcard import (which binds nothing under q) all of them are *)
Definition qual_ok (fs : fsys) (root : list ident) (q : ident) : Prop :=
  forall f1 m1 j1 f2 m2 j2 g1 fm1 g2 fm2,
    find_file fs f1 = Some m1 -> In j1 (m_imports m1) -> meaning fs root f1 j1 = Some (g1, fm1) ->
    find_file fs f2 = Some m2 -> In j2 (m_imports m2) -> meaning fs root f2 j2 = Some (g2, fm2) ->
    granted_qualifier fs root f1 j1 = Some q -> granted_qualifier fs root f2 j2 = Some q ->
    g1 = g2 /\ (fm1 = FWildcard -> fm2 = FWildcard).

(* what the documented semantics lets the top level of file f (module m) read under a spelling *)
Definition grants_sp (fs : fsys) (root : list ident) (f : fpath) (m : module) (sp : spelling) (v : value) : Prop :=
  match sp with
  | SBare n =>
      (In n (map d_name (m_defs m)) /\ v = (f, n)) \/
      (exists j g fm, In j (m_imports m) /\ meaning fs root f j = Some (g, fm) /\
                      In n (granted_bare fs root f j) /\ v = (g, n))
  | SQual q n =>
      exists j g fm mg, In j (m_imports m) /\ meaning fs root f j = Some (g, fm) /\
        (fm = FModule /\ q = last_seg (i_path j) \/ fm = FAlias q) /\
        find_file fs g = Some mg /\ In n (pub_names mg) /\ v = (g, n)
  end.

Definition sp_guard (fs : fsys) (root : list ident) (sp : spelling) : Prop :=
  match sp with
  | SBare n => name_unique fs n
  | SQual q n => name_unique fs n /\ qual_ok fs root q
  end.

(* a top level reads exactly what it is granted *)
Definition values_ok (fs : fsys) (E : fpath) (ev : event) : Prop :=
  forall m, find_file fs (ev_file ev) = Some m -> no_std_imports m -> nonempty_symbols m ->
    forall sp, sp_guard fs (dir_of E) sp ->
      forall v, probe ev sp = Some v <-> grants_sp fs (dir_of E) (ev_file ev) m sp v.

(* decidable sufficient checks for the two guards: unique_defs (above) for name_unique, and *)
Definition qual_uses (fs : fsys) (root : list ident) : list (ident * fpath * form) :=
  flat_map (fun fm => flat_map (fun j =>
      match granted_qualifier fs root (fst fm) j, meaning fs root (fst fm) j with
      | Some q, Some (g, f) => [(q, g, f)]
      | _, _ => []
      end) (m_imports (snd fm))) (files fs).
Definition is_wild (f : form) : bool := match f with FWildcard => true | _ => false end.
Definition quals_ok_b (fs : fsys) (root : list ident) : bool :=
  forallb (fun a => forallb (fun b =>
      negb (fst (fst a) =? fst (fst b)) ||
      (key_eqb (snd (fst a)) (snd (fst b)) && implb (is_wild (snd a)) (is_wild (snd b))))
    (qual_uses fs root)) (qual_uses fs root).

(* ---- REPL sessions: the module top levels that ran, over all inputs of the session *)
(* an entry's / a REPL input's own event has key []; a module's event the dotted path it was first
   imported under; ev_done = its top level ran to completion (a module whose top level raised is not
   initialised and may be loaded again) *)
Definition is_mod_event (ev : event) : bool := negb (key_eqb (ev_key ev) []) && ev_done ev.
Definition mtrace_of (evs : list event) : list fpath := map ev_file (filter is_mod_event evs).
Definition session_events (rs : list (res (list event))) : list event :=
  flat_map (fun r => match r with Ok evs => evs | Err _ s => events s | Fuel => [] end) rs.

(* ---- concrete trees used by the refutation theorems, the regression examples (trees that refuted
        the property before the repairs) and the non-vacuity example of Props/C19.v *)
Definition imp (p : key) (f : form) : import := {| i_path := p; i_form := f |}.
Definition D (n : ident) (b : bool) : def := {| d_name := n; d_pub := b; d_fn := N.even n |}.
Definition M (is : list import) (ds : list def) : module := {| m_imports := is; m_defs := ds; m_fault := 0 |}.
Definition E9 : fpath := [9].


(* two directories (20, 21), each with its own file 12, each imported as `needs n12` from its own directory *)
Definition w_collision : fsys := mkfs
  [ ([9], M [imp [20;10] (FAlias 70); imp [21;11] (FAlias 71)] []);
    ([20;10], M [imp [12] FModule] [D 30 true]);
    ([21;11], M [imp [12] FModule] [D 34 true]);
    ([20;12], M [] [D 40 true; D 41 true]);
    ([21;12], M [] [D 40 true; D 42 true]) ] [] [].

(* a/x imported as a.x by the entry and as x by a/y *)
Definition w_twokeys : fsys := mkfs
  [ ([9], M [imp [20;10] (FAlias 70); imp [20;11] (FAlias 71)] []);
    ([20;10], M [] [D 30 true]);
    ([20;11], M [imp [10] FModule] [D 34 true]) ] [] [].

(* one directory; 10 has pub 40, 11 a PRIVATE 40; 12 imports 10 (alias 73) after 11 ran *)
Definition w_flatns : fsys := mkfs
  [ ([9], M [imp [10] (FAlias 70); imp [11] (FAlias 71); imp [12] (FAlias 72)] []);
    ([10], M [] [D 40 true]);
    ([11], M [] [D 40 false; D 45 true]);
    ([12], M [imp [10] (FAlias 73)] [D 46 true]) ] [] [].

(* 10 `needs n11.n44`, 11 `needs n10.n40` *)
Definition w_pscycle : fsys := mkfs
  [ ([9], M [imp [10] FModule] []);
    ([10], M [imp [11;44] FModule] [D 40 true]);
    ([11], M [imp [10;40] FModule] [D 44 true]) ] [] [].

(* `needs n10` then `needs n10.n42`, 42 private *)
Definition w_leak : fsys := mkfs
  [ ([9], M [imp [10] FModule; imp [10;42] FModule] []);
    ([10], M [] [D 40 true; D 42 false]) ] [] [].

(* `needs n40, n42 from n10` in the entry and in module 11 *)
Definition w_second : fsys := mkfs
  [ ([9], M [imp [11] FModule; imp [10] (FSymbols [40;42])] []);
    ([11], M [imp [10] (FSymbols [40;42])] [D 46 true]);
    ([10], M [] [D 40 true; D 42 true]) ] [] [].

(* `needs n40 from n10`: n10.n40 and n99.n40 work *)
Definition w_qual : fsys := mkfs
  [ ([9], M [imp [10] (FSymbols [40])] []);
    ([10], M [] [D 40 true]) ] [] [].

(* 13 imports 11 as 70, 12 imports 10 as 70 *)
Definition w_shared_q : fsys := mkfs
  [ ([9], M [imp [13] FModule; imp [12] FModule] []);
    ([13], M [imp [11] (FAlias 70)] [D 50 true]);
    ([12], M [imp [10] (FAlias 70)] [D 46 true]);
    ([10], M [] [D 40 true]);
    ([11], M [] [D 44 true]) ] [] [].

(* non-vacuity: a flat diamond with all import forms initialises in post-order; a 6-cycle behind a
   tail is reported, with the minimal fuel bound *)
Definition w_diamond : fsys := mkfs
  [ ([9], M [imp [10] FModule; imp [11] (FAlias 71); imp [12] (FSymbols [38]); imp [1;0] (FAlias 77)] [D 60 true]);
    ([10], M [imp [19] (FAlias 75)] [D 30 true; D 31 false]);
    ([11], M [imp [19] (FSymbols [66])] [D 34 true]);
    ([12], M [imp [19] FWildcard; imp [10] FModule] [D 38 true]);
    ([19], M [] [D 66 true; D 67 false]) ] [] [].

Definition w_cycle6 : fsys := mkfs
  [ ([9], M [imp [10] FModule] []);
    ([10], M [imp [11] (FAlias 70)] [D 30 true]);
    ([11], M [imp [12] FModule] [D 34 true]);
    ([12], M [imp [13] (FSymbols [42])] [D 38 true]);
    ([13], M [imp [14] FWildcard] [D 42 true]);
    ([14], M [imp [15] FModule] [D 46 true]);
    ([15], M [imp [16] FModule] [D 50 true]);
    ([16], M [imp [19] FModule; imp [11] (FAlias 71)] [D 54 true]);
    ([19], M [] [D 66 true]) ] [] [].
