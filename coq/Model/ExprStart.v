(* C15 (parser half, the one table the translator can read): Parser::block_expression decides
   with is_expression_start() whether the next item of a value block `{ ... e }` (if-expression
   branches) is an expression -- whose value the block yields when `}` follows -- or a
   declaration/statement (then the block yields null).  An expression can begin with any token
   primary() accepts or unary() consumes as a prefix operator; redundant parentheses make an
   expression begin with TLParen, so the property needs every such kind, TLParen included, to
   be listed. *)
From Coq Require Import Bool List.
From Aelys Require Import Extracted.AsiTokens Extracted.ParserSets.
Import ListNotations.

Definition can_begin_expression (k : tkind) : bool := primary_accepts k || prefix_operator k.

(* value of a block whose single item begins with kind k: the expression's value, or null *)
Inductive block_value := ValueOfExpression | NullValue.
Definition value_block_yields (first : tkind) : block_value :=
  if expr_start_listed first then ValueOfExpression else NullValue.
