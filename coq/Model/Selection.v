(* C20 -- the opcode-selection dimension.  The backend chooses the loop / index opcode from the
   STATIC type of the operand (Extracted/Utf8Select.v, regenerated from looping.rs / array.rs);
   the optimisation level does not enter that choice.  A string value can reach these constructs
   with static type string, Dynamic (unknown) or an unresolved type variable; whichever opcode
   is selected, its VM arm must have a case for a string object (regenerated from the dispatch
   arms) and that case is the character iteration of Model/Utf8.v. *)
From Coq Require Import NArith List Bool.
From Aelys Require Import Extracted.Utf8Select Model.Utf8.
Import ListNotations.

Definition string_static_types : list ity := [IString; IDynamic; IVar].

(* which model path an opcode's string case is *)
Definition loop_path (o : loop_op) : option sel :=
  match o with
  | OpStringForLoop => Some SelString
  | OpVecForLoop => Some SelDynamic
  | OpArrayForLoop => None
  end.

(* what a for-each over the string s does when the operand has static type t: None = the program
   is rejected or the selected arm has no string case *)
Definition compiled_for_each (t : ity) (s : list N) : option iter_result :=
  match foreach_select t with
  | Some o => if loop_op_handles_string o
              then match loop_path o with Some k => Some (vm_for_each k s) | None => None end
              else None
  | None => None
  end.

Definition compiled_index_ok (t : ity) : bool := load_op_handles_string (index_select t).
