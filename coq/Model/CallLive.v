(* Liveness of registers across calls, on emitted bytecode.

   The VM puts a callee's frame right after the call's window (dest + 1 for CallGlobal /
   CallGlobalMono / CallUpval, callee register + 1 for Call / CallCached): every caller register
   above the window is overwritten by the callee.  A register that is read after the call returns
   without having been written again must therefore not lie above the window.  This file computes,
   per function, a MUST-liveness (an under-approximation: every register it reports live has a
   path to a read, Proofs/CallLiveProofs.v) and lists the calls that have such a register above
   their window.

   What each instruction reads and writes comes from the dispatch source (Extracted/RegUse.v);
   instruction lengths from the verifier's table (Extracted/VerifierTable.v); opcode numbers from
   Extracted/Opcodes.v.  The calling convention is written out by hand below (the translator
   checks its shape in the source).  Definitions only. *)
From Coq Require Import NArith ZArith List Bool.
From Aelys Require Import Extracted.RegUse Extracted.VerifierTable Extracted.Opcodes.
Import ListNotations.
Local Open Scope N_scope.

(* ---- the abstract flow graph the analysis runs on ---- *)
Record node := {
  n_use : N;                 (* registers read (bit r = register r), before any write of the same instruction *)
  n_def : N;                 (* registers written *)
  n_defall : bool;           (* writes registers the translator could not resolve: treated as writing all *)
  n_succ : list nat;         (* successor instructions (indices) *)
  n_call : option (N * N)    (* frame-pushing call: (last register of its window, destination) *)
}.

Definition bit (r : N) : N := if r <? 256 then N.shiftl 1 r else 0.
Definition mask_above (last : N) : N := N.ldiff (N.ones 256) (N.ones (last + 1)).

Definition lor_list (l : list N) : N := fold_left N.lor l 0.

Definition out_of (g : list node) (l : list N) (i : nat) : N :=
  match nth_error g i with
  | Some nd => lor_list (map (fun s => nth s l 0) (n_succ nd))
  | None => 0
  end.

Definition flow (g : list node) (l : list N) (i : nat) : N :=
  match nth_error g i with
  | Some nd => N.lor (n_use nd) (if n_defall nd then 0 else N.ldiff (out_of g l i) (n_def nd))
  | None => 0
  end.

Fixpoint upd (l : list N) (i : nat) (v : N) : list N :=
  match l, i with
  | [], _ => []
  | _ :: q, O => v :: q
  | x :: q, S i' => x :: upd q i' v
  end.

Definition sweep (g : list node) (l : list N) : list N :=
  fold_left (fun l i => upd l i (flow g l i)) (rev (seq 0 (length g))) l.

Fixpoint solve (k : nat) (g : list node) (l : list N) : list N :=
  match k with
  | O => l
  | S k' => solve k' g (sweep g l)
  end.

(* registers live after call i returns that its callee overwrites *)
Definition clobbered (g : list node) (l : list N) (i : nat) : N :=
  match nth_error g i with
  | Some nd => match n_call nd with
               | Some (last, dest) => N.ldiff (N.land (out_of g l i) (mask_above last)) (bit dest)
               | None => 0
               end
  | None => 0
  end.

Definition alarms (k : nat) (g : list node) : list (nat * N) :=
  let l := solve k g (repeat 0 (length g)) in
  filter (fun p => negb (N.eqb (snd p) 0)) (map (fun i => (i, clobbered g l i)) (seq 0 (length g))).

(* ---- from bytecode words to the graph ---- *)
Record insn := { i_pc : N; i_op : N; i_a : N; i_b : N; i_c : N; i_imm : Z; i_len : N }.

Definition decode (pc w : N) : insn :=
  let op := N.shiftr w 24 in
  let u := N.land w 65535 in
  {| i_pc := pc; i_op := op; i_a := N.land (N.shiftr w 16) 255; i_b := N.land (N.shiftr w 8) 255;
     i_c := N.land w 255;
     i_imm := if u <? 32768 then Z.of_N u else (Z.of_N u - 65536)%Z;
     i_len := match find (fun e => N.eqb (fst e) op) vtable with
              | Some (_, (_, n)) => if n =? 0 then 1 else n
              | None => 1
              end |}.

Fixpoint scan (fuel : nat) (pc : N) (ws : list N) : list insn :=
  match fuel, ws with
  | S f, w :: _ => let i := decode pc w in i :: scan f (pc + i_len i) (skipn (N.to_nat (i_len i)) ws)
  | _, _ => []
  end.

Definition fld_val (i : insn) (f : fld) : N :=
  match f with FA => i_a i | FB => i_b i | FC => i_c i end.

Definition mask_of (i : insn) (l : list (fld * N)) : N :=
  lor_list (map (fun p => bit (fld_val i (fst p) + snd p)) l).

(* registers first .. first + n - 1 *)
Definition range_mask (first n : N) : N :=
  N.land (N.ldiff (N.ones (first + n)) (N.ones first)) (N.ones 256).

Definition is_op (i : insn) (o : opcode) : bool := N.eqb (i_op i) (opcode_num o).

Definition index_of_pc (is : list insn) (pc : N) : option nat :=
  (fix go (l : list insn) (k : nat) : option nat :=
     match l with
     | [] => None
     | i :: q => if N.eqb (i_pc i) pc then Some k else go q (S k)
     end) is O.

Definition opt_list {A} (o : option A) : list A := match o with Some x => [x] | None => [] end.

Definition node_of (is : list insn) (k : nat) (i : insn) : node :=
  let next := opt_list (index_of_pc is (i_pc i + i_len i)) in
  let target :=
    let t := (Z.of_N (i_pc i + i_len i) + i_imm i)%Z in
    if (t <? 0)%Z then [] else opt_list (index_of_pc is (Z.to_N t)) in
  if is_op i O_Call || is_op i O_CallCached then
    {| n_use := N.lor (bit (i_b i)) (range_mask (i_b i + 1) (i_c i)); n_def := bit (i_a i); n_defall := false;
       n_succ := next; n_call := Some (i_b i + i_c i, i_a i) |}
  else if is_op i O_CallGlobal || is_op i O_CallGlobalMono || is_op i O_CallUpval then
    {| n_use := range_mask (i_a i + 1) (i_c i); n_def := bit (i_a i); n_defall := false;
       n_succ := next; n_call := Some (i_a i + i_c i, i_a i) |}
  else if is_op i O_CallGlobalNative then
    {| n_use := range_mask (i_a i + 1) (i_c i); n_def := bit (i_a i); n_defall := false;
       n_succ := next; n_call := None |}
  else if is_op i O_Return then
    {| n_use := bit (i_a i); n_def := 0; n_defall := false; n_succ := []; n_call := None |}
  else if is_op i O_Return0 then
    {| n_use := 0; n_def := 0; n_defall := false; n_succ := []; n_call := None |}
  else if is_op i O_TailCallUpval then
    {| n_use := range_mask (i_a i + 1) (i_c i); n_def := 0; n_defall := false; n_succ := []; n_call := None |}
  else
    match find (fun e => N.eqb (fst e) (i_op i)) reguse with
    | Some (_, (gets, sets, wr_unres, _, j)) =>
        {| n_use := mask_of i gets; n_def := mask_of i sets; n_defall := wr_unres;
           n_succ := match j with JNone => next | JCond => target ++ next | JAlways => target end;
           n_call := None |}
    | None => {| n_use := 0; n_def := 0; n_defall := true; n_succ := next; n_call := None |}
    end.

Definition graph_of (ws : list N) : list node :=
  let is := scan (length ws) 0 ws in
  (fix go (l : list insn) (k : nat) : list node :=
     match l with
     | [] => []
     | i :: q => node_of is k i :: go q (S k)
     end) is O.

(* (word offset of the call, clobbered live registers as a bit mask) *)
Definition call_alarms (sweeps : nat) (ws : list N) : list (N * N) :=
  let is := scan (length ws) 0 ws in
  map (fun p => (match nth_error is (fst p) with Some i => i_pc i | None => 0 end, snd p))
      (alarms sweeps (graph_of ws)).

(* registers read on some path from the function's entry before anything wrote them, other than
   the parameters (registers 0 .. arity - 1): the function computes with whatever an earlier frame
   left there *)
Definition entry_reads (sweeps : nat) (arity : N) (ws : list N) : N :=
  let g := graph_of ws in
  N.ldiff (nth 0 (solve sweeps g (repeat 0 (length g))) 0) (N.ones arity).
