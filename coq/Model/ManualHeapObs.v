(* Observation vectors for the C09 contract tie on ManualHeap histories: what hx_mheap prints.
   Per step: result code, result value, bytes_allocated() after the step. *)
From Coq Require Import NArith ZArith Bool List.
From Aelys Require Import Extracted.ManualMem Model.ManualHeap.
Import ListNotations.
Local Open Scope Z_scope.

Inductive mq :=
| QApi (os : list mop)
| QVm (sf : surface) (maxh : N) (os : list vop)     (* GC-heap bytes taken as 0: see tools/props/c09.py *)
(* tie plumbing only (not an operation of the model): run [pre], overwrite the charge with [b]
   (hook ManualHeap::verif_set_bytes_allocated), then observe [post].  Drives the checked_add branch
   of ManualHeap::alloc, which no real history can reach. *)
| QApiForged (pre : list mop) (b : N) (post : list mop).

Definition ecode (e : ekind) : Z :=
  match e with
  | EInvalidSize => 10 | EInvalidHandle => 11 | EDoubleFree => 12 | EUseAfterFree => 13
  | EOutOfBounds => 14 | ENegativeIndex => 15 | ETypeError => 16 | EOutOfMemory => 17
  end.

Definition res_obs (r : mres) : list Z :=
  match r with
  | ROkHandle h => [0; Z.of_N h]
  | ROkUnit => [1; 0]
  | ROkVal v => [2; Z.of_N v]
  | ROkSize n => [3; Z.of_N n]
  | RErr e => [ecode e; 0]
  | RPanic => [99; 0]
  end.

Fixpoint api_obs (s : mheap) (os : list mop) : list Z :=
  match os with
  | [] => []
  | o :: r => let '(s1, x) := mh_step s o in res_obs x ++ Z.of_N (bytes s1) :: api_obs s1 r
  end.

Fixpoint vm_obs (sf : surface) (maxh : N) (s : mheap) (os : list vop) : list Z :=
  match os with
  | [] => []
  | o :: r => let '(s1, x) := vm_step sf maxh 0%N s o in res_obs x ++ Z.of_N (bytes s1) :: vm_obs sf maxh s1 r
  end.

Definition mobs (q : mq) : list Z :=
  match q with
  | QApi os => api_obs mh_empty os
  | QVm sf maxh os => vm_obs sf maxh mh_empty os
  | QApiForged pre b post =>
      let s := mh_exec mh_empty pre in
      api_obs {| allocs := allocs s; free_list := free_list s; bytes := b |} post
  end.
