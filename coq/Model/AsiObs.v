(* Observations for the C15 contract ties (hx_asi --mode lex / lit). *)
From Coq Require Import NArith ZArith Bool List.
From Aelys Require Import Extracted.AsiTokens Model.Asi Model.Literal.
Import ListNotations.

Definition tkind_eqb (a b : tkind) : bool := N.eqb (tkind_code a) (tkind_code b).
Fixpoint tlist_eqb (a b : list tkind) : bool :=
  match a, b with
  | [], [] => true
  | x :: a', y :: b' => tkind_eqb x y && tlist_eqb a' b'
  | _, _ => false
  end.

(* value of the literal, -1 when the text is not exactly one accepted integer literal *)
Definition lit_obs (text : list N) : Z :=
  match lex_int text with Some n => Z.of_N n | None => (-1)%Z end.

(* value-block parser contract (hx_asi --mode blk) *)
From Aelys Require Import Extracted.ParserSets Model.BlockParse.
Definition bresult_eqb (a b : bresult) : bool :=
  match a, b with
  | Value i, Value j => Nat.eqb i j
  | Null, Null => true
  | ParseError, ParseError => true
  | _, _ => false
  end.

Definition optnat_eqb (a b : option nat) : bool :=
  match a, b with Some x, Some y => Nat.eqb x y | None, None => true | _, _ => false end.
