(* C20 -- find / rfind-free part: str::find(needle) as the first byte offset at which the needle's
   bytes occur (runtime/src/stdlib/string.rs native_find returns that BYTE position, -1 when absent). *)
From Coq Require Import NArith ZArith Bool List.
From Aelys Require Import Model.Utf8.
Import ListNotations.
Local Open Scope N_scope.

Fixpoint is_prefix (n s : list N) : bool :=
  match n, s with
  | [], _ => true
  | x :: n', y :: s' => (x =? y) && is_prefix n' s'
  | _ :: _, [] => false
  end.

Fixpoint find_go (needle s : list N) (off : nat) : option nat :=
  if is_prefix needle s then Some off
  else match s with [] => None | _ :: r => find_go needle r (S off) end.

Definition nat_find (s needle : list N) : Z :=
  match find_go needle s 0 with Some p => Z.of_nat p | None => (-1)%Z end.
