(* Store-free semantics of the pure expression fragment (literals, variables, unary/binary
   operators, short-circuit and/or, if-expressions) under an environment of values.
   It is the evaluator of Model/Eval.v restricted to expressions that neither call nor assign
   (Proofs/PureProofs.v proves that restriction); optimiser kernels are stated against it. *)
From Coq Require Import ZArith String List Bool.
From Aelys Require Import Model.Lang Model.Eval.
Import ListNotations.

Definition venv := string -> option value.

Fixpoint peval (rho : venv) (e : expr) : res value :=
  match e with
  | EInt n => ROk (VInt (wrap48 n))
  | EFlt b => ROk (VFlt b)
  | EBool b => ROk (VBool b)
  | EStr s => ROk (VStr s)
  | ENull => ROk VNull
  | EVar x => match rho x with Some v => ROk v | None => RErr EUndefined end
  | EBin op a b =>
      match peval rho a with
      | ROk va => match peval rho b with ROk vb => eval_binop op va vb | r => r end
      | r => r
      end
  | EUn op a => match peval rho a with ROk va => eval_unop op va | r => r end
  | EAnd a b => match peval rho a with ROk va => if truthy va then peval rho b else ROk va | r => r end
  | EOr a b => match peval rho a with ROk va => if truthy va then ROk va else peval rho b | r => r end
  | EIf c a b => match peval rho c with ROk vc => if truthy vc then peval rho a else peval rho b | r => r end
  | _ => RErr EUnsupported
  end.

Fixpoint pure (e : expr) : bool :=
  match e with
  | EInt _ | EFlt _ | EBool _ | EStr _ | ENull | EVar _ => true
  | EBin _ a b | EAnd a b | EOr a b => pure a && pure b
  | EUn _ a => pure a
  | EIf c a b => pure c && pure a && pure b
  | _ => false
  end.

Fixpoint esize (e : expr) : nat :=
  match e with
  | EBin _ a b | EAnd a b | EOr a b => S (esize a + esize b)
  | EUn _ a => S (esize a)
  | EIf c a b => S (esize c + esize a + esize b)
  | _ => 1
  end.

(* the value environment an (env, state) pair denotes for the full evaluator *)
Definition rho_of (env : list (string * nat)) (st : state) : venv :=
  fun x => match lookup_var env st x with ROk v => Some v | _ => None end.

(* constant propagation kernel: replace variables bound to literals *)
Fixpoint subst_consts (c : string -> option expr) (e : expr) : expr :=
  match e with
  | EVar x => match c x with Some l => l | None => e end
  | EBin op a b => EBin op (subst_consts c a) (subst_consts c b)
  | EUn op a => EUn op (subst_consts c a)
  | EAnd a b => EAnd (subst_consts c a) (subst_consts c b)
  | EOr a b => EOr (subst_consts c a) (subst_consts c b)
  | EIf x a b => EIf (subst_consts c x) (subst_consts c a) (subst_consts c b)
  | _ => e
  end.

Definition is_literal (e : expr) : bool :=
  match e with EInt _ | EFlt _ | EBool _ | EStr _ | ENull => true | _ => false end.
