(* Model of aelys_bytecode::Value (bytecode/src/value/*.rs): NaN-boxed 64-bit words.
   Definitions only.  Words are N; a word is well-formed when < 2^64.
   Constants come from the translator (Extracted/ValueConsts.v). *)
From Coq Require Import NArith ZArith Bool List.
From Aelys Require Import Extracted.ValueConsts.
Import ListNotations.
Local Open Scope N_scope.

Definition W64 : N := 18446744073709551616.          (* 2^64 *)
Definition is_word (w : N) : bool := w <? W64.

(* ---- checks.rs ---- *)
Definition KIND_MASK : N := N.lor QNAN TAG_MASK.
Definition has_tag (t w : N) : bool := N.land w KIND_MASK =? N.lor QNAN t.

Definition is_int (w : N) : bool := has_tag TAG_INT w.
Definition is_bool (w : N) : bool := has_tag TAG_BOOL w.
Definition is_null (w : N) : bool := has_tag TAG_NULL w.
Definition is_ptr (w : N) : bool := has_tag TAG_PTR w.
Definition is_nested (w : N) : bool := has_tag TAG_NESTED_FN w.   (* as_nested_fn_marker().is_some() *)

Definition is_float (w : N) : bool :=
  if negb (N.land w QNAN =? QNAN) then true
  else
    let tag := N.land w TAG_MASK in
    negb (tag =? TAG_PTR) && negb (tag =? TAG_INT) && negb (tag =? TAG_BOOL)
    && negb (tag =? TAG_NULL) && negb (tag =? TAG_NESTED_FN).

(* ---- i64 <-> word helpers ---- *)
Definition u64_of_i64 (n : Z) : N := Z.to_N (n mod 18446744073709551616)%Z.   (* n as u64 *)
Definition i64_of_u64 (w : N) : Z :=                                          (* w as i64 *)
  if w <? 9223372036854775808 then Z.of_N w else (Z.of_N w - 18446744073709551616)%Z.
Definition is_i64 (n : Z) : bool :=
  ((-9223372036854775808 <=? n) && (n <? 9223372036854775808))%Z.

(* ((payload << 16) as i64) >> 16 : shift left in u64 (wraps), reinterpret, arithmetic shift right *)
Definition sext48 (payload : N) : Z :=
  let x := (payload * 65536) mod W64 in
  (i64_of_u64 x / 65536)%Z.

(* ---- constructors.rs ---- *)
Definition v_int (n : Z) : N := N.lor (N.lor QNAN TAG_INT) (N.land (u64_of_i64 n) PAYLOAD_MASK).

(* n == (n << 16) >> 16   on i64: wrapping shl, arithmetic shr *)
Definition shl16_shr16 (n : Z) : Z :=
  (i64_of_u64 ((u64_of_i64 n * 65536) mod W64) / 65536)%Z.
Definition v_int_checked (n : Z) : option N :=
  if (n =? shl16_shr16 n)%Z then Some (v_int n) else None.

(* f64::is_nan on the bit pattern: exponent all ones, mantissa non-zero *)
Definition EXP_MASK : N := 0x7FF0000000000000.
Definition MANT_MASK : N := 0x000FFFFFFFFFFFFF.
Definition SIGN_BIT : N := 0x8000000000000000.
Definition is_nan_bits (w : N) : bool :=
  (N.land w EXP_MASK =? EXP_MASK) && negb (N.land w MANT_MASK =? 0).

Definition v_float (bits : N) : N := if is_nan_bits bits then CANONICAL_NAN else bits.
Definition v_bool (b : bool) : N := N.lor (N.lor QNAN TAG_BOOL) (if b then 1 else 0).
Definition v_null : N := N.lor QNAN TAG_NULL.
Definition v_ptr (p : N) : N := N.lor (N.lor QNAN TAG_PTR) p.
Definition v_nested (i : N) : N := N.lor (N.lor QNAN TAG_NESTED_FN) i.

(* ---- accessors.rs ---- *)
Definition as_int (w : N) : option Z :=
  if is_int w then Some (sext48 (N.land w PAYLOAD_MASK)) else None.
Definition as_float (w : N) : option N := if is_float w then Some w else None.
Definition as_bool (w : N) : option bool :=
  if is_bool w then Some (negb (N.land w 1 =? 0)) else None.
Definition as_ptr (w : N) : option N := if is_ptr w then Some (N.land w PAYLOAD_MASK) else None.
Definition as_nested (w : N) : option N :=
  if is_nested w then Some (N.land w PAYLOAD_MASK) else None.
Definition as_int_unchecked (w : N) : Z := sext48 (N.land w PAYLOAD_MASK).

(* ---- kinds, type_name ---- *)
Inductive kind := KFloat | KInt | KBool | KNull | KPtr | KNested.
Definition b2n (b : bool) : N := if b then 1 else 0.
Definition kind_count (w : N) : N :=
  b2n (is_float w) + b2n (is_int w) + b2n (is_bool w) + b2n (is_null w) + b2n (is_ptr w)
  + b2n (is_nested w).
Definition kind_of (w : N) : kind :=
  if is_null w then KNull else if is_bool w then KBool else if is_int w then KInt
  else if is_float w then KFloat else if is_ptr w then KPtr else KNested.
(* util.rs type_name: 0 Null 1 Bool 2 Int 3 Float 4 Object 5 Unknown *)
Definition type_name_code (w : N) : N :=
  if is_null w then 0 else if is_bool w then 1 else if is_int w then 2
  else if is_float w then 3 else if is_ptr w then 4 else 5.

(* ---- exact numeric value of a non-NaN binary64 bit pattern ----
   value = (-1)^s * m * 2^e  with (m, e) below; infinities have no value (None). *)
Definition f_sign (w : N) : bool := negb (N.land w SIGN_BIT =? 0).
Definition f_exp (w : N) : N := N.shiftr (N.land w EXP_MASK) 52.
Definition f_mant (w : N) : N := N.land w MANT_MASK.
Definition is_inf_bits (w : N) : bool := (f_exp w =? 2047) && (f_mant w =? 0).
Definition is_zero_bits (w : N) : bool := (f_exp w =? 0) && (f_mant w =? 0).
(* finite: (signed mantissa, exponent) such that value = sm * 2^ex *)
Definition f_decode (w : N) : option (Z * Z) :=
  if f_exp w =? 2047 then None
  else
    let m := if f_exp w =? 0 then f_mant w else f_mant w + 4503599627370496 in
    let e := if f_exp w =? 0 then (-1074)%Z else (Z.of_N (f_exp w) - 1075)%Z in
    Some (if f_sign w then (- Z.of_N m)%Z else Z.of_N m, e).

(* IEEE == on two bit patterns (f64 PartialEq) *)
Definition f64_eq (a b : N) : bool :=
  negb (is_nan_bits a) && negb (is_nan_bits b)
  && ((a =? b) || (is_zero_bits a && is_zero_bits b)).

(* (n as f64) == b for |n| < 2^53 (conversion exact): integer n equals the exact value of b *)
Definition int_eq_f64 (n : Z) (b : N) : bool :=
  match f_decode b with
  | None => false
  | Some (sm, e) =>
      if (0 <=? e)%Z then (n =? sm * 2 ^ e)%Z
      else (n * 2 ^ (- e) =? sm)%Z
  end.

(* fmt.rs PartialEq *)
Definition value_eq (a b : N) : bool :=
  if a =? b then true
  else if is_float a && is_float b then f64_eq a b
  else match as_int a, as_float b with
       | Some x, Some y => int_eq_f64 x y
       | _, _ =>
           match as_float a, as_int b with
           | Some x, Some y => int_eq_f64 y x
           | _, _ => false
           end
       end.

(* util.rs is_truthy *)
Definition is_truthy (w : N) : bool :=
  if is_null w then false
  else match as_bool w with
       | Some b => b
       | None =>
           match as_int w with
           | Some n => negb (n =? 0)%Z
           | None =>
               match as_float w with
               | Some f => negb (is_zero_bits f)      (* n != 0.0 ; NaN != 0.0 is true *)
               | None => true
               end
           end
       end.
