(* Executable comparison of Model/RegPool.v with the compiler's own pool functions: the harness
   (hx_pool, hook aelys_backend::verif::pool_script) runs a script of pool operations on the real
   Compiler and reports each result and each intermediate pool; [pool_code] replays the script
   on the model and answers 0 when every step agrees.  The compiler reserves register 255 (in use from the start,
   never handed out): the pool that is handed out, and modelled, is registers 0..254.
   Definitions only. *)
From Coq Require Import List Arith Bool ZArith NArith.
From Aelys Require Import Model.RegPool.
Import ListNotations.

Inductive sop :=
| SAlloc
| SFree (r : nat)
| SCall (n : nat)
| SFrom (start n : nat)
| SLocal (r : nat) (dead captured : bool)
| SDead.

(* a declared local: register, liveness says dead, captured, already released *)
Record slocal := { l_reg : nat; l_dead : bool; l_capt : bool; l_freed : bool }.

(* locals are kept newest first: free_dead_locals looks for the newest unreleased local in a register *)
Fixpoint local_at (ls : list slocal) (r : nat) : option slocal :=
  match ls with
  | [] => None
  | l :: rest => if negb (l_freed l) && Nat.eqb (l_reg l) r then Some l else local_at rest r
  end.

Definition dead_at (ls : list slocal) (r : nat) : bool :=
  match local_at ls r with
  | Some l => l_dead l && negb (l_capt l)
  | None => false
  end.

(* mark as released the newest unreleased local of every register in [rs] *)
Fixpoint release_one (ls : list slocal) (r : nat) : list slocal :=
  match ls with
  | [] => []
  | l :: rest =>
      if negb (l_freed l) && Nat.eqb (l_reg l) r
      then {| l_reg := l_reg l; l_dead := l_dead l; l_capt := l_capt l; l_freed := true |} :: rest
      else l :: release_one rest r
  end.

Fixpoint pool_of (used : list nat) (p : pool) : pool :=
  match used with
  | [] => p
  | r :: rest => pool_of rest (set_reg p r true)
  end.

Fixpoint used_list (p : pool) (r : nat) : list nat :=
  match p with
  | [] => []
  | b :: q => if b then r :: used_list q (S r) else used_list q (S r)
  end.

Fixpoint count_diff (p p' : pool) : nat :=
  match p, p' with
  | b :: q, b' :: q' => (if b && negb b' then 1 else 0) + count_diff q q'
  | _, _ => 0
  end.

Fixpoint freed_regs (p p' : pool) (r : nat) : list nat :=
  match p, p' with
  | b :: q, b' :: q' => if b && negb b' then r :: freed_regs q q' (S r) else freed_regs q q' (S r)
  | _, _ => []
  end.

Definition sstep (st : pool * list slocal) (o : sop) : (pool * list slocal) * Z :=
  let '(p, ls) := st in
  match o with
  | SAlloc => match alloc p with
              | Some (r, p') => ((p', ls), Z.of_nat r)
              | None => ((p, ls), (-1)%Z)
              end
  | SFree r => ((free p r, ls), 0%Z)
  | SCall n => match first_fit p n with
               | Some s => ((p, ls), Z.of_nat s)
               | None => ((p, ls), (-1)%Z)
               end
  | SFrom s n => match alloc_from p s n with
                 | Some p' => ((p', ls), Z.of_nat s)
                 | None => ((p, ls), (-1)%Z)
                 end
  | SLocal r d c => ((p, {| l_reg := r; l_dead := d; l_capt := c; l_freed := false |} :: ls), 0%Z)
  | SDead => let p' := free_dead_top 256 (dead_at ls) p in
             ((p', fold_left release_one (freed_regs p p' 0) ls), Z.of_nat (count_diff p p'))
  end.

Fixpoint srun (st : pool * list slocal) (ops : list sop) : list (Z * list nat) :=
  match ops with
  | [] => []
  | o :: rest => let '(st', r) := sstep st o in (r, used_list (fst st') 0) :: srun st' rest
  end.

Fixpoint steps_eqb (a b : list (Z * list nat)) : bool :=
  match a, b with
  | [], [] => true
  | (r, u) :: a', (r', u') :: b' =>
      Z.eqb r r' && (if list_eq_dec Nat.eq_dec u u' then true else false) && steps_eqb a' b'
  | _, _ => false
  end.

Definition pool_code (used : list nat) (ops : list sop) (impl : list (Z * list nat)) : N :=
  if steps_eqb (srun (pool_of used (repeat false 255), []) ops) impl then 0%N else 1%N.
