(* Specification: System V AMD64 C struct layout, stated arithmetically and independently of
   the implementation (no bit tricks, no u32, no processing order, its own table of C types).
     - alignment of a struct  = max alignment of its members (1 for the empty struct, GNU C)
     - offset of a member     = least multiple of the member's alignment >= end of the previous one
     - size of a struct       = end of the last member rounded up to the struct's alignment
     - array T[n]             = n elements at stride sizeof(T), alignment of T
   The syntax of types ([ty], [sdef], [prim]) is shared with the model; nothing else is.
   This file is validated against `clang -target x86_64-linux-gnu` in the thorough tier. *)
From Coq Require Import NArith Bool List.
From Aelys Require Import Extracted.LayoutTable Model.Layout.
Import ListNotations.
Local Open Scope N_scope.

(* least multiple of a that is >= x  (characterised by [round_up_least] in LayoutProofs) *)
Definition round_up (x a : N) : N := a * ((x + (a - 1)) / a).

(* C translation of the layout classes on x86-64 System V (psABI figure 3.1) *)
Definition c_members_t := list (N * N).   (* (sizeof, _Alignof) of each member *)

Fixpoint c_offsets (ms : c_members_t) (prev_end : N) : list N * N :=
  match ms with
  | [] => ([], prev_end)
  | (s, a) :: r =>
      let o := round_up prev_end a in
      let '(os, e) := c_offsets r (o + s) in
      (o :: os, e)
  end.
Definition c_align (ms : c_members_t) : N := fold_right (fun m acc => N.max (snd m) acc) 1 ms.
(* (offsets, sizeof, _Alignof) of `struct { members }` *)
Definition c_struct_of (ms : c_members_t) : list N * N * N :=
  let '(os, e) := c_offsets ms 0 in
  let a := c_align ms in
  (os, round_up e a, a).

Definition c_pointer : N * N := (8, 8).
Definition sysv_prim (p : prim) : N * N :=
  match p with
  | PI8 | PU8 => (1, 1)                      (* signed char / unsigned char *)
  | PBool => (1, 1)                          (* _Bool *)
  | PI16 | PU16 => (2, 2)                    (* short *)
  | PI32 | PU32 => (4, 4)                    (* int *)
  | PI64 | PU64 => (8, 8)                    (* long *)
  | PF32 => (4, 4)                           (* float *)
  | PF64 => (8, 8)                           (* double *)
  | PStr | PPtr | PFnPtr | PParam => c_pointer   (* char*, T*, function pointer, boxed generic *)
  | PSlice =>                                (* struct { T *ptr; unsigned long len; } *)
      let '(_, s, a) := c_struct_of [c_pointer; (8, 8)] in (s, a)
  | PVoid => let '(_, s, a) := c_struct_of [] in (s, a)   (* struct {} : GNU C, size 0 align 1 *)
  end.

(* sizeof/_Alignof of a type, given the layouts of the structs it contains by value *)
Fixpoint ty_sa (sl : N -> option (N * N)) (t : ty) : option (N * N) :=
  match t with
  | TPrim p => Some (sysv_prim p)
  | TPtr _ => Some (sysv_prim PPtr)
  | TSlice _ => Some (sysv_prim PSlice)
  | TStruct nm => sl nm
  | TArray t' n => match ty_sa sl t' with Some (s, a) => Some (s * n, a) | None => None end
  end.

Fixpoint seq_opt {A} (l : list (option A)) : option (list A) :=
  match l with
  | [] => Some []
  | Some x :: r => match seq_opt r with Some xs => Some (x :: xs) | None => None end
  | None :: _ => None
  end.

(* the definition of a struct name (names are unique in a C translation unit) *)
Fixpoint find_def (E : list sdef) (nm : N) : option (list ty) :=
  match E with
  | [] => None
  | d :: r => if sname d =? nm then Some (sfields d) else find_def r nm
  end.

(* fuel bounds the by-value nesting depth; undefined (None) for undefined names and for
   definitions that contain themselves by value.  Monotone in fuel ([c_struct_sa_mono]). *)
Fixpoint c_struct_sa (fuel : nat) (E : list sdef) (nm : N) : option (N * N) :=
  match fuel with
  | O => None
  | S f =>
      match find_def E nm with
      | None => None
      | Some fs =>
          match seq_opt (map (ty_sa (c_struct_sa f E)) fs) with
          | Some ms => let '(_, s, a) := c_struct_of ms in Some (s, a)
          | None => None
          end
      end
  end.

(* (offsets, sizeof, _Alignof) of a struct with these fields in environment E *)
Definition c_struct (fuel : nat) (E : list sdef) (fs : list ty) : option (list N * N * N) :=
  match seq_opt (map (ty_sa (c_struct_sa fuel E)) fs) with
  | Some ms => Some (c_struct_of ms)
  | None => None
  end.

(* ---- the domain of the property *)
(* a well-formed environment = a C translation unit of complete struct types: names are unique,
   every struct contained by value is defined, and containment by value is well-founded *)
Record wf_env (E : list sdef) : Prop := {
  wf_names : NoDup (map sname E);
  wf_defined : forall d t nm, In d E -> In t (sfields d) -> field_dep t = Some nm -> In nm (map sname E);
  wf_acyclic : exists rank : N -> nat, forall d t nm, In d E -> In t (sfields d) -> field_dep t = Some nm ->
                 (rank nm < rank (sname d))%nat }.

(* every struct contained by value (directly or inside arrays) is defined *)
Definition all_defined (E : list sdef) : Prop :=
  forall d t nm, In d E -> In t (sfields d) -> field_dep t = Some nm -> In nm (map sname E).

(* containment by value is not well-founded: there is a non-empty set of struct names each of
   which is defined with a field that contains (directly or inside arrays) a member of the set *)
Definition byvalue_cycle (E : list sdef) : Prop :=
  exists C : N -> Prop, (exists nm, C nm) /\
    forall nm, C nm -> exists d t nm', In d E /\ sname d = nm /\ In t (sfields d) /\ field_dep t = Some nm' /\ C nm'.

(* ---- what fits the implementation's u32 sizes: every array (at any nesting depth inside a
   field type) and every struct is smaller than 2^32 bytes.  Definitions that do not fit are
   diagnosed (LayoutError::TooLarge), never laid out. *)
Fixpoint ty_fits (sl : N -> option (N * N)) (t : ty) : bool :=
  match t with
  | TArray t' n => ty_fits sl t' && match ty_sa sl t with Some (s, _) => s <? W32 | None => false end
  | _ => true
  end.
Definition struct_fits (fuel : nat) (E : list sdef) (d : sdef) : Prop :=
  (forall t, In t (sfields d) -> ty_fits (c_struct_sa fuel E) t = true) /\
  exists cos s a, c_struct fuel E (sfields d) = Some (cos, s, a) /\ s < W32.
Definition env_fits (E : list sdef) : Prop := forall d, In d E -> exists fuel, struct_fits fuel E d.
