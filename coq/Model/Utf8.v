(* C20 -- UTF-8 strings as the VM sees them: a string object is a *byte* list
   (bytecode/src/object/string.rs: Box<[u8]>, `as_str` = from_utf8_unchecked), and three
   separate code paths re-derive character boundaries from the bytes:

     StringForLoop  (runtime/src/vm/dispatch/ops/control_flow.inc, op 177)
        if byte_offset < s.len() { ch = s[byte_offset..].chars().next();
                                   item = ch.encode_utf8(); byte_offset += ch.len_utf8() }
     StringLoadChar (runtime/src/vm/dispatch/ops/arrays.inc, op 176)
        idx < 0 => IndexOutOfBounds ; s.chars().nth(idx) => encode_utf8 | IndexOutOfBounds
     len            (stdlib/string.rs native_len, op 161 VecLen on a string) = s.len()  (BYTES)
     char_len       (stdlib/string.rs native_char_len)                       = s.chars().count()

   Bytes and scalar values are N.  The decoder is Rust's `next_code_point`
   (core::str::validations), which trusts its input: the number of bytes it consumes depends
   on the FIRST byte only, while the for-loop advances by `len_utf8` of the DECODED scalar.
   `x & 0x1F` is written `x mod 32`, `(a << 6) | (b & 0x3F)` as `a * 64 + b mod 64` (equal for
   bytes; the tie checks the arithmetic form against the real functions on every run). *)
From Coq Require Import NArith ZArith Bool List.
Import ListNotations.
Local Open Scope N_scope.

Definition valid_scalar (c : N) : bool :=
  (c <? 0xD800) || ((0xDFFF <? c) && (c <=? 0x10FFFF)).

(* char::len_utf8 *)
Definition len_utf8 (c : N) : nat :=
  if c <? 0x80 then 1%nat else if c <? 0x800 then 2%nat else if c <? 0x10000 then 3%nat else 4%nat.

(* char::encode_utf8 *)
Definition encode (c : N) : list N :=
  if c <? 0x80 then [c]
  else if c <? 0x800 then [0xC0 + c / 64; 0x80 + c mod 64]
  else if c <? 0x10000 then [0xE0 + c / 4096; 0x80 + (c / 64) mod 64; 0x80 + c mod 64]
  else [0xF0 + c / 262144; 0x80 + (c / 4096) mod 64; 0x80 + (c / 64) mod 64; 0x80 + c mod 64].

(* next_code_point on the remaining bytes: Some (scalar, bytes consumed); None at the end of
   the slice (running out in the middle of a sequence cannot happen for valid UTF-8; the model
   answers None there) *)
Definition decode_first (s : list N) : option (N * nat) :=
  match s with
  | [] => None
  | x :: r =>
      if x <? 128 then Some (x, 1%nat)
      else
        match r with
        | [] => None
        | y :: r2 =>
            let init := x mod 32 in
            if x <? 0xE0 then Some (init * 64 + y mod 64, 2%nat)
            else
              match r2 with
              | [] => None
              | z :: r3 =>
                  let yz := (y mod 64) * 64 + z mod 64 in
                  if x <? 0xF0 then Some (init * 4096 + yz, 3%nat)
                  else
                    match r3 with
                    | [] => None
                    | w :: _ => Some ((init mod 8) * 262144 + (yz * 64 + w mod 64), 4%nat)
                    end
              end
        end
  end.

(* str::chars() collected: repeated next_code_point.  Fuel = number of bytes is always enough
   (every step consumes at least one byte: Proofs/Utf8Proofs.chars_fuel_enough). *)
Fixpoint chars_fuel (fuel : nat) (s : list N) : list N :=
  match fuel with
  | O => []
  | S k =>
      match decode_first s with
      | None => []
      | Some (c, w) => c :: chars_fuel k (skipn w s)
      end
  end.
Definition chars (s : list N) : list N := chars_fuel (length s) s.

(* ---- the VM paths *)
Definition byte_len (s : list N) : nat := length s.
Definition char_len (s : list N) : nat := length (chars s).

(* one execution of StringForLoop with the offset register = off:
   Some (item, new offset) = loop body runs with `item`; None = loop exits *)
Definition for_loop_step (s : list N) (off : nat) : option (list N * nat) :=
  if (off <? length s)%nat then
    match decode_first (skipn off s) with
    | Some (ch, _) => Some (encode ch, (off + len_utf8 ch)%nat)
    | None => None
    end
  else None.

Record iter_result := { items : list (list N); final_off : nat; finished : bool }.

(* the whole loop from offset `off`; finished = false means the fuel ran out *)
Fixpoint iterate (fuel : nat) (s : list N) (off : nat) : iter_result :=
  match fuel with
  | O => {| items := []; final_off := off; finished := false |}
  | S k =>
      match for_loop_step s off with
      | None => {| items := []; final_off := off; finished := true |}
      | Some (it, off') =>
          let r := iterate k s off' in
          {| items := it :: items r; final_off := final_off r; finished := finished r |}
      end
  end.
(* every executed StringForLoop consumes at least one byte, so |s| + 1 rounds suffice *)
Definition for_each (s : list N) : iter_result := iterate (S (length s)) s 0.

(* Which loop opcode the compiler selected: StringForLoop when it typed the iterable as
   string (backend/src/compiler/stmt/looping.rs compile_typed_for_each), VecForLoop when the
   static type is Dynamic / an unresolved variable.  Since 8e1534c the VecForLoop arm
   (control_flow.inc op 178) dispatches on the object kind; for a string object its index
   register holds the byte offset and it does what StringForLoop does:
        index < s.len() => ch = s[index..].chars().next(); item = ch.encode_utf8();
                           index += ch.len_utf8()
   (before that commit the arm continued only for ObjectKind::Vec and a string yielded nothing:
   old_vec_for_loop_on_string in Proofs/Utf8Proofs.v). *)
Inductive sel := SelString | SelDynamic.
Definition vec_for_loop_step_on_string (s : list N) (index : nat) : option (list N * nat) :=
  if (index <? length s)%nat then
    match decode_first (skipn index s) with
    | Some (ch, _) => Some (encode ch, (index + len_utf8 ch)%nat)
    | None => None
    end
  else None.
Fixpoint iterate_dyn (fuel : nat) (s : list N) (off : nat) : iter_result :=
  match fuel with
  | O => {| items := []; final_off := off; finished := false |}
  | S k =>
      match vec_for_loop_step_on_string s off with
      | None => {| items := []; final_off := off; finished := true |}
      | Some (it, off') =>
          let r := iterate_dyn k s off' in
          {| items := it :: items r; final_off := final_off r; finished := finished r |}
      end
  end.
Definition vm_for_each (k : sel) (s : list N) : iter_result :=
  match k with
  | SelString => for_each s
  | SelDynamic => iterate_dyn (S (length s)) s 0
  end.
(* The dynamic selections for indexing (VecLoadP, arrays.inc op 167) and len (VecLen, op 161)
   have a String arm that is the same code as StringLoadChar / string::len: load_char and
   byte_len below model both selections. *)

Inductive load_result := LoadOk (item : list N) | LoadIndexOutOfBounds.

Definition load_char (s : list N) (i : Z) : load_result :=
  if (i <? 0)%Z then LoadIndexOutOfBounds
  else match nth_error (chars s) (Z.to_nat i) with
       | Some ch => LoadOk (encode ch)
       | None => LoadIndexOutOfBounds
       end.

(* the string object built from a sequence of scalars *)
Definition utf8 (cs : list N) : list N := concat (map encode cs).

Fixpoint sum_nat (l : list nat) : nat := match l with [] => O | x :: r => (x + sum_nat r)%nat end.
