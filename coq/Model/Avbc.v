(* Model of the .avbc binary codec, bytecode/src/asm/binary.rs, as implemented.
   Definitions only.

   func mirrors aelys_bytecode::Function with constants resolved through the heap the way
   write_constant resolves them (a pointer to a heap string is CStr, any other pointer CPtr).
   Bytes and words are N.  Field order and widths are the ones tools/extractors/c08.py
   recognises in write_function/read_function (it fails when they change); magic, version,
   limits, which limit guards which count, writer tags, reader tags and the opcode numbers of
   the cache-stripping loop are data from Extracted/AvbcLayout.v.

   The reader is written in a state monad over (remaining input, capacity requested so
   far): every Vec::with_capacity / vec![0u8; n] of the Rust reader adds its request, so that
   "how much does the reader ask the allocator for" is a function of the input (C07). *)
From Coq Require Import NArith ZArith Bool List.
From Aelys Require Import Extracted.ValueConsts Extracted.AvbcLayout Model.Value.
Import ListNotations.
Local Open Scope N_scope.

(* ------------------------------------------------------------------ data *)
Inductive const :=
| CNull
| CBool (b : bool)
| CInt (z : Z)            (* as_int: sign-extended 48-bit payload *)
| CFloat (bits : N)       (* f64 bit pattern *)
| CStr (s : list N)       (* pointer to a heap string: its UTF-8 bytes *)
| CFunc (i : N)           (* nested function marker *)
| CPtr (p : N).           (* any other pointer payload *)

Inductive func :=
| Func (name : option (list N)) (arity nregs : N) (call_sites : N)
       (consts : list const) (code : list N) (nested : list func)
       (upvals : list (bool * N)) (lines : list (N * N)) (globals : list (list N)).

Definition f_name f := match f with Func x _ _ _ _ _ _ _ _ _ => x end.
Definition f_arity f := match f with Func _ x _ _ _ _ _ _ _ _ => x end.
Definition f_nregs f := match f with Func _ _ x _ _ _ _ _ _ _ => x end.
Definition f_call_sites f := match f with Func _ _ _ x _ _ _ _ _ _ => x end.
Definition f_consts f := match f with Func _ _ _ _ x _ _ _ _ _ => x end.
Definition f_code f := match f with Func _ _ _ _ _ x _ _ _ _ => x end.
Definition f_nested f := match f with Func _ _ _ _ _ _ x _ _ _ => x end.
Definition f_upvals f := match f with Func _ _ _ _ _ _ _ x _ _ => x end.
Definition f_lines f := match f with Func _ _ _ _ _ _ _ _ x _ => x end.
Definition f_globals f := match f with Func _ _ _ _ _ _ _ _ _ x => x end.

Fixpoint lenN {A} (l : list A) : N :=
  match l with [] => 0 | _ :: r => N.succ (lenN r) end.

(* ------------------------------------------------------------------ little-endian integers *)
Fixpoint le_bytes (k : nat) (v : N) : list N :=
  match k with O => [] | S k' => (v mod 256) :: le_bytes k' (v / 256) end.
Fixpoint le_val (bs : list N) : N :=
  match bs with [] => 0 | b :: r => b + 256 * le_val r end.

Definition W8 : N := 256.
Definition W16 : N := 65536.
Definition W32 : N := 4294967296.
Definition W48 : N := 281474976710656.

(* errors of the writer's validation (BinaryError::LimitExceeded{what} / InvalidNestedFunctionIndex) *)
Inductive err_w := WLimit (what : N) | WNestedIdx.

(* ------------------------------------------------------------------ writer *)
Definition write_str16 (s : list N) : list N := le_bytes 2 (lenN s) ++ s.   (* len as u16: truncates *)

Definition write_name (n : option (list N)) : list N :=
  match n with Some s => write_str16 s | None => le_bytes 2 0 end.

Definition write_const (c : const) : list N :=
  match c with
  | CNull => [TAGW_NULL]
  | CBool b => [TAGW_BOOL; if b then 1 else 0]
  | CInt z => TAGW_INT :: le_bytes 8 (u64_of_i64 z)
  | CFloat b => TAGW_FLOAT :: le_bytes 8 b
  | CStr s => TAGW_STRING :: le_bytes 4 (lenN s) ++ s
  | CFunc i => TAGW_FUNC :: le_bytes 4 i
  | CPtr p => TAGW_PTR :: le_bytes 8 p
  end.

(* the bytecode loop of write_function: what each word becomes.  skip = cache words still to zero *)
Definition opcode_of (w : N) : N := (w / 16777216) mod 256.         (* (instr >> 24) as u8 *)
Fixpoint norm_code (skip : N) (ws : list N) : list N :=
  match ws with
  | [] => []
  | w :: r =>
      if 0 <? skip then 0 :: norm_code (skip - 1) r
      else if opcode_of w =? OP_MONO
           then N.lor (N.land w 16777215) (OP_REWRITE * 16777216) :: norm_code SKIP_MONO r
      else if opcode_of w =? OP_CG then w :: norm_code SKIP_CG r
      else w :: norm_code 0 r
  end.

Fixpoint count_functions (f : func) : N :=
  match f with
  | Func _ _ _ _ _ _ nested _ _ _ => 1 + fold_right (fun g acc => count_functions g + acc) 0 nested
  end.

Definition write_upval (u : bool * N) : list N :=
  le_bytes 1 (if fst u then 1 else 0) ++ le_bytes 1 (snd u).
Definition write_line (l : N * N) : list N := le_bytes 2 (fst l) ++ le_bytes 4 (snd l).

Fixpoint write_func (f : func) : list N :=
  match f with
  | Func name arity nregs _ consts code nested upvals lines globals =>
      write_name name
      ++ le_bytes 1 arity ++ le_bytes 1 nregs
      ++ le_bytes 2 (lenN consts) ++ flat_map write_const consts
      ++ le_bytes 4 (lenN code) ++ flat_map (le_bytes 4) (norm_code 0 code)
      ++ le_bytes 2 (lenN nested) ++ flat_map write_func nested
      ++ le_bytes 2 (lenN upvals)
      ++ flat_map write_upval upvals
      ++ le_bytes 2 (lenN lines)
      ++ flat_map write_line lines
      ++ le_bytes 2 (lenN globals) ++ flat_map write_str16 globals
  end.

Definition write_bytes (f : func) : list N :=
  MAGIC ++ le_bytes 2 VERSION ++ le_bytes 2 0 ++ le_bytes 4 (count_functions f) ++ le_bytes 4 0
  ++ write_func f.

(* ---- check_function: what try_serialize refuses to write, in the code's order *)
Definition lim_err (n lim what : N) : option err_w := if lim <? n then Some (WLimit what) else None.
Fixpoint first_err (l : list (option err_w)) : option err_w :=
  match l with [] => None | Some e :: _ => Some e | None :: r => first_err r end.
Definition name_len (n : option (list N)) : N := match n with Some s => lenN s | None => 0 end.
Definition wcheck_const (nn : N) (c : const) : option err_w :=
  match c with
  | CFunc i => if nn <=? i then Some WNestedIdx else None
  | CStr s => lim_err (lenN s) WLIM_STRING_LEN 9
  | _ => None
  end.
Fixpoint wcheck (d : N) (f : func) : option err_w :=
  match f with
  | Func name arity nregs _ consts code nested upvals lines globals =>
      first_err
        [ lim_err d WLIM_DEPTH 0;
          lim_err (name_len name) WLIM_NAME_LEN 1;
          lim_err (lenN consts) WLIM_CONSTS 2;
          lim_err (lenN code) WLIM_CODE 3;
          lim_err (lenN nested) WLIM_NESTED 4;
          lim_err (lenN upvals) WLIM_UPVALS 5;
          lim_err (lenN lines) WLIM_LINES 6;
          lim_err (lenN globals) WLIM_GLOBALS 7;
          first_err (map (fun g => lim_err (lenN g) WLIM_GLOBAL_NAME_LEN 8) globals);
          first_err (map (wcheck_const (lenN nested)) consts);
          first_err (map (wcheck (d + 1)) nested) ]
  end.

(* try_serialize *)
Inductive wres := WOk (bs : list N) | WErr (e : err_w).
Definition write (f : func) : wres :=
  match wcheck 0 f with Some e => WErr e | None => WOk (write_bytes f) end.

(* what the writer deliberately changes (and what the format does not store) *)
Definition norm_name (n : option (list N)) : option (list N) :=
  match n with Some [] => None | x => x end.
Fixpoint normalize (f : func) : func :=
  match f with
  | Func name arity nregs _ consts code nested upvals lines globals =>
      Func (norm_name name) arity nregs 0 consts (norm_code 0 code) (map normalize nested)
           upvals lines globals
  end.

(* ------------------------------------------------------------------ reader monad *)
Inductive err :=
| EEof | EMagic | EVersion | EConstTag | ENestedIdx | EUtf8 | EUtf8Global
| ELimit (what : N)        (* 0 depth 1 name 2 consts 3 code 4 nested 5 upvals 6 lines 7 globals 8 global-name 9 string *)
| EPtr                     (* InvalidPointer *)
| EFuel.

(* s_alloc: sum of the capacities requested so far; s_max: largest single request so far *)
Record st := St { s_in : list N; s_alloc : N; s_max : N }.
Inductive res (A : Type) :=
| Ok (a : A) (s : st)
| Err (e : err) (alloc mx : N)
| Crash (alloc mx : N).     (* debug_assert! failure (only with debug assertions on) *)
Arguments Ok {A}. Arguments Err {A}. Arguments Crash {A}.
Definition M (A : Type) := st -> res A.

Definition ret {A} (a : A) : M A := fun s => Ok a s.
Definition bind {A B} (m : M A) (k : A -> M B) : M B :=
  fun s => match m s with Ok a s' => k a s' | Err e al mx => Err e al mx | Crash al mx => Crash al mx end.
Definition fail {A} (e : err) : M A := fun s => Err e (s_alloc s) (s_max s).
Definition crash {A} : M A := fun s => Crash (s_alloc s) (s_max s).
Definition alloc (n : N) : M unit :=
  fun s => Ok tt (St (s_in s) (s_alloc s + n) (N.max (s_max s) n)).

Fixpoint take_n (n : N) (bs : list N) : option (list N * list N) :=
  if n =? 0 then Some ([], bs)
  else match bs with
       | [] => None
       | b :: r => match take_n (n - 1) r with Some (h, t) => Some (b :: h, t) | None => None end
       end.

(* cursor.read_exact into a buffer that already exists *)
Definition rd_exact (n : N) : M (list N) :=
  fun s => match take_n n (s_in s) with
           | Some (h, t) => Ok h (St t (s_alloc s) (s_max s))
           | None => Err EEof (s_alloc s) (s_max s)
           end.
Definition rd_le (k : nat) : M N := bind (rd_exact (N.of_nat k)) (fun h => ret (le_val h)).
(* vec![0u8; n] then read_exact *)
Definition rd_bytes (n : N) : M (list N) := bind (alloc n) (fun _ => rd_exact n).

Fixpoint rd_list {A} (k : nat) (elem : M A) : M (list A) :=
  match k with
  | O => ret []
  | S k' => bind elem (fun a => bind (rd_list k' elem) (fun r => ret (a :: r)))
  end.
(* Vec::with_capacity(n) of elements of esz bytes, then n pushes *)
Definition rd_vec {A} (esz n : N) (elem : M A) : M (list A) :=
  bind (alloc (esz * n)) (fun _ => rd_list (N.to_nat n) elem).

Definition check_limit (n lim what : N) : M unit :=
  if lim <? n then fail (ELimit what) else ret tt.

(* size_of of the element types (nominal; hx_avbc checks the real size_of is not larger) *)
Definition SZ_VALUE : N := 8.
Definition SZ_WORD : N := 4.
Definition SZ_FUNC : N := 256.
Definition SZ_UPVAL : N := 2.
Definition SZ_LINE : N := 8.
Definition SZ_STRING : N := 24.

(* ------------------------------------------------------------------ UTF-8 (String::from_utf8) *)
Definition in_rng (lo hi b : N) : bool := (lo <=? b) && (b <=? hi).
Definition cont (b : N) : bool := in_rng 128 191 b.
Fixpoint utf8_valid (bs : list N) : bool :=
  match bs with
  | [] => true
  | b0 :: r =>
      if b0 <? 128 then utf8_valid r
      else if in_rng 194 223 b0 then
        match r with b1 :: r1 => cont b1 && utf8_valid r1 | _ => false end
      else if in_rng 224 239 b0 then
        match r with
        | b1 :: b2 :: r2 =>
            (if b0 =? 224 then in_rng 160 191 b1 else if b0 =? 237 then in_rng 128 159 b1 else cont b1)
            && cont b2 && utf8_valid r2
        | _ => false
        end
      else if in_rng 240 244 b0 then
        match r with
        | b1 :: b2 :: b3 :: r3 =>
            (if b0 =? 240 then in_rng 144 191 b1 else if b0 =? 244 then in_rng 128 143 b1 else cont b1)
            && cont b2 && cont b3 && utf8_valid r3
        | _ => false
        end
      else false
  end.

(* ------------------------------------------------------------------ constants *)
(* the abstraction of a Value word into a const (strings cannot arise from a bare word) *)
Definition const_of_word (w : N) : const :=
  if is_null w then CNull
  else match as_bool w with
       | Some b => CBool b
       | None =>
           match as_int w with
           | Some z => CInt z
           | None =>
               if is_float w then CFloat w
               else match as_nested w with
                    | Some i => CFunc i
                    | None => match as_ptr w with Some p => CPtr p | None => CNull end
                    end
           end
       end.

Definition rd_const (dbg : bool) : M const :=
  bind (rd_le 1) (fun tag =>
    if tag =? TAGR_NULL then ret CNull
    else if tag =? TAGR_BOOL then bind (rd_le 1) (fun b => ret (CBool (negb (b =? 0))))
    else if tag =? TAGR_INT then
      bind (rd_le 8) (fun v => ret (const_of_word (v_int (i64_of_u64 v))))      (* Value::int(n) *)
    else if tag =? TAGR_FLOAT then
      bind (rd_le 8) (fun v => ret (const_of_word (v_float v)))                  (* Value::float(f) *)
    else if tag =? TAGR_STRING then
      bind (rd_le 4) (fun n =>
      bind (check_limit n LIM_STRING_LEN 9) (fun _ =>
      bind (rd_bytes n) (fun bs => if utf8_valid bs then ret (CStr bs) else fail EUtf8)))
    else if tag =? TAGR_FUNC then
      bind (rd_le 4) (fun i => ret (const_of_word (v_nested i)))                 (* idx < 2^32 *)
    else if tag =? TAGR_PTR then
      bind (rd_le 8) (fun p =>
        (* payloads a NaN-boxed pointer cannot hold are rejected (since /repo 119b2d8; before,
           Value::ptr's debug_assert panicked and release ORed the high bits into the tag) *)
        if LIM_PTR <? p then fail EPtr else ret (CPtr p))
    else fail EConstTag).

Definition marker_bad (nn : N) (c : const) : bool :=
  match c with CFunc i => nn <=? i | _ => false end.
Definition check_markers (cs : list const) (nn : N) : M unit :=
  if existsb (marker_bad nn) cs then fail ENestedIdx else ret tt.

(* ------------------------------------------------------------------ read_function *)
Definition rd_name : M (option (list N)) :=
  bind (rd_le 2) (fun n =>
  bind (check_limit n LIM_NAME_LEN 1) (fun _ =>
  if 0 <? n then bind (rd_bytes n) (fun bs => if utf8_valid bs then ret (Some bs) else fail EUtf8)
  else ret None)).

Definition rd_gname : M (list N) :=
  bind (rd_le 2) (fun n =>
  bind (check_limit n LIM_GLOBAL_NAME_LEN 8) (fun _ =>
  if 0 <? n then bind (rd_bytes n) (fun bs => if utf8_valid bs then ret bs else fail EUtf8Global)
  else ret [])).

Definition rd_upval : M (bool * N) :=
  bind (rd_le 1) (fun l => bind (rd_le 1) (fun i => ret (negb (l =? 0), i))).
Definition rd_line : M (N * N) :=
  bind (rd_le 2) (fun c => bind (rd_le 4) (fun l => ret (c, l))).

Fixpoint rd_func (dbg : bool) (fuel : nat) (depth : N) : M func :=
  match fuel with
  | O => fail EFuel
  | S fuel' =>
      bind (check_limit depth LIM_DEPTH 0) (fun _ =>
      bind rd_name (fun name =>
      bind (rd_le 1) (fun arity =>
      bind (rd_le 1) (fun nregs =>
      bind (rd_le 2) (fun nc =>
      bind (check_limit nc LIM_CONSTS 2) (fun _ =>
      bind (rd_vec SZ_VALUE nc (rd_const dbg)) (fun consts =>
      bind (rd_le 4) (fun nb =>
      bind (check_limit nb LIM_CODE 3) (fun _ =>
      bind (rd_vec SZ_WORD nb (rd_le 4)) (fun code =>
      bind (rd_le 2) (fun nn =>
      bind (check_limit nn LIM_NESTED 4) (fun _ =>
      bind (check_markers consts nn) (fun _ =>
      bind (rd_vec SZ_FUNC nn (rd_func dbg fuel' (depth + 1))) (fun nested =>
      bind (rd_le 2) (fun nu =>
      bind (check_limit nu LIM_UPVALS 5) (fun _ =>
      bind (rd_vec SZ_UPVAL nu rd_upval) (fun upvals =>
      bind (rd_le 2) (fun nl =>
      bind (check_limit nl LIM_LINES 6) (fun _ =>
      bind (rd_vec SZ_LINE nl rd_line) (fun lines =>
      bind (rd_le 2) (fun ng =>
      bind (check_limit ng LIM_GLOBALS 7) (fun _ =>
      bind (rd_vec SZ_STRING ng rd_gname) (fun globals =>
      ret (Func name arity nregs 0 consts code nested upvals lines globals))))))))))))))))))))))))
  end.

Fixpoint list_eqbN (a b : list N) : bool :=
  match a, b with
  | [], [] => true
  | x :: a', y :: b' => (x =? y) && list_eqbN a' b'
  | _, _ => false
  end.

Definition read_fuel : nat := N.to_nat (LIM_DEPTH + 2).

Definition rd_program (dbg : bool) : M func :=
  bind (rd_exact 4) (fun m =>
  if list_eqbN m MAGIC then
    bind (rd_le 2) (fun v =>
    if v =? VERSION then
      bind (rd_le 2) (fun _ => bind (rd_le 4) (fun _ => bind (rd_le 4) (fun _ =>
      rd_func dbg read_fuel 0)))
    else fail EVersion)
  else fail EMagic).

Inductive result := ROk (f : func) | RErr (e : err) | RCrash.

(* deserialize: dbg = debug assertions on (dev profile) / off (release) *)
Definition read (dbg : bool) (bs : list N) : result :=
  match rd_program dbg (St bs 0 0) with
  | Ok f _ => ROk f
  | Err e _ _ => RErr e
  | Crash _ _ => RCrash
  end.

(* total capacity the reader requested while reading bs, whatever the outcome *)
Definition read_alloc (dbg : bool) (bs : list N) : N :=
  match rd_program dbg (St bs 0 0) with
  | Ok _ s => s_alloc s
  | Err _ a _ => a
  | Crash a _ => a
  end.

(* the largest single capacity request made while reading bs *)
Definition read_max_request (dbg : bool) (bs : list N) : N :=
  match rd_program dbg (St bs 0 0) with
  | Ok _ s => s_max s
  | Err _ _ m => m
  | Crash _ m => m
  end.

(* ------------------------------------------------------------------ well-formedness *)
Definition int48 (z : Z) : Prop := (-140737488355328 <= z < 140737488355328)%Z.

(* facts the Rust types guarantee for any Function value *)
Definition const_typed (c : const) : Prop :=
  match c with
  | CNull | CBool _ => True
  | CInt z => int48 z
  | CFloat b => b < W64 /\ v_float b = b /\ is_float b = true
  | CStr s => utf8_valid s = true
  | CFunc i => i < W48
  | CPtr p => p < W48
  end.

Definition name_typed (n : option (list N)) : Prop :=
  match n with Some s => utf8_valid s = true | None => True end.

Fixpoint in_types (f : func) : Prop :=
  match f with
  | Func name arity nregs cs consts code nested upvals lines globals =>
      name_typed name /\ arity < W8 /\ nregs < W8 /\ cs < W16
      /\ Forall const_typed consts
      /\ Forall (fun w => w < W32) code
      /\ fold_right (fun g acc => in_types g /\ acc) True nested
      /\ Forall (fun u => snd u < W8) upvals
      /\ Forall (fun l => fst l < W16 /\ snd l < W32) lines
      /\ Forall (fun g => utf8_valid g = true) globals
  end.

(* the sizes within which the format can represent a function at all *)
Definition const_sized (nn : N) (c : const) : Prop :=
  match c with
  | CStr s => lenN s < W32 /\ lenN s <= LIM_STRING_LEN
  | CFunc i => i < W32 /\ i < nn
  | _ => True
  end.

Definition name_sized (n : option (list N)) : Prop :=
  match n with Some s => lenN s < W16 /\ lenN s <= LIM_NAME_LEN | None => True end.

(* d = nesting depth at which the function sits (0 for the main function) *)
Fixpoint wf_sizes_at (d : N) (f : func) : Prop :=
  match f with
  | Func name arity nregs cs consts code nested upvals lines globals =>
      d <= LIM_DEPTH
      /\ name_sized name
      /\ lenN consts < W16 /\ lenN consts <= LIM_CONSTS
      /\ Forall (const_sized (lenN nested)) consts
      /\ lenN code < W32 /\ lenN code <= LIM_CODE
      /\ lenN nested < W16 /\ lenN nested <= LIM_NESTED
      /\ fold_right (fun g acc => wf_sizes_at (d + 1) g /\ acc) True nested
      /\ lenN upvals < W16 /\ lenN upvals <= LIM_UPVALS
      /\ lenN lines < W16 /\ lenN lines <= LIM_LINES
      /\ lenN globals < W16 /\ lenN globals <= LIM_GLOBALS
      /\ Forall (fun g => lenN g < W16 /\ lenN g <= LIM_GLOBAL_NAME_LEN) globals
  end.
Definition wf_sizes (f : func) : Prop := wf_sizes_at 0 f.

(* nesting height: 0 for a function without nested functions *)
Fixpoint height (f : func) : N :=
  match f with
  | Func _ _ _ _ _ _ nested _ _ _ => fold_right (fun g acc => N.max (1 + height g) acc) 0 nested
  end.
