(* Observation functions for the C08/C07 correspondence checks (hx_avbc, hx_fuzz): decoding of
   the harness's compact terms, boolean equalities, the string-table aliasing the reader's
   heap induces on raw pointer constants, and the big table-size cases.  Definitions only. *)
From Coq Require Import NArith ZArith Bool List String Ascii.
From Aelys Require Import Extracted.AvbcLayout Model.Value Model.Avbc.
Import ListNotations.
Local Open Scope N_scope.

(* ---- hex text -> bytes / u32 words *)
Definition hexval (c : ascii) : N :=
  let n := N_of_ascii c in
  if (48 <=? n) && (n <=? 57) then n - 48 else if (97 <=? n) && (n <=? 102) then n - 87 else 0.
Fixpoint hx (s : string) : list N :=
  match s with
  | String a (String b r) => (16 * hexval a + hexval b) :: hx r
  | _ => []
  end.
Fixpoint hw (s : string) : list N :=
  match s with
  | String a (String b (String c (String d (String e (String f (String g (String h r))))))) =>
      (((((((hexval a * 16 + hexval b) * 16 + hexval c) * 16 + hexval d) * 16 + hexval e) * 16
          + hexval f) * 16 + hexval g) * 16 + hexval h) :: hw r
  | _ => []
  end.

(* ---- boolean equalities *)
Definition const_eqb (a b : const) : bool :=
  match a, b with
  | CNull, CNull => true
  | CBool x, CBool y => Bool.eqb x y
  | CInt x, CInt y => (x =? y)%Z
  | CFloat x, CFloat y => x =? y
  | CStr x, CStr y => list_eqbN x y
  | CFunc x, CFunc y => x =? y
  | CPtr x, CPtr y => x =? y
  | _, _ => false
  end.
Fixpoint list_eqb {A} (e : A -> A -> bool) (a b : list A) : bool :=
  match a, b with
  | [], [] => true
  | x :: a', y :: b' => e x y && list_eqb e a' b'
  | _, _ => false
  end.
Definition opt_eqb {A} (e : A -> A -> bool) (a b : option A) : bool :=
  match a, b with Some x, Some y => e x y | None, None => true | _, _ => false end.

Fixpoint func_eqb (a b : func) {struct a} : bool :=
  match a, b with
  | Func n1 a1 r1 c1 k1 w1 f1 u1 l1 g1, Func n2 a2 r2 c2 k2 w2 f2 u2 l2 g2 =>
      opt_eqb list_eqbN n1 n2 && (a1 =? a2) && (r1 =? r2) && (c1 =? c2)
      && list_eqb const_eqb k1 k2 && list_eqbN w1 w2
      && (fix go (x y : list func) : bool :=
            match x, y with
            | [], [] => true
            | p :: x', q :: y' => func_eqb p q && go x' y'
            | _, _ => false
            end) f1 f2
      && list_eqb (fun p q => Bool.eqb (fst p) (fst q) && (snd p =? snd q)) u1 u2
      && list_eqb (fun p q => (fst p =? fst q) && (snd p =? snd q)) l1 l2
      && list_eqb list_eqbN g1 g2
  end.

Definition err_eqb (a b : err) : bool :=
  match a, b with
  | EEof, EEof | EMagic, EMagic | EVersion, EVersion | EConstTag, EConstTag
  | ENestedIdx, ENestedIdx | EUtf8, EUtf8 | EUtf8Global, EUtf8Global | EFuel, EFuel | EPtr, EPtr => true
  | ELimit x, ELimit y => x =? y
  | _, _ => false
  end.
Definition result_eqb (a b : result) : bool :=
  match a, b with
  | ROk f, ROk g => func_eqb f g
  | RErr x, RErr y => err_eqb x y
  | RCrash, RCrash => true
  | _, _ => false
  end.

(* ---- the reader's heap: strings interned in read order; a raw pointer constant whose
   payload is a live index of that heap is indistinguishable from the string it points to *)
Definition intern (tbl : list (list N)) (s : list N) : list (list N) :=
  if existsb (list_eqbN s) tbl then tbl else tbl ++ [s].
Fixpoint strs_func (f : func) (tbl : list (list N)) : list (list N) :=
  match f with
  | Func _ _ _ _ consts _ nested _ _ _ =>
      let t1 := fold_left (fun t c => match c with CStr s => intern t s | _ => t end) consts tbl in
      fold_left (fun t g => strs_func g t) nested t1
  end.
Definition alias_const (tbl : list (list N)) (c : const) : const :=
  match c with
  | CPtr p => if p <? lenN tbl then CStr (nth (N.to_nat p) tbl []) else CPtr p
  | x => x
  end.
Fixpoint alias_func (tbl : list (list N)) (f : func) : func :=
  match f with
  | Func n a r c consts w nested u l g =>
      Func n a r c (map (alias_const tbl) consts) w (map (alias_func tbl) nested) u l g
  end.
Definition alias (f : func) : func := alias_func (strs_func f []) f.
Definition alias_result (r : result) : result :=
  match r with ROk f => ROk (alias f) | x => x end.

(* ---- big table-size cases (constructed on both sides from (kind, n)) *)
Definition repN {A} (x : A) (n : N) : list A := N.iter n (cons x) [].
Definition leaf0 : func := Func None 0 0 0 [] [] [] [] [] [].
Definition big_case (kind n : N) : func :=
  match kind with
  | 0 => Func None 0 0 0 [] [] [] [] (repN (1, 0) n) []
  | 1 => Func None 0 0 0 [] [] [] [] [] (repN [] n)
  | 2 => Func None 0 0 0 (repN CNull n) [] [] [] [] []
  | 3 => Func None 0 0 0 [] [] (repN leaf0 n) [] [] []
  | 4 => Func None 0 0 0 [] [] [] (repN (true, 0) n) [] []
  | 5 => Func None 0 0 0 [] (repN 5 n) [] [] [] []
  | 6 => Func None 0 0 0 [CStr (repN 97 n)] [] [] [] [] []
  | 7 => Func (Some (repN 97 n)) 0 0 0 [] [] [] [] [] []
  | 8 => N.iter n (fun f => Func None 0 0 0 [] [] [f] [] [] []) leaf0
  | _ => Func None 0 0 0 [] [] [] [] [] [repN 97 n]
  end.

Definition errw_eqb (a b : err_w) : bool :=
  match a, b with WLimit x, WLimit y => x =? y | WNestedIdx, WNestedIdx => true | _, _ => false end.
Inductive bigv := BSame | BDiff | BErr (e : err) | BCrash | BWErr (e : err_w).
Definition bigv_eqb (a b : bigv) : bool :=
  match a, b with
  | BSame, BSame | BDiff, BDiff | BCrash, BCrash => true
  | BErr x, BErr y => err_eqb x y
  | BWErr x, BWErr y => errw_eqb x y
  | _, _ => false
  end.
Definition checksum (bs : list N) : N * N :=
  fold_left (fun st b => let s1 := (fst st + b) mod 4294967291 in (s1, (snd st + s1) mod 4294967291)) bs (0, 0).

(* ---- queries *)
Inductive query :=
| QW (f : func)                      (* serialize *)
| QN (f : func)                      (* deserialize after serialize *)
| QR (dbg : bool) (bs : list N)      (* deserialize of arbitrary bytes *)
| QB (dbg : bool) (kind n : N).
Inductive obs :=
| OBytes (bs : list N)
| OWErr (e : err_w)
| ORes (r : result)
| OBig (len s1 s2 : N) (v : bigv).

Definition run (q : query) : obs :=
  match q with
  | QW f => match write f with WOk bs => OBytes bs | WErr e => OWErr e end
  | QN f => ORes (alias_result (ROk (normalize f)))
  | QR dbg bs => ORes (alias_result (read dbg bs))
  | QB dbg kind n =>
      let f := big_case kind n in
      match write f with
      | WErr e => OBig 0 0 0 (BWErr e)
      | WOk bs =>
          let c := checksum bs in
          OBig (lenN bs) (fst c) (snd c)
               (match read dbg bs with
                | ROk g => if func_eqb g (normalize f) then BSame else BDiff
                | RErr e => BErr e
                | RCrash => BCrash
                end)
      end
  end.
Definition obs_eqb (a b : obs) : bool :=
  match a, b with
  | OBytes x, OBytes y => list_eqbN x y
  | OWErr x, OWErr y => errw_eqb x y
  | ORes x, ORes y => result_eqb x y
  | OBig l1 a1 b1 v1, OBig l2 a2 b2 v2 => (l1 =? l2) && (a1 =? a2) && (b1 =? b2) && bigv_eqb v1 v2
  | _, _ => false
  end.

(* accept / reject classification only (C07) *)
Definition accepts (dbg : bool) (bs : list N) : N :=
  match read dbg bs with ROk _ => 0 | RErr _ => 1 | RCrash => 2 end.
