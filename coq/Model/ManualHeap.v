(* Model of runtime/src/vm/manual_heap/{heap,alloc,access}.rs (ManualHeap) and of the two
   program-facing surfaces on top of it: the native builtins alloc/free/load/store
   (runtime/src/vm/builtins.rs) and the opcodes 28..33 (runtime/src/vm/dispatch/ops/memory.inc),
   both going through VM::manual_alloc / manual_free (runtime/src/vm/alloc.rs).
   Definitions only.  usize/u64 are 64 bits (x86_64 / aarch64 targets). *)
From Coq Require Import NArith ZArith Bool List.
From Aelys Require Import Extracted.ManualMem Model.Value.
Import ListNotations.
Local Open Scope N_scope.

Definition USIZE : N := 18446744073709551616.        (* 2^64 : usize and u64 wrap here *)
Definition value := N.                               (* a NaN-boxed word; the heap never inspects it *)
Definition VNULL : value := v_null.                  (* Value::null() of Model/Value.v (C12) *)

(* -------- lists indexed by N (usize); never converts an out-of-range N to nat -------- *)
Definition nth_N {A} (l : list A) (i : N) : option A :=
  if i <? N.of_nat (length l) then nth_error l (N.to_nat i) else None.

Fixpoint upd {A} (l : list A) (i : nat) (x : A) : list A :=
  match l, i with
  | [], _ => []
  | _ :: t, O => x :: t
  | h :: t, S k => h :: upd t k x
  end.
Definition upd_N {A} (l : list A) (i : N) (x : A) : list A := upd l (N.to_nat i) x.

(* -------- heap.rs -------- *)
Record mslot := { sl_data : list value; sl_freed : bool }.
Record mheap := { allocs : list mslot; free_list : list N (* head = top of the Vec used as a stack *);
                  bytes : N }.
Definition mh_empty : mheap := {| allocs := []; free_list := []; bytes := 0 |}.

Inductive mop :=
| MAlloc (n : N) | MFree (h : N) | MLoad (h off : N) | MStore (h off : N) (v : value) | MSize (h : N).

(* error kinds: ManualHeapError, and RuntimeErrorKind for the VM surfaces *)
Inductive ekind :=
| EInvalidSize      (* ManualHeapError::InvalidSize      -> InvalidAllocationSize *)
| EInvalidHandle    (* InvalidHandle                     -> InvalidMemoryHandle *)
| EDoubleFree | EUseAfterFree
| EOutOfBounds      (* OutOfBounds                       -> MemoryOutOfBounds *)
| ENegativeIndex    (* builtins only: NegativeMemoryIndex *)
| ETypeError        (* non-int / negative operand of an opcode, non-int operand of a builtin *)
| EOutOfMemory.     (* VM::manual_alloc / ensure_heap_capacity *)

Inductive mres :=
| ROkHandle (h : N) | ROkUnit | ROkVal (v : value) | ROkSize (n : N)
| RErr (e : ekind)
| RPanic.           (* index out of range inside the implementation; excluded by the invariant *)

Definition is_err (r : mres) : bool := match r with RErr _ => true | _ => false end.

(* error.rs: allocation_bytes = size.checked_mul(size_of::<Value>()) *)
Definition allocation_bytes (n : N) : option N :=
  let b := n * VALUE_SIZE in if b <? USIZE then Some b else None.

Definition sat_sub (a b : N) : N := if a <? b then 0 else a - b.     (* usize::saturating_sub *)

(* alloc.rs: ManualHeap::alloc (the charge is computed, with its overflow check, BEFORE the slot
   table and the free list are touched; the new total is stored after the slot is installed) *)
Definition mh_alloc (s : mheap) (n : N) : mheap * mres :=
  if n =? 0 then (s, RErr EInvalidSize) else
  match allocation_bytes n with
  | None => (s, RErr EInvalidSize)
  | Some b =>
      if negb (bytes s + b <? USIZE) then (s, RErr EInvalidSize) else        (* checked_add *)
      let slot := {| sl_data := repeat VNULL (N.to_nat n); sl_freed := false |} in
      let '(al, fl, h, ok) :=
        match free_list s with
        | idx :: rest =>
            (upd_N (allocs s) idx slot, rest, idx, idx <? N.of_nat (length (allocs s)))
        | [] => (allocs s ++ [slot], [], N.of_nat (length (allocs s)), true)
        end in
      if negb ok then (s, RPanic) else
      ({| allocs := al; free_list := fl; bytes := bytes s + b |}, ROkHandle h)
  end.

(* alloc.rs: ManualHeap::free *)
Definition mh_free (s : mheap) (h : N) : mheap * mres :=
  match nth_N (allocs s) h with
  | None => (s, RErr EInvalidHandle)
  | Some sl =>
      if sl_freed sl then (s, RErr EDoubleFree) else
      let b0 := N.of_nat (length (sl_data sl)) * VALUE_SIZE in
      let b := if b0 <? USIZE then b0 else 0 in                       (* checked_mul(..).unwrap_or(0) *)
      ({| allocs := upd_N (allocs s) h {| sl_data := []; sl_freed := true |};
          free_list := h :: free_list s;
          bytes := sat_sub (bytes s) b |}, ROkUnit)
  end.

(* access.rs *)
Definition mh_load (s : mheap) (h off : N) : mres :=
  match nth_N (allocs s) h with
  | None => RErr EInvalidHandle
  | Some sl =>
      if sl_freed sl then RErr EUseAfterFree else
      match nth_N (sl_data sl) off with
      | Some v => ROkVal v
      | None => RErr EOutOfBounds
      end
  end.

Definition mh_store (s : mheap) (h off : N) (v : value) : mheap * mres :=
  match nth_N (allocs s) h with
  | None => (s, RErr EInvalidHandle)
  | Some sl =>
      if sl_freed sl then (s, RErr EUseAfterFree) else
      if N.of_nat (length (sl_data sl)) <=? off then (s, RErr EOutOfBounds) else
      ({| allocs := upd_N (allocs s) h {| sl_data := upd_N (sl_data sl) off v; sl_freed := false |};
          free_list := free_list s; bytes := bytes s |}, ROkUnit)
  end.

Definition mh_size (s : mheap) (h : N) : mres :=
  match nth_N (allocs s) h with
  | None => RErr EInvalidHandle
  | Some sl => if sl_freed sl then RErr EUseAfterFree else ROkSize (N.of_nat (length (sl_data sl)))
  end.

Definition mh_step (s : mheap) (o : mop) : mheap * mres :=
  match o with
  | MAlloc n => mh_alloc s n
  | MFree h => mh_free s h
  | MLoad h off => (s, mh_load s h off)
  | MStore h off v => mh_store s h off v
  | MSize h => (s, mh_size s h)
  end.

(* a history: final state and the result of every step, in order *)
Fixpoint mh_run (s : mheap) (os : list mop) : mheap * list mres :=
  match os with
  | [] => (s, [])
  | o :: r => let '(s1, x) := mh_step s o in let '(s2, xs) := mh_run s1 r in (s2, x :: xs)
  end.
Definition mh_exec (s : mheap) (os : list mop) : mheap := fold_left (fun st o => fst (mh_step st o)) os s.

(* the buffer an operation names (allocation names none) *)
Definition op_target (o : mop) : option N :=
  match o with MAlloc _ => None | MFree h | MLoad h _ | MStore h _ _ | MSize h => Some h end.

(* ------------------------------------------------------------------------------------------
   The abstract specification: a finite map  handle -> array  of the LIVE buffers, plus the set of
   handles ever issued (only needed to tell "stale" from "never issued" in the error kind). *)
Definition smap := list (N * list value).
Record spec := { live : smap; issued : list N }.
Definition sp_empty : spec := {| live := []; issued := [] |}.

Fixpoint sm_get (m : smap) (h : N) : option (list value) :=
  match m with
  | [] => None
  | (k, d) :: r => if k =? h then Some d else sm_get r h
  end.
Fixpoint sm_remove (m : smap) (h : N) : smap :=
  match m with
  | [] => []
  | (k, d) :: r => if k =? h then sm_remove r h else (k, d) :: sm_remove r h
  end.
Definition sm_set (m : smap) (h : N) (d : list value) : smap := (h, d) :: sm_remove m h.
Fixpoint sm_total (m : smap) : N :=
  match m with [] => 0 | (_, d) :: r => N.of_nat (length d) + sm_total r end.
Definition mem_N (h : N) (l : list N) : bool := existsb (N.eqb h) l.

Definition dead_kind (sp : spec) (h : N) (stale : ekind) : ekind :=
  if mem_N h (issued sp) then stale else EInvalidHandle.

(* [hint] is the implementation's answer; the specification only uses it to learn WHICH fresh
   handle an allocation chose (any handle that is not live is acceptable) and answers RPanic
   (= "not allowed by the specification") when the choice is not fresh. *)
Definition spec_step (sp : spec) (o : mop) (hint : mres) : spec * mres :=
  match o with
  | MAlloc n =>
      (* zero size, or a total charge that does not fit a usize *)
      if (n =? 0) || (USIZE <=? n * VALUE_SIZE) || (USIZE <=? (sm_total (live sp) + n) * VALUE_SIZE)
      then (sp, RErr EInvalidSize) else
      match hint with
      | ROkHandle h =>
          match sm_get (live sp) h with
          | None => ({| live := (h, repeat VNULL (N.to_nat n)) :: live sp; issued := h :: issued sp |}, ROkHandle h)
          | Some _ => (sp, RPanic)
          end
      | _ => (sp, RPanic)
      end
  | MFree h =>
      match sm_get (live sp) h with
      | Some _ => ({| live := sm_remove (live sp) h; issued := issued sp |}, ROkUnit)
      | None => (sp, RErr (dead_kind sp h EDoubleFree))
      end
  | MLoad h off =>
      match sm_get (live sp) h with
      | Some d => (sp, match nth_N d off with Some v => ROkVal v | None => RErr EOutOfBounds end)
      | None => (sp, RErr (dead_kind sp h EUseAfterFree))
      end
  | MStore h off v =>
      match sm_get (live sp) h with
      | Some d =>
          if off <? N.of_nat (length d)
          then ({| live := sm_set (live sp) h (upd_N d off v); issued := issued sp |}, ROkUnit)
          else (sp, RErr EOutOfBounds)
      | None => (sp, RErr (dead_kind sp h EUseAfterFree))
      end
  | MSize h =>
      match sm_get (live sp) h with
      | Some d => (sp, ROkSize (N.of_nat (length d)))
      | None => (sp, RErr (dead_kind sp h EUseAfterFree))
      end
  end.

Fixpoint spec_run (sp : spec) (os : list mop) (hints : list mres) : spec * list mres :=
  match os, hints with
  | o :: r, x :: xs =>
      let '(sp1, y) := spec_step sp o x in let '(sp2, ys) := spec_run sp1 r xs in (sp2, y :: ys)
  | _, _ => (sp, [])
  end.

(* abstraction: what a handle denotes in a concrete heap *)
Definition abs (s : mheap) (h : N) : option (list value) :=
  match nth_N (allocs s) h with
  | Some sl => if sl_freed sl then None else Some (sl_data sl)
  | None => None
  end.
Fixpoint live_total (al : list mslot) : N :=
  match al with
  | [] => 0
  | sl :: r => (if sl_freed sl then 0 else N.of_nat (length (sl_data sl))) + live_total r
  end.

(* one cell of a live buffer *)
Definition cell (s : mheap) (h off : N) : option value :=
  match abs s h with Some d => nth_N d off | None => None end.

(* ------------------------------------------------------------------------------------------
   The program-facing surfaces.  Operands are Values; only their class matters for the checks. *)
Inductive varg := AInt (z : Z) | ANull | AOther.     (* AOther: float, bool, pointer ... *)
Inductive surface := SBuiltin | SOpcode.
Inductive vop :=
| VAlloc (a : varg) | VFree (a : varg) | VLoad (h off : varg) | VStore (h off : varg) (v : value).

Definition lift_err (r : mheap * mres) : mheap * mres := r.   (* VM::manual_heap_error maps kinds 1:1 *)

(* alloc.rs: VM::manual_alloc with ensure_heap_capacity; [gc] = Heap::bytes_allocated() at the call,
   [maxh] = config.max_heap_bytes; all arithmetic in u64 *)
Definition vm_manual_alloc (maxh gc : N) (s : mheap) (size : N) : mheap * mres :=
  let b := size * VALUE_SIZE in
  if USIZE <=? b then (s, RErr EOutOfMemory) else
  let used := gc + bytes s in
  if USIZE <=? used then (s, RErr EOutOfMemory) else
  let total := used + b in
  if USIZE <=? total then (s, RErr EOutOfMemory) else
  if maxh <? total then (s, RErr EOutOfMemory) else
  mh_alloc s size.

Definition vm_step (sf : surface) (maxh gc : N) (s : mheap) (o : vop) : mheap * mres :=
  match sf, o with
  (* builtins.rs *)
  | SBuiltin, VAlloc (AInt z) =>
      if (z <=? 0)%Z then (s, RErr EInvalidSize) else vm_manual_alloc maxh gc s (Z.to_N z)
  | SBuiltin, VAlloc _ => (s, RErr ETypeError)
  | SBuiltin, VFree ANull => (s, ROkUnit)                             (* free(null) is a no-op *)
  | SBuiltin, VFree (AInt z) => if (z <? 0)%Z then (s, RErr ENegativeIndex) else mh_free s (Z.to_N z)
  | SBuiltin, VFree AOther => (s, RErr ETypeError)
  | SBuiltin, VLoad (AInt h) (AInt o) =>
      if (h <? 0)%Z then (s, RErr ENegativeIndex) else
      if (o <? 0)%Z then (s, RErr ENegativeIndex) else (s, mh_load s (Z.to_N h) (Z.to_N o))
  | SBuiltin, VLoad _ _ => (s, RErr ETypeError)
  | SBuiltin, VStore (AInt h) (AInt o) v =>
      if (h <? 0)%Z then (s, RErr ENegativeIndex) else
      if (o <? 0)%Z then (s, RErr ENegativeIndex) else mh_store s (Z.to_N h) (Z.to_N o) v
  | SBuiltin, VStore _ _ _ => (s, RErr ETypeError)
  (* memory.inc *)
  | SOpcode, VAlloc (AInt z) =>
      if (z <? 0)%Z then (s, RErr ETypeError) else vm_manual_alloc maxh gc s (Z.to_N z)
  | SOpcode, VAlloc _ => (s, RErr ETypeError)
  | SOpcode, VFree (AInt z) =>
      if (z <? 0)%Z then (s, ROkUnit)          (* opcode 29 ignores a negative handle (pinned by the test suite) *)
      else mh_free s (Z.to_N z)
  | SOpcode, VFree ANull => (s, ROkUnit)       (* free(null) is a no-op here too *)
  | SOpcode, VFree AOther => (s, RErr ETypeError)
  | SOpcode, VLoad (AInt h) (AInt o) =>
      if (h <? 0)%Z then (s, RErr ETypeError) else
      if (o <? 0)%Z then (s, RErr ETypeError) else (s, mh_load s (Z.to_N h) (Z.to_N o))
  | SOpcode, VLoad _ _ => (s, RErr ETypeError)
  | SOpcode, VStore (AInt h) (AInt o) v =>
      if (h <? 0)%Z then (s, RErr ETypeError) else
      if (o <? 0)%Z then (s, RErr ETypeError) else mh_store s (Z.to_N h) (Z.to_N o) v
  | SOpcode, VStore _ _ _ => (s, RErr ETypeError)
  end.

(* the raw operation a surface operation amounts to when the operand checks pass *)
Definition vop_raw (o : vop) : option mop :=
  match o with
  | VAlloc (AInt z) => if (0 <? z)%Z then Some (MAlloc (Z.to_N z)) else None
  | VFree (AInt z) => if (0 <=? z)%Z then Some (MFree (Z.to_N z)) else None
  | VLoad (AInt h) (AInt o) => if ((0 <=? h) && (0 <=? o))%Z then Some (MLoad (Z.to_N h) (Z.to_N o)) else None
  | VStore (AInt h) (AInt o) v => if ((0 <=? h) && (0 <=? o))%Z then Some (MStore (Z.to_N h) (Z.to_N o) v) else None
  | _ => None
  end.

(* operations that a surface accepts silently although they name no live buffer *)
Definition vm_silent (sf : surface) (o : vop) : bool :=
  match sf, o with
  | SBuiltin, VFree ANull => true                      (* documented: free(null) is a no-op *)
  | SOpcode, VFree (AInt z) => (z <? 0)%Z
  | SOpcode, VFree ANull => true
  | _, _ => false
  end.

(* the specification of a surface operation: operands that name no buffer are errors (or the
   surface's documented no-ops) that change nothing; an allocation may be refused by the heap limit
   (OutOfMemory, nothing changes); everything else is the raw operation of the map of arrays *)
Definition vspec_step (sf : surface) (sp : spec) (o : vop) (hint : mres) : spec * mres :=
  match vop_raw o with
  | Some m =>
      match m, hint with
      | MAlloc _, RErr EOutOfMemory => (sp, hint)
      | _, _ => spec_step sp m hint
      end
  | None => (sp, if vm_silent sf o then ROkUnit else match hint with RErr e => RErr e | _ => RPanic end)
  end.

Fixpoint vspec_run (sf : surface) (sp : spec) (os : list (N * vop)) (hints : list mres) : spec * list mres :=
  match os, hints with
  | (_, o) :: r, x :: xs =>
      let '(sp1, y) := vspec_step sf sp o x in let '(sp2, ys) := vspec_run sf sp1 r xs in (sp2, y :: ys)
  | _, _ => (sp, [])
  end.

Fixpoint vm_run (sf : surface) (maxh : N) (s : mheap) (os : list (N * vop)) : mheap * list mres :=
  match os with
  | [] => (s, [])
  | (gc, o) :: r =>
      let '(s1, x) := vm_step sf maxh gc s o in
      let '(s2, xs) := vm_run sf maxh s1 r in (s2, x :: xs)
  end.
