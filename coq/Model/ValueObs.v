(* Observation vectors for the C12 contract tie: the same vector hx_value prints. *)
From Coq Require Import NArith ZArith Bool List.
From Aelys Require Import Extracted.ValueConsts Model.Value Model.ValuePool.
Import ListNotations.
Local Open Scope Z_scope.

Inductive vq :=
| QRaw (w : N) | QInt (n : Z) | QIntChecked (n : Z) | QFloat (bits : N) | QBool (b : bool)
| QNull | QPtr (p : N) | QNested (i : N) | QEq (a b : N)
| QPool (ws : list N)
| QNat (w : N) | QNatInt (n : Z) | QNatFloat (bits : N) | QNatBool (b : bool) | QNatNull
| QMkInt (n : Z).

Definition zb (b : bool) : Z := if b then 1 else 0.
Definition oz (o : option Z) : list Z := match o with Some z => [1; z] | None => [0; 0] end.
Definition on (o : option N) : list Z := match o with Some z => [1; Z.of_N z] | None => [0; 0] end.
Definition ob (o : option bool) : list Z := match o with Some z => [1; zb z] | None => [0; 0] end.

Definition raw_obs (w : N) : list Z :=
  [zb (is_float w); zb (is_int w); zb (is_bool w); zb (is_null w); zb (is_ptr w); zb (is_nested w)]
  ++ oz (as_int w) ++ on (as_float w) ++ ob (as_bool w) ++ on (as_ptr w) ++ on (as_nested w)
  ++ [Z.of_N (type_name_code w); zb (is_truthy w);
      if is_int w then as_int_unchecked w else 0; Z.of_N w].

(* constructor queries report the constructed word followed by everything observable about it *)
Definition ctor_obs (w : N) : list Z := Z.of_N w :: raw_obs w.

(* the host-side copy of the scheme that native modules use (native/src/value.rs): what its
   predicates and accessors answer for a word (its accessors return 0 / 0.0 / false for a word of
   another kind; a NaN is reported as -1) *)
Definition nat_obs (w : N) : list Z :=
  [zb (is_null w); zb (is_int w); zb (is_float w); zb (is_bool w); zb (is_ptr w);
   match as_int w with Some z => z | None => 0 end;
   match as_float w with Some b => if is_nan_bits b then (-1) else Z.of_N b | None => 0 end;
   match as_bool w with Some b => zb b | None => 0 end;
   match as_ptr w with Some p => Z.of_N p | None => 0 end].

Definition vobs (q : vq) : list Z :=
  match q with
  | QRaw w => raw_obs w
  | QInt n => ctor_obs (v_int n)
  | QIntChecked n => match v_int_checked n with Some w => 1 :: ctor_obs w | None => [0] end
  | QFloat bits => ctor_obs (v_float bits)
  | QBool b => ctor_obs (v_bool b)
  | QNull => ctor_obs v_null
  | QPtr p => ctor_obs (v_ptr p)
  | QNested i => ctor_obs (v_nested i)
  | QEq a b => [zb (value_eq a b)]
  | QNat w => nat_obs w
  | QNatInt n => Z.of_N (v_int n) :: nat_obs (v_int n)
  | QNatFloat b => Z.of_N (v_float b) :: nat_obs (v_float b)
  | QNatBool b => Z.of_N (v_bool b) :: nat_obs (v_bool b)
  | QNatNull => Z.of_N v_null :: nat_obs v_null
  | QMkInt n => match v_int_checked n with Some w => 1 :: ctor_obs w | None => [0] end
  | QPool ws => let '(is, p) := pool_adds [] ws in map Z.of_nat is ++ [Z.of_nat (length p)] ++ map Z.of_N p
  end.
