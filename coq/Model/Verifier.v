(* C04 -- the bytecode verifier (runtime/src/vm/verifier) as a linear scan over the word list,
   driven by the tables the translator regenerates from the Rust source
   (Extracted/OpcodeNumbering.v, Extracted/VerifierTable.v).  Definitions only. *)
From Coq Require Import NArith ZArith Bool List.
From Aelys Require Import Extracted.OpcodeNumbering Extracted.VerifierTable.
Import ListNotations.
Local Open Scope N_scope.

(* what the verifier can see of a constant *)
Inductive cst := CNested (i : N) | CPtr (valid : bool) | COther.

(* a Function object: num_registers, constants, number of upvalue descriptors, words, nested functions *)
Inductive func := Func (nregs : N) (consts : list cst) (nup : N) (code : list N) (nested : list func).

Definition f_nregs (f : func) := let 'Func r _ _ _ _ := f in r.
Definition f_consts (f : func) := let 'Func _ c _ _ _ := f in c.
Definition f_nup (f : func) := let 'Func _ _ u _ _ := f in u.
Definition f_code (f : func) := let 'Func _ _ _ c _ := f in c.
Definition f_nested (f : func) := let 'Func _ _ _ _ n := f in n.

Definition len {A} (l : list A) : N := N.of_nat (length l).
Definition nthN {A} (l : list A) (i : N) : option A := nth_error l (N.to_nat i).

(* instruction word fields: op(8) | a(8) | b(8) | c(8), imm = low 16 bits as i16 *)
Definition w_op (w : N) : N := (w / 2 ^ op_shift) mod 256.
Definition w_a (w : N) : N := (w / 2 ^ a_shift) mod 256.
Definition w_b (w : N) : N := (w / 2 ^ b_shift) mod 256.
Definition w_c (w : N) : N := w mod 256.
Definition w_imm (w : N) : N := w mod 65536.
Definition w_simm (w : N) : Z := if w_imm w <? 32768 then Z.of_N (w_imm w) else (Z.of_N (w_imm w) - 65536)%Z.

Fixpoint lookup {A} (k : N) (l : list (N * A)) : option A :=
  match l with
  | [] => None
  | (k', v) :: r => if k =? k' then Some v else lookup k r
  end.

(* OpCode::from_u8 followed by the category dispatch *)
Inductive decoded :=
  | DInvalid                              (* from_u8 = None: "invalid opcode" *)
  | DUndefined                            (* from_u8 transmuted a byte that is not a discriminant *)
  | DUnhandled                            (* a declared opcode no category handles *)
  | DEntry (checks : list chk) (adv : N).

Definition decode (b : N) : decoded :=
  if negb (from_u8_accepts b) then DInvalid
  else if negb (is_discriminant b) then DUndefined
  else match lookup b vtable with
       | Some (cs, adv) => DEntry cs adv
       | None => DUnhandled
       end.

(* the verifier's linear instruction grid *)
Definition adv_of (w : N) : N := if existsb (N.eqb (w_op w)) skip_opcodes then 3 else 1.

Fixpoint on_grid_from (fuel : nat) (code : list N) (i target : N) : bool :=
  match fuel with
  | O => false
  | S k =>
      if i =? target then true
      else if target <? i then false
      else match nthN code i with
           | None => false
           | Some w => on_grid_from k code (i + adv_of w) target
           end
  end.
Definition on_grid (code : list N) (target : N) : bool := on_grid_from (S (length code)) code 0 target.

(* environment of one function's scan *)
Record venv := { v_nregs : N; v_consts : list cst; v_nup : N; v_len : N; v_nested_nup : list N; v_code : list N }.

Definition jump_target (ip : N) (w : N) : Z := (Z.of_N ip + 1 + w_simm w)%Z.

Definition check_ok (e : venv) (ip w : N) (c : chk) : bool :=
  let nr := v_nregs e in
  match c with
  | CRegA => w_a w <? nr
  | CRegB => w_b w <? nr
  | CRegC => w_c w <? nr
  | CConstB => w_b w <? len (v_consts e)
  | CConstImm => w_imm w <? len (v_consts e)
  | CUpvalA => w_a w <? v_nup e
  | CUpvalB => w_b w <? v_nup e
  | CJump =>
      (0 <=? jump_target ip w)%Z && (jump_target ip w <=? Z.of_N (v_len e))%Z
      && (if jump_grid_checked                       (* target is an instruction start or the end of the stream *)
          then (Z.to_N (jump_target ip w) =? v_len e) || on_grid (v_code e) (Z.to_N (jump_target ip w))
          else true)
  | CRangeA n => (n =? 0) || (w_a w + n - 1 <? nr)
  | CRangeBC => (w_c w =? 0) || (w_b w + w_c w - 1 <? nr)
  | CCallArgsA => (w_a w <? nr) && ((w_c w =? 0) || (w_a w + w_c w <? nr))
  | CCallArgsB => (w_b w <? nr) && ((w_c w =? 0) || (w_b w + w_c w <? nr))
  | CCacheWords => ip + 3 <=? v_len e
  | CMakeClosure =>
      match nthN (v_consts e) (w_b w) with
      | Some (CNested i) => match nthN (v_nested_nup e) i with Some u => u =? w_c w | None => false end
      | _ => false
      end
  end.

Inductive vres := VOk | VReject | VUndefined | VFuel.

Fixpoint scan (fuel : nat) (e : venv) (code : list N) (ip : N) : vres :=
  match fuel with
  | O => VFuel
  | S k =>
      match nthN code ip with
      | None => VOk                                   (* ip >= len: loop exit *)
      | Some w =>
          match decode (w_op w) with
          | DInvalid | DUnhandled => VReject
          | DUndefined => VUndefined
          | DEntry cs adv => if forallb (check_ok e ip w) cs then scan k e code (ip + adv) else VReject
          end
      end
  end.

Definition const_ok (nnested : N) (c : cst) : bool :=
  match c with
  | CNested i => i <? nnested
  | CPtr v => v
  | COther => true
  end.

Definition env_of (f : func) : venv :=
  {| v_nregs := f_nregs f; v_consts := f_consts f; v_nup := f_nup f; v_len := len (f_code f);
     v_nested_nup := map f_nup (f_nested f); v_code := f_code f |}.

Definition verify_body (f : func) : vres :=
  if negb (forallb (const_ok (len (f_nested f))) (f_consts f)) then VReject
  else if 65535 <? len (f_consts f) then VReject
  else scan (S (length (f_code f))) (env_of f) (f_code f) 0.

(* verify_function(func, heap, depth): depth check; constants; bytecode; nested at depth + 1 *)
Fixpoint verify_at (depth : N) (f : func) {struct f} : vres :=
  if MAX_FUNCTION_NESTING <? depth then VReject
  else match verify_body f with
       | VOk =>
           match f with
           | Func _ _ _ _ nested =>
               (fix go (l : list func) : vres :=
                  match l with
                  | [] => VOk
                  | g :: r => match verify_at (depth + 1) g with VOk => go r | x => x end
                  end) nested
           end
       | x => x
       end.

Definition verify (f : func) : vres := verify_at 0 f.

(* observation used by the contract tie: 0 reject, 1 accept, 2 undefined (from_u8 gap reached) *)
Definition verdict (f : func) : N :=
  match verify f with VOk => 1 | VReject => 0 | VUndefined => 2 | VFuel => 3 end.
