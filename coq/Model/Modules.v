(* C19 -- the module loader's bookkeeping, as implemented.

   Hand model of
     driver/src/modules/loader/load.rs        (load_module: std short-circuit, resolution first (with the
                                               fallback "parent + symbol"), then cycle check and memo on
                                               the FILE the import resolves to)
     driver/src/modules/loader/compile.rs     (compile_module: registered in loaded_modules BEFORE
                                               the nested imports and the body run, base_dir swapped to
                                               the module's directory, per-module compile-time name sets)
     driver/src/modules/loader/exports.rs     (collect_exports = pub fn / pub let; register_exports)
     driver/src/modules/loader/needs.rs       (get_load_result, get_module_alias, resolve_path_with_fallback)
     driver/src/modules/loader/resolution.rs + modules/src/resolution/patterns.rs
                                              (the manifest's explicit path if any; else dir/p.aelys, then
                                               dir/p/mod.aelys, relative to base_dir, then the same
                                               relative to the entry file's directory; canonicalised,
                                               contained in base_root)
     driver/src/modules/needs.rs              (load_modules_for_program: the entry's name sets and the
                                               SymbolConflict check)
     driver/src/api/repl.rs                   (run_with_vm: the loader's memo lives as long as the session: run_session)
   Tables, guards and the order of checks that the source fixes are NOT hand-written here: they come
   from Extracted/ModulesTables.v (tools/extractors/c19.py), regenerated from the Rust source on every run.
   Identifiers (path segments, definition names, aliases) are numbers; the harness prints
   identifier k as "n<k>".  A file is named by its path components below the entry's directory
   without the extension: [a; x] is a/x.aelys, [a; x; MODSEG] is a/x/mod.aelys.  Symlinks and the
   explicit paths of the entry's aelys.toml are part of the tree (fsys).
   Definitions only; proofs are in Proofs/ModulesProofs.v. *)
From Coq Require Import NArith Bool List.
From Aelys Require Import Extracted.ModulesTables.
Import ListNotations.
Local Open Scope N_scope.

Definition ident := N.
Definition MODSEG : ident := 0.   (* the stem "mod" of dir/mod.aelys; never used in import paths *)
Definition STD : ident := 1.      (* first segment "std" *)

Definition key := list ident.      (* a dotted path *)
Definition fpath := list ident.    (* a file: directory components ++ [stem] *)

Inductive form :=
| FModule                       (* needs a.b *)
| FAlias (a : ident)            (* needs a.b as q *)
| FSymbols (l : list ident)     (* needs f, g from a.b *)
| FWildcard.                    (* needs a.b.* *)

Record import := { i_path : key; i_form : form }.
Record def := { d_name : ident; d_pub : bool; d_fn : bool }.   (* d_fn: `fn`, else `let` *)
(* m_fault: 0 = fine, 1 = the body does not compile (an undefined name), 2 = the top level raises right
   after it started (after its first visible effect, before any definition) *)
Record module := { m_imports : list import; m_defs : list def; m_fault : N }.
(* the directory tree: real files, symlinks (a file's or a directory's path -> the real path it
   points to) and the explicit paths of the entry's aelys.toml manifest ([module.<dotted name>]
   path = "..."), each relative to the directory of whichever file contains the `needs` *)
Inductive pseg := PS (x : ident) | PUp | PCur.       (* "x", "..", "." *)
Record fsys := mkfs {
  files : list (fpath * module);
  links : list (list ident * list ident);
  hints : list (key * list pseg)
}.

(* ---------------------------------------------------------------- small list utilities *)
Fixpoint key_eqb (a b : key) : bool :=
  match a, b with
  | [], [] => true
  | x :: a', y :: b' => (x =? y) && key_eqb a' b'
  | _, _ => false
  end.

Fixpoint mem_key (k : key) (l : list key) : bool :=
  match l with [] => false | x :: r => key_eqb k x || mem_key k r end.

Fixpoint mem_id (k : ident) (l : list ident) : bool :=
  match l with [] => false | x :: r => (k =? x) || mem_id k r end.

Fixpoint lookup {A} (k : key) (l : list (key * A)) : option A :=
  match l with
  | [] => None
  | (k', v) :: r => if key_eqb k k' then Some v else lookup k r
  end.

Definition find_file (fs : fsys) (f : fpath) : option module := lookup f (files fs).

Definition dir_of (f : fpath) : list ident := removelast f.
Definition last_seg (p : key) : ident := last p 0.

(* ---------------------------------------------------------------- resolution *)
(* Path::canonicalize: symlinks resolved, left to right (the generator's links do not nest deeper
   than the fuel) *)
Fixpoint strip_prefix (pre p : list ident) : option (list ident) :=
  match pre, p with
  | [], _ => Some p
  | x :: pre', y :: p' => if x =? y then strip_prefix pre' p' else None
  | _ :: _, [] => None
  end.
Definition is_prefix (pre p : list ident) : bool :=
  match strip_prefix pre p with Some _ => true | None => false end.
Fixpoint find_link (ls : list (list ident * list ident)) (p : list ident) : option (list ident) :=
  match ls with
  | [] => None
  | (src, tgt) :: r =>
      match strip_prefix src p with
      | Some rest => Some (tgt ++ rest)
      | None => find_link r p
      end
  end.
Fixpoint canon_n (n : nat) (ls : list (list ident * list ident)) (p : list ident) : list ident :=
  match n with
  | O => p
  | S k => match find_link ls p with Some p' => canon_n k ls p' | None => p end
  end.
Definition canon (fs : fsys) (p : list ident) : list ident := canon_n 4 (links fs) p.

Definition dir_exists (fs : fsys) (d : list ident) : bool :=
  existsb (fun fm => is_prefix d (fst fm) && negb (key_eqb d (fst fm))) (files fs).

(* canonicalize_if_exists: the file must exist and its canonical path must lie below base_root;
   outside is an error that stops the search (RStop), absent lets it continue (RMissing) *)
Inductive rres := RFound (f : fpath) | RStop | RMissing.
Definition try_path (fs : fsys) (rootdir : list ident) (c : list ident) : rres :=
  match find_file fs c with
  | Some _ => if is_prefix rootdir c then RFound c else RStop
  | None => RMissing
  end.

(* search_with_patterns: Direct{aelys} then ModFile{aelys}, below a directory.  (Native patterns
   are outside the model.) *)
Definition pattern_path (pat : spat) (dir : list ident) (p : key) : list ident :=
  match pat with
  | PDirect => dir ++ p                    (* base_path.with_extension("aelys") *)
  | PModFile => dir ++ p ++ [MODSEG]       (* base_path.join("mod.aelys") *)
  end.
Fixpoint resolve_pats (fs : fsys) (pats : list spat) (dir : list ident) (p : key) : rres :=
  match pats with
  | [] => RMissing
  | pat :: r =>
      match try_path fs dir (canon fs (pattern_path pat dir p)) with
      | RMissing => resolve_pats fs r dir p
      | found_or_stop => found_or_stop
      end
  end.
(* the patterns and their order come from full_search_patterns() (Extracted/ModulesTables.v) *)
Definition resolve_in (fs : fsys) (dir : list ident) (p : key) : rres :=
  resolve_pats fs script_patterns dir p.
Definition to_opt (r : rres) : option fpath := match r with RFound f => Some f | _ => None end.

(* next to the importing file, then next to the entry file (root) *)
Definition search (fs : fsys) (root base : list ident) (p : key) : option fpath :=
  match resolve_in fs base p with
  | RFound f => Some f
  | _ => if key_eqb base root then None else to_opt (resolve_in fs root p)
  end.

(* base_dir.join(explicit path): ".." is the physical parent, symlinks are followed *)
Fixpoint follow (fs : fsys) (cur : list ident) (ex : list pseg) : option (list ident) :=
  match ex with
  | [] => None
  | [PS x] => Some (canon fs (cur ++ [x]))
  | PS x :: r => let d := canon fs (cur ++ [x]) in if dir_exists fs d then follow fs d r else None
  | PUp :: r => match cur with [] => None | _ :: _ => follow fs (removelast cur) r end
  | PCur :: r => follow fs cur r
  end.

(* resolve_module_path: the manifest's explicit path for this dotted name if that file exists,
   else the search *)
Definition resolve_direct (fs : fsys) (root base : list ident) (p : key) : option fpath :=
  match lookup p (hints fs) with
  | Some ex =>
      match follow fs base ex with
      | Some c =>
          match try_path fs base c with
          | RFound f => Some f
          | RStop => None
          | RMissing => search fs root base p
          end
      | None => search fs root base p
      end
  | None => search fs root base p
  end.

(* resolve_path_with_fallback: the path itself, else (when it has >1 segment) its parent with the
   last segment taken as a symbol.  Result: file, actual dotted path, optional symbol. *)
Definition resolve_fb (fs : fsys) (root base : list ident) (p : key) : option (fpath * key * option ident) :=
  match resolve_direct fs root base p with
  | Some f => Some (f, p, None)
  | None =>
      match p with
      | _ :: _ :: _ =>
          match resolve_direct fs root base (removelast p) with
          | Some f => Some (f, removelast p, Some (last_seg p))
          | None => None
          end
      | _ => None
      end
  end.

Definition is_std (p : key) : bool := match p with h :: _ => h =? STD | [] => false end.

(* ---------------------------------------------------------------- VM.globals (one flat namespace) *)
Inductive gname := GB (n : ident) | GQ (q n : ident).     (* "n"  |  "q::n" *)
Definition value := (fpath * ident)%type.                  (* the definition n of file f *)
Definition nsmap := list (gname * value).

Definition gname_eqb (a b : gname) : bool :=
  match a, b with
  | GB x, GB y => x =? y
  | GQ q x, GQ r y => (q =? r) && (x =? y)
  | _, _ => false
  end.

Fixpoint ns_get (g : gname) (ns : nsmap) : option value :=
  match ns with
  | [] => None
  | (g', v) :: r => if gname_eqb g g' then Some v else ns_get g r
  end.
Definition ns_set (g : gname) (v : value) (ns : nsmap) : nsmap := (g, v) :: ns.

(* ---------------------------------------------------------------- loader state *)
Record minfo := { mi_file : fpath; mi_exports : list ident; mi_name : ident }.

(* what one module (or the entry) could name when its body ran *)
Record event := {
  ev_file : fpath;             (* the file whose top level ran: the init trace is map ev_file *)
  ev_key : key;                (* the dotted path it was first imported under ([] for the entry) *)
  ev_aliases : list ident;     (* Compiler.module_aliases *)
  ev_known : list ident;       (* Compiler.known_globals + its own definitions *)
  ev_ns : nsmap;               (* VM.globals as its top level sees them *)
  ev_done : bool               (* the top level ran to completion (false: it raised) *)
}.

Record lstate := {
  loaded : list (fpath * minfo);   (* loaded_modules, keyed by the resolved file *)
  stack : list fpath;              (* loading_stack, top first *)
  base : list ident;             (* base_dir *)
  ns : nsmap;                    (* VM.globals *)
  events : list event            (* oldest first *)
}.

Inductive errk := ECircular | ENotFound | ESymbolNotFound | ESymbolConflict | ECompile | ERuntime.
Inductive lres := LModule (a : ident) | LSymbol (s : ident).

Inductive res (A : Type) :=
| Ok (a : A)
| Err (e : errk) (st : lstate)    (* error kind + the loader/VM state it leaves behind: what had run
                                     (events), VM.globals (ns), and in `loaded` the modules that are
                                     initialised (an unfinished one is forgotten while unwinding) *)
| Fuel.
Arguments Ok {A} a.
Arguments Err {A} e st.
Arguments Fuel {A}.

(* get_module_alias / get_load_result *)
Definition alias_of (i : import) : ident :=
  match i_form i with FAlias a => a | _ => last_seg (i_path i) end.
Definition lres_of (i : import) : lres :=
  match i_form i with
  | FModule | FWildcard => LModule (last_seg (i_path i))
  | FAlias a => LModule a
  | FSymbols l => LSymbol (hd 0 l)
  end.

(* collect_exports: functions and lets, each under the guard found in the source
   (fn_export_needs_pub / let_export_needs_pub, Extracted/ModulesTables.v) *)
Definition exported (d : def) : bool :=
  if d_fn d then negb fn_export_needs_pub || d_pub d else negb let_export_needs_pub || d_pub d.
Definition pub_names (m : module) : list ident :=
  map d_name (filter exported (m_defs m)).

(* sync_globals_to_hashmap after the body ran: every top-level definition, pub or not *)
Definition write_defs (f : fpath) (m : module) (s : nsmap) : nsmap :=
  fold_left (fun s d => ns_set (GB (d_name d)) (f, d_name d) s) (m_defs m) s.

(* register_exports, and the identical re-binding done on a memo hit.  None = SymbolNotFound. *)
Fixpoint bind_all (al : ident) (bare : bool) (ex : list ident) (s : nsmap) : option nsmap :=
  match ex with
  | [] => Some s
  | n :: r =>
      match ns_get (GB n) s with
      | None => None
      | Some v =>
          let s1 := ns_set (GQ al n) v s in
          bind_all al bare r (if bare then ns_set (GB n) v s1 else s1)
      end
  end.
Fixpoint check_all (ex : list ident) (s : nsmap) : bool :=
  match ex with
  | [] => true
  | n :: r => match ns_get (GB n) s with Some _ => check_all r s | None => false end
  end.
Fixpoint check_syms (syms ex : list ident) (s : nsmap) : bool :=
  match syms with
  | [] => true
  | n :: r => (negb symbols_checked || mem_id n ex)
              && match ns_get (GB n) s with Some _ => check_syms r ex s | None => false end
  end.
Definition bind_exports (i : import) (ex : list ident) (s : nsmap) : option nsmap :=
  match i_form i with
  | FModule => bind_all (alias_of i) true ex s
  | FAlias a => bind_all a (negb bare_unless_aliased) ex s
  | FSymbols l => if check_syms l ex s then Some s else None
  | FWildcard => if check_all ex s then Some s else None
  end.

(* compile-time name sets of a non-entry module (compile.rs) *)
Definition names := (list ident * list ident)%type.    (* aliases, known globals *)
Definition add_lres (acc : names) (r : lres) : names :=
  match r with
  | LModule a => (a :: fst acc, snd acc)
  | LSymbol s => (fst acc, s :: snd acc)
  end.
(* get_module_for: the loaded module an import path written in the current file refers to
   (resolution without the symbol fallback, relative to the current base_dir) *)
Definition module_for (fs : fsys) (root base : list ident) (i : import) (ld : list (fpath * minfo)) : option minfo :=
  match resolve_direct fs root base (i_path i) with
  | Some f => lookup f ld
  | None => None
  end.

Definition kind_of (f : form) : form_kind :=
  match f with FModule => KModule | FAlias _ => KAlias | FSymbols _ => KSymbols | FWildcard => KWildcard end.
(* what the arm of an import form inserts into known_globals (entry_grant / module_grant,
   Extracted/ModulesTables.v) *)
Definition granted_names (g : grant) (i : import) (info : minfo) : list ident :=
  match g with
  | GExports => mi_exports info
  | GSymbols => match i_form i with FSymbols l => l | _ => [] end
  | GNone => []
  end.

Definition contrib_mod (acc : names) (i : import) (r : lres) (mi : option minfo) : names :=
  let acc := add_lres acc r in
  match mi with
  | Some info => (fst acc, granted_names (module_grant (kind_of (i_form i))) i info ++ snd acc)
  | None => acc
  end.

(* ... and of the entry (needs.rs), with symbol_origins for the SymbolConflict check *)
Fixpoint inter_nonempty (a b : list ident) : bool :=
  match a with [] => false | x :: r => mem_id x b || inter_nonempty r b end.
Definition contrib_entry (acc : names) (orig : list ident) (i : import) (r : lres) (mi : option minfo)
  : option (names * list ident) :=
  let acc := add_lres acc r in
  match mi with
  | Some info =>
      let g := granted_names (entry_grant (kind_of (i_form i))) i info in
      (* only the whole-module form checks symbol_origins *)
      if match i_form i with FModule => inter_nonempty (mi_exports info) orig | _ => false end then None
      else Some ((fst acc, g ++ snd acc), g ++ orig)
  | None => Some (acc, orig)
  end.

Definition set_ns (st : lstate) (s : nsmap) : lstate :=
  {| loaded := loaded st; stack := stack st; base := base st; ns := s; events := events st |}.

(* ---------------------------------------------------------------- load_module / compile_module *)
Definition loader := import -> lstate -> res (lstate * lres).

(* the `for stmt in &stmts { if let Needs(n) = ... { self.load_module(n, vm)?; ... } }` loop of
   compile_module; ld is load_module one level down *)
Fixpoint go_mod (fs : fsys) (root : list ident) (ld : loader) (imps : list import) (s : lstate) (acc : names)
  : res (lstate * names) :=
  match imps with
  | [] => Ok (s, acc)
  | j :: r =>
      match ld j s with
      | Ok (s', lr) => go_mod fs root ld r s' (contrib_mod acc j lr (module_for fs root (base s') j (loaded s')))
      | Err e tr => Err e tr
      | Fuel => Fuel
      end
  end.

(* compile_module (with the push/pop that load_module does around it): `eimp` is the import the
   statement stands for (`needs m.s` = `needs s from m`), `m` the parsed file *)
(* a module whose top level did not complete is not loaded (compile_module removes it again) *)
Fixpoint remove_key {A} (k : key) (l : list (key * A)) : list (key * A) :=
  match l with
  | [] => []
  | (k', v) :: r => if key_eqb k k' then remove_key k r else (k', v) :: remove_key k r
  end.
Definition forget (file : fpath) (s : lstate) : lstate :=
  {| loaded := remove_key file (loaded s); stack := stack s; base := base s; ns := ns s; events := events s |}.

Definition compile (fs : fsys) (root : list ident) (ld : loader) (file : fpath) (eimp : import)
                   (m : module) (st : lstate) : res (lstate * lres) :=
  let ex := pub_names m in
  let info := {| mi_file := file; mi_exports := ex; mi_name := last_seg (i_path eimp) |} in
  (* registered first, base_dir swapped, then the nested imports *)
  let st1 := {| loaded := (file, info) :: loaded st; stack := file :: stack st;
                base := dir_of file; ns := ns st; events := events st |} in
  match go_mod fs root ld (m_imports m) st1 ([], []) with
  | Fuel => Fuel
  | Err e s => Err e (forget file s)
  | Ok (st2, acc) =>
      if m_fault m =? 1 then Err ECompile (forget file st2)      (* type inference / compilation of the body *)
      else if m_fault m =? 2 then
        (* the top level starts, is seen, and raises: nothing is synced, nothing registered *)
        let ev := {| ev_file := file; ev_key := i_path eimp; ev_aliases := fst acc;
                     ev_known := map d_name (m_defs m) ++ snd acc; ev_ns := ns st2; ev_done := false |} in
        Err ERuntime (forget file {| loaded := loaded st2; stack := stack st2; base := base st2;
                                     ns := ns st2; events := events st2 ++ [ev] |})
      else
      (* body runs; globals synced; exports registered for this importer *)
      let s1 := write_defs file m (ns st2) in
      let ev := {| ev_file := file; ev_key := i_path eimp; ev_aliases := fst acc;
                   ev_known := map d_name (m_defs m) ++ snd acc; ev_ns := s1; ev_done := true |} in
      match bind_exports eimp ex s1 with
      | None => Err ESymbolNotFound {| loaded := loaded st2; stack := tl (stack st2); base := base st;
                                        ns := s1; events := events st2 ++ [ev] |}
      | Some s2 =>
          Ok ({| loaded := loaded st2; stack := tl (stack st2); base := base st;
                 ns := s2; events := events st2 ++ [ev] |}, lres_of eimp)
      end
  end.

(* load_module above the recursion: everything except the recursive loads *)
Definition load_step (fs : fsys) (root : list ident) (ld : loader) (i : import) (st : lstate)
  : res (lstate * lres) :=
  let p := i_path i in
  match p with
  | [] => Err ENotFound st
  | _ :: _ =>
    if is_std p then Ok (st, lres_of i)
    else match resolve_fb fs root (base st) p with
    | None => Err ENotFound st
    | Some (file, actual, sym) =>
        (* `needs m.s` is the selective import of s from m *)
        let eimp := match sym with
                    | Some s => {| i_path := actual; i_form := FSymbols [s] |}
                    | None => i
                    end in
        (* the loading-stack check, then the memo: in the order found in load_module
           (cycle_before_memo, Extracted/ModulesTables.v) *)
        let on_stack := mem_key file (stack st) in
        if cycle_before_memo && on_stack then Err ECircular st
        else match lookup file (loaded st) with
        | Some info =>
            match bind_exports eimp (mi_exports info) (ns st) with
            | None => Err ESymbolNotFound st
            | Some s => Ok (set_ns st s, lres_of eimp)
            end
        | None =>
            if on_stack then Err ECircular st
            else match find_file fs file with
            | None => Err ENotFound st
            | Some m => compile fs root ld file eimp m st
            end
        end
    end
  end.

Fixpoint load (fs : fsys) (root : list ident) (fuel : nat) : loader :=
  match fuel with
  | O => fun _ _ => Fuel
  | S f => load_step fs root (load fs root f)
  end.

(* load_modules_for_program + the entry's own top level *)
Fixpoint entry_go (fs : fsys) (root : list ident) (fuel : nat) (imps : list import) (s : lstate)
                  (acc : names) (orig : list ident) : res (lstate * names) :=
  match imps with
  | [] => Ok (s, acc)
  | j :: r =>
      match load fs root fuel j s with
      | Ok (s', lr) =>
          match contrib_entry acc orig j lr (module_for fs root (base s') j (loaded s')) with
          | None => Err ESymbolConflict s'
          | Some (acc', orig') => entry_go fs root fuel r s' acc' orig'
          end
      | Err e tr => Err e tr
      | Fuel => Fuel
      end
  end.

Definition init_state (entry : fpath) : lstate :=
  {| loaded := []; stack := []; base := dir_of entry; ns := []; events := [] |}.

Definition run (fs : fsys) (entry : fpath) (fuel : nat) : res (list event) :=
  match find_file fs entry with
  | None => Err ENotFound (init_state entry)
  | Some m =>
      match entry_go fs (dir_of entry) fuel (m_imports m) (init_state entry) ([], []) [] with
      | Fuel => Fuel
      | Err e tr => Err e tr
      | Ok (st, acc) =>
          let s1 := write_defs entry m (ns st) in
          Ok (events st ++ [{| ev_file := entry; ev_key := []; ev_aliases := fst acc;
                               ev_known := map d_name (m_defs m) ++ snd acc; ev_ns := s1; ev_done := true |}])
      end
  end.

(* ---- a REPL session: inputs run one after the other on one VM.  An input is a module without a
   file (run_with_vm resolves its imports from the working directory `root`); loaded_modules,
   VM.globals and the names earlier ACCEPTED inputs imported persist across inputs.  A failing
   input leaves behind what it did to the VM and -- if the session record is put back on the error
   path too (memo_restored_on_error, Extracted/ModulesTables.v, from driver/src/api/repl.rs) -- the
   modules that are initialised by then. *)
Record sstate := { ss_st : lstate; ss_names : names }.

Definition session_start (root : list ident) : sstate :=
  {| ss_st := {| loaded := []; stack := []; base := root; ns := []; events := [] |}; ss_names := ([], []) |}.

Definition run_input (fs : fsys) (root : list ident) (fuel : nat) (name : fpath) (m : module) (ss : sstate)
  : res (sstate * event) :=
  match entry_go fs root fuel (m_imports m) (ss_st ss) (ss_names ss) [] with
  | Fuel => Fuel
  | Err e s => Err e s
  | Ok (st, acc) =>
      (* the imports loaded; an input that inference / the compiler then rejects (m_fault = 1) never runs *)
      if m_fault m =? 1 then Err ECompile st else
      let s1 := write_defs name m (ns st) in
      let known := map d_name (m_defs m) ++ snd acc in
      let ev := {| ev_file := name; ev_key := []; ev_aliases := fst acc; ev_known := known; ev_ns := s1; ev_done := true |} in
      Ok ({| ss_st := {| loaded := loaded st; stack := []; base := root; ns := s1; events := events st ++ [ev] |};
             ss_names := (fst acc, known) |}, ev)
  end.

(* did the input's imports load, the input being rejected afterwards? *)
Definition rejected_after_load (fs : fsys) (root : list ident) (fuel : nat) (m : module) (ss : sstate) : bool :=
  match entry_go fs root fuel (m_imports m) (ss_st ss) (ss_names ss) [] with
  | Ok _ => m_fault m =? 1
  | _ => false
  end.

(* the session after a failing input (rejected: after its imports had loaded): is the record of loaded modules
   back in the VM (Extracted/ModulesTables.v, from repl.rs)?  The names of the input are never recorded. *)
Definition after_error (root : list ident) (ss : sstate) (s : lstate) (rejected : bool) : sstate :=
  {| ss_st := {| loaded := if (if rejected then memo_restored_on_reject else memo_restored_on_error) then loaded s else [];
                 stack := []; base := root; ns := ns s; events := events s |};
     ss_names := ss_names ss |}.

(* per input: the outcome and what it added to the init trace (its own top level last, when it ran) *)
Fixpoint run_session (fs : fsys) (root : list ident) (fuel : nat) (inputs : list (fpath * module)) (ss : sstate)
  : list (res (list event)) :=
  match inputs with
  | [] => []
  | (name, m) :: r =>
      let before := length (events (ss_st ss)) in
      match run_input fs root fuel name m ss with
      | Ok (ss', _) => Ok (skipn before (events (ss_st ss'))) :: run_session fs root fuel r ss'
      | Err e s =>
          Err e {| loaded := loaded s; stack := stack s; base := base s; ns := ns s; events := skipn before (events s) |}
          :: run_session fs root fuel r (after_error root ss s (rejected_after_load fs root fuel m ss))
      | Fuel => [Fuel]
      end
  end.

(* fuel that always suffices (Proofs: no_divergence): every stack entry is a distinct file *)
Definition fuel_bound (fs : fsys) : nat := S (S (length (files fs))).

(* ---------------------------------------------------------------- what a top level can name *)
Inductive spelling := SBare (n : ident) | SQual (q n : ident).    (* n  |  q.n *)

(* q.n with q a module alias is the global "q::n"; with any other q it does not compile
   (our names are never builtins). *)
Definition probe (ev : event) (sp : spelling) : option value :=
  match sp with
  | SBare n => if mem_id n (ev_known ev) then ns_get (GB n) (ev_ns ev) else None
  | SQual q n => if mem_id q (ev_aliases ev) then ns_get (GQ q n) (ev_ns ev) else None
  end.
