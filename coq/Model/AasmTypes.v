(* Types of the per-opcode operand table of the assembly text format (Extracted/AasmTable.v).
   Definitions only. *)
From Coq Require Import NArith List String.
Import ListNotations.

Inductive okind :=
| KReg      (* r<N>            *)
| KU8       (* <N>   0..255    *)
| KI16      (* <N>   -32768..32767 *)
| KUpval    (* upval[<N>]      *)
| KKonst    (* k<N>            *)
| KBool     (* true | false    *)
| KLabel.   (* L<k> | @<N>     jump target *)
Inductive ofield := FA | FB | FC | FImm.     (* bits 16-23 / 8-15 / 0-7 / 0-15 of the word *)
Definition shape := list (okind * ofield).

(* what the assembler does for a mnemonic: opcode encoded, operands, zero cache words appended *)
Inductive parse_spec := Parse (op : N) (sh : shape) (cache : N).
(* op number, mnemonic, operands the disassembler prints, cache words it skips, assembler side *)
Inductive row := Row (op : N) (name : string) (print : shape) (cache : N) (asm : option parse_spec).
