(* Definitional big-step evaluator for the core language (written from docs/language-spec.md,
   not from the compiler).  Executable; explicit fuel; output trace; outcome classes.
   Definitions only. *)
From Coq Require Import ZArith NArith String Ascii List Bool Floats.
From Aelys Require Import Model.Lang.
From Aelys Require Model.VmArith.
Import ListNotations.
Local Open Scope string_scope.
Local Open Scope Z_scope.

(* ------------------------------------------------------------------ values *)
Inductive value :=
| VInt (n : Z)
| VFlt (bits : N)
| VBool (b : bool)
| VNull
| VStr (s : string)
| VClo (name : string) (params : list (string * bool)) (body : list stmt) (env : list (string * nat))
| VArr (l : nat)        (* fixed-size array: location in the object heap *)
| VVec (l : nat)        (* growable vector *)
| VBuiltin (name : string).

Inductive errkind :=
| EDivZero | EType | EIndex | EUndefined | ENotCallable | EArity | EStackOverflow | EUnsupported.

Inductive res (A : Type) :=
| ROk (a : A)
| RErr (k : errkind)
| RFuel.
Arguments ROk {A} a.
Arguments RErr {A} k.
Arguments RFuel {A}.

Inductive ctl :=
| CNormal (last : value)     (* value of the last statement executed (implicit result) *)
| CBreak
| CContinue
| CReturn (v : value).

Record state := mkState {
  cells : list value;                      (* local variable cells, by location *)
  objs : list (list value);                (* arrays / vecs, by location *)
  globals : list (string * value);         (* top-level bindings, by name *)
  out : string                             (* everything printed so far *)
}.

Definition empty_state : state := mkState [] [] [] "".

(* ------------------------------------------------------------------ integers *)
Definition wrap48 (n : Z) : Z := (n + 140737488355328) mod 281474976710656 - 140737488355328.
Definition wrap64 (n : Z) : Z := (n + 9223372036854775808) mod 18446744073709551616 - 9223372036854775808.

(* decimal printing *)
Fixpoint pos_digits (fuel : nat) (n : Z) (acc : string) : string :=
  match fuel with
  | O => acc
  | S f =>
      let d := n mod 10 in
      let acc' := String (ascii_of_N (Z.to_N (48 + d))) acc in
      if n / 10 =? 0 then acc' else pos_digits f (n / 10) acc'
  end.
Definition Z_to_string (n : Z) : string :=
  if n <? 0 then String "-" (pos_digits 25 (- n) "") else pos_digits 25 n "".

(* ------------------------------------------------------------------ printing *)
Fixpoint join_with (sep : string) (l : list string) : string :=
  match l with
  | [] => ""
  | [x] => x
  | x :: r => x ++ sep ++ join_with sep r
  end.

Definition nth_obj (st : state) (l : nat) : list value := nth l (objs st) [].

Fixpoint to_str (fuel : nat) (st : state) (v : value) : string :=
  match v with
  | VInt n => Z_to_string n
  | VFlt _ => "<float>"
  | VBool true => "true"
  | VBool false => "false"
  | VNull => "null"
  | VStr s => s
  | VClo name _ _ _ => "<function " ++ name ++ ">"
  | VBuiltin name => "<native " ++ name ++ ">"
  | VArr l =>
      match fuel with
      | O => "[...]"
      | S f => "[" ++ join_with ", " (map (to_str f st) (nth_obj st l)) ++ "]"
      end
  | VVec l =>
      match fuel with
      | O => "Vec[...]"
      | S f => "Vec[" ++ join_with ", " (map (to_str f st) (nth_obj st l)) ++ "]"
      end
  end.

Definition truthy (v : value) : bool :=
  match v with
  | VNull => false
  | VBool b => b
  | VInt n => negb (n =? 0)
  | _ => true
  end.

(* ------------------------------------------------------------------ operators *)
Definition shift_count (b : Z) : Z := Z.land b 63.

Definition int_binop (op : binop) (a b : Z) : res value :=
  match op with
  | BAdd => ROk (VInt (wrap48 (a + b)))
  | BSub => ROk (VInt (wrap48 (a - b)))
  | BMul => ROk (VInt (wrap48 (a * b)))
  | BDiv => if b =? 0 then RErr EDivZero else ROk (VInt (wrap48 (Z.quot a b)))
  | BMod => if b =? 0 then RErr EDivZero else ROk (VInt (wrap48 (Z.rem a b)))
  | BEq => ROk (VBool (a =? b))
  | BNe => ROk (VBool (negb (a =? b)))
  | BLt => ROk (VBool (a <? b))
  | BLe => ROk (VBool (a <=? b))
  | BGt => ROk (VBool (b <? a))
  | BGe => ROk (VBool (b <=? a))
  | BShl => ROk (VInt (wrap48 (wrap64 (Z.shiftl a (shift_count b)))))
  | BShr => ROk (VInt (wrap48 (Z.shiftr a (shift_count b))))
  | BBitAnd => ROk (VInt (wrap48 (Z.land a b)))
  | BBitOr => ROk (VInt (wrap48 (Z.lor a b)))
  | BBitXor => ROk (VInt (wrap48 (Z.lxor a b)))
  end.

Definition value_eqb (a b : value) : option bool :=
  match a, b with
  | VInt x, VInt y => Some (x =? y)
  | VBool x, VBool y => Some (Bool.eqb x y)
  | VNull, VNull => Some true
  | VStr x, VStr y => Some (String.eqb x y)
  | VInt _, (VBool _ | VNull | VStr _) | VBool _, (VInt _ | VNull | VStr _)
  | VNull, (VInt _ | VBool _ | VStr _) | VStr _, (VInt _ | VBool _ | VNull) => Some false
  | _, _ => None        (* floats / references: outside the modelled fragment *)
  end.

(* floats: IEEE-754 binary64 on bit patterns (codec and kernels of Model/VmArith.v);
   an int operand of a float operation is promoted *)
Definition is_flt (v : value) : bool := match v with VFlt _ => true | _ => false end.
Definition to_float (v : value) : option float :=
  match v with
  | VFlt b => Some (VmArith.f_of_bits b)
  | VInt n => Some (VmArith.f_of_int n)
  | _ => None
  end.
Definition aop_of (op : binop) : option VmArith.aop :=
  match op with
  | BAdd => Some VmArith.AAdd | BSub => Some VmArith.ASub | BMul => Some VmArith.AMul | BDiv => Some VmArith.ADiv | BMod => Some VmArith.AMod
  | _ => None
  end.
Definition cop_of (op : binop) : option VmArith.cop :=
  match op with
  | BEq => Some VmArith.CEq | BNe => Some VmArith.CNe | BLt => Some VmArith.CLt | BLe => Some VmArith.CLe | BGt => Some VmArith.CGt | BGe => Some VmArith.CGe
  | _ => None
  end.
Definition float_binop (op : binop) (x y : float) : res value :=
  match aop_of op with
  | Some o => ROk (VFlt (VmArith.float_arith o x y))
  | None =>
      match cop_of op with
      | Some c => ROk (VBool (VmArith.float_cmp c x y))
      | None => RErr EType
      end
  end.

Definition eval_binop (op : binop) (a b : value) : res value :=
  match a, b with
  | VInt x, VInt y => int_binop op x y
  | _, _ =>
      if is_flt a || is_flt b then
        match to_float a, to_float b with
        | Some x, Some y => float_binop op x y
        | _, _ =>
            match op with
            | BEq => ROk (VBool false)
            | BNe => ROk (VBool true)
            | _ => RErr EType
            end
        end
      else
      match op with
      | BEq => match value_eqb a b with Some r => ROk (VBool r) | None => RErr EUnsupported end
      | BNe => match value_eqb a b with Some r => ROk (VBool (negb r)) | None => RErr EUnsupported end
      | BAdd =>
          match a, b with
          | VStr x, VStr y => ROk (VStr (x ++ y))
          | _, _ => RErr EType
          end
      | _ => RErr EType
      end
  end.

Definition eval_unop (op : unop) (a : value) : res value :=
  match op, a with
  | UNeg, VInt x => ROk (VInt (wrap48 (- x)))
  | UBitNot, VInt x => ROk (VInt (wrap48 (- x - 1)))
  | UNot, v => ROk (VBool (negb (truthy v)))
  | UNeg, VFlt b => ROk (VFlt (VmArith.bits_of_f (- VmArith.f_of_bits b)%float))
  | _, VFlt _ => RErr EType
  | _, _ => RErr EType
  end.

(* ------------------------------------------------------------------ environment / store *)
Fixpoint lookup {A} (x : string) (l : list (string * A)) : option A :=
  match l with
  | [] => None
  | (y, v) :: r => if String.eqb x y then Some v else lookup x r
  end.

Fixpoint set_nth {A} (n : nat) (v : A) (l : list A) : list A :=
  match l, n with
  | [], _ => []
  | _ :: r, O => v :: r
  | x :: r, S k => x :: set_nth k v r
  end.

Fixpoint set_assoc {A} (x : string) (v : A) (l : list (string * A)) : list (string * A) :=
  match l with
  | [] => [(x, v)]
  | (y, w) :: r => if String.eqb x y then (y, v) :: r else (y, w) :: set_assoc x v r
  end.

Definition alloc_cell (st : state) (v : value) : state * nat :=
  (mkState (cells st ++ [v]) (objs st) (globals st) (out st), length (cells st)).
Definition set_cell (st : state) (l : nat) (v : value) : state :=
  mkState (set_nth l v (cells st)) (objs st) (globals st) (out st).
Definition alloc_obj (st : state) (vs : list value) : state * nat :=
  (mkState (cells st) (objs st ++ [vs]) (globals st) (out st), length (objs st)).
Definition set_obj (st : state) (l : nat) (vs : list value) : state :=
  mkState (cells st) (set_nth l vs (objs st)) (globals st) (out st).
Definition set_global (st : state) (x : string) (v : value) : state :=
  mkState (cells st) (objs st) (set_assoc x v (globals st)) (out st).
Definition emit (st : state) (s : string) : state :=
  mkState (cells st) (objs st) (globals st) (out st ++ s).

Definition builtins : list string := ["println"; "print"].

Definition lookup_var (env : list (string * nat)) (st : state) (x : string) : res value :=
  match lookup x env with
  | Some l => ROk (nth l (cells st) VNull)
  | None =>
      match lookup x (globals st) with
      | Some v => ROk v
      (* the front end rejects names that are bound nowhere, so a name that reaches this point is a
         top-level `let` / `fn` whose statement has not executed yet: such a global reads as null *)
      | None => if existsb (String.eqb x) builtins then ROk (VBuiltin x) else ROk VNull
      end
  end.

Definition assign_var (env : list (string * nat)) (st : state) (x : string) (v : value) : state :=
  match lookup x env with
  | Some l => set_cell st l v
  | None => set_global st x v
  end.

(* bind parameters to fresh cells (copies) *)
Fixpoint bind_params (ps : list (string * bool)) (vs : list value) (env : list (string * nat)) (st : state)
  : list (string * nat) * state :=
  match ps, vs with
  | (p, _) :: ps', v :: vs' =>
      let '(st1, l) := alloc_cell st v in
      bind_params ps' vs' ((p, l) :: env) st1
  | _, _ => (env, st)
  end.

Definition MAX_CALL_DEPTH : nat := 1000.

(* indexing / methods on arrays and vecs (by reference, bounds-checked) *)
Definition index_get (st : state) (va vi : value) : res value :=
  match va, vi with
  | (VArr l | VVec l), VInt i =>
      let items := nth_obj st l in
      if (0 <=? i) && (i <? Z.of_nat (length items)) then ROk (nth (Z.to_nat i) items VNull)
      else RErr EIndex
  | (VArr _ | VVec _), _ => RErr EType
  | _, _ => RErr EUnsupported
  end.

Definition index_set (st : state) (va vi vv : value) : state * res value :=
  match va, vi with
  | (VArr l | VVec l), VInt i =>
      let items := nth_obj st l in
      if (0 <=? i) && (i <? Z.of_nat (length items))
      then (set_obj st l (set_nth (Z.to_nat i) vv items), ROk vv)
      else (st, RErr EIndex)
  | (VArr _ | VVec _), _ => (st, RErr EType)
  | _, _ => (st, RErr EUnsupported)
  end.

Definition call_method (st : state) (vo : value) (m : string) (vs : list value) : state * res value :=
  match vo, m, vs with
  | (VArr l | VVec l), "len", [] => (st, ROk (VInt (Z.of_nat (length (nth_obj st l)))))
  | VVec l, "push", [v] => (set_obj st l (nth_obj st l ++ [v]), ROk VNull)
  | _, _, _ => (st, RErr EUnsupported)
  end.

(* ------------------------------------------------------------------ the evaluator *)
(* [top] = the statement sits directly at the top level of the program (let/fn define globals) *)
Fixpoint eval_expr (fuel : nat) (depth : nat) (env : list (string * nat)) (st : state) (e : expr)
  {struct fuel} : state * res value :=
  match fuel with
  | O => (st, RFuel)
  | S f =>
      match e with
      | EInt n => (st, ROk (VInt (wrap48 n)))
      | EFlt b => (st, ROk (VFlt b))
      | EBool b => (st, ROk (VBool b))
      | EStr s => (st, ROk (VStr s))
      | ENull => (st, ROk VNull)
      | EVar x => (st, lookup_var env st x)
      | EBin op a b =>
          match eval_expr f depth env st a with
          | (st1, ROk va) =>
              match eval_expr f depth env st1 b with
              | (st2, ROk vb) => (st2, eval_binop op va vb)
              | r => r
              end
          | r => r
          end
      | EUn op a =>
          match eval_expr f depth env st a with
          | (st1, ROk va) => (st1, eval_unop op va)
          | r => r
          end
      | EAnd a b =>
          match eval_expr f depth env st a with
          | (st1, ROk va) => if truthy va then eval_expr f depth env st1 b else (st1, ROk va)
          | r => r
          end
      | EOr a b =>
          match eval_expr f depth env st a with
          | (st1, ROk va) => if truthy va then (st1, ROk va) else eval_expr f depth env st1 b
          | r => r
          end
      | EIf c a b =>
          match eval_expr f depth env st c with
          | (st1, ROk vc) => if truthy vc then eval_expr f depth env st1 a else eval_expr f depth env st1 b
          | r => r
          end
      | EAssign x a =>
          match eval_expr f depth env st a with
          | (st1, ROk va) => (assign_var env st1 x va, ROk va)
          | r => r
          end
      | EFmt parts =>
          match eval_fmt f depth env st parts with
          | (st1, ROk s) => (st1, ROk (VStr s))
          | (st1, RErr k) => (st1, RErr k)
          | (st1, RFuel) => (st1, RFuel)
          end
      | ELam ps body => (st, ROk (VClo "<lambda>" ps body env))
      | ECall (EMember o m) args =>
          match eval_expr f depth env st o with
          | (st1, ROk vo) =>
              match eval_args f depth env st1 args with
              | (st2, ROk vs) => call_method st2 vo m vs
              | (st2, RErr k) => (st2, RErr k)
              | (st2, RFuel) => (st2, RFuel)
              end
          | r => r
          end
      | ECall fe args =>
          match eval_expr f depth env st fe with
          | (st1, ROk vf) =>
              match eval_args f depth env st1 args with
              | (st2, ROk vs) => apply_fun f depth st2 vf vs
              | (st2, RErr k) => (st2, RErr k)
              | (st2, RFuel) => (st2, RFuel)
              end
          | r => r
          end
      | EArr es =>
          match eval_args f depth env st es with
          | (st1, ROk vs) => let '(st2, l) := alloc_obj st1 vs in (st2, ROk (VArr l))
          | (st1, RErr k) => (st1, RErr k)
          | (st1, RFuel) => (st1, RFuel)
          end
      | EVec es =>
          match eval_args f depth env st es with
          | (st1, ROk vs) => let '(st2, l) := alloc_obj st1 vs in (st2, ROk (VVec l))
          | (st1, RErr k) => (st1, RErr k)
          | (st1, RFuel) => (st1, RFuel)
          end
      | EIdx a i =>
          match eval_expr f depth env st a with
          | (st1, ROk va) =>
              match eval_expr f depth env st1 i with
              | (st2, ROk vi) => (st2, index_get st2 va vi)
              | r => r
              end
          | r => r
          end
      | EIdxSet a i v =>
          match eval_expr f depth env st a with
          | (st1, ROk va) =>
              match eval_expr f depth env st1 i with
              | (st2, ROk vi) =>
                  match eval_expr f depth env st2 v with
                  | (st3, ROk vv) => index_set st3 va vi vv
                  | r => r
                  end
              | r => r
              end
          | r => r
          end
      | EMember _ _ | EArrSized _ | EOther _ => (st, RErr EUnsupported)
      end
  end

with eval_args (fuel : nat) (depth : nat) (env : list (string * nat)) (st : state) (es : list expr)
  {struct fuel} : state * res (list value) :=
  match fuel with
  | O => (st, RFuel)
  | S f =>
      match es with
      | [] => (st, ROk [])
      | e :: r =>
          match eval_expr f depth env st e with
          | (st1, ROk v) =>
              match eval_args f depth env st1 r with
              | (st2, ROk vs) => (st2, ROk (v :: vs))
              | x => x
              end
          | (st1, RErr k) => (st1, RErr k)
          | (st1, RFuel) => (st1, RFuel)
          end
      end
  end

with eval_fmt (fuel : nat) (depth : nat) (env : list (string * nat)) (st : state) (ps : list fpart)
  {struct fuel} : state * res string :=
  match fuel with
  | O => (st, RFuel)
  | S f =>
      match ps with
      | [] => (st, ROk "")
      | PLit s :: r =>
          match eval_fmt f depth env st r with
          | (st1, ROk t) => (st1, ROk (s ++ t))
          | x => x
          end
      | PExpr e :: r =>
          match eval_expr f depth env st e with
          | (st1, ROk v) =>
              let s := to_str 8 st1 v in
              match eval_fmt f depth env st1 r with
              | (st2, ROk t) => (st2, ROk (s ++ t))
              | x => x
              end
          | (st1, RErr k) => (st1, RErr k)
          | (st1, RFuel) => (st1, RFuel)
          end
      | PHole :: _ => (st, RErr EUnsupported)
      end
  end

with apply_fun (fuel : nat) (depth : nat) (st : state) (vf : value) (vs : list value)
  {struct fuel} : state * res value :=
  match fuel with
  | O => (st, RFuel)
  | S f =>
      match vf with
      | VBuiltin "println" =>
          match vs with
          | [v] => (emit st (to_str 8 st v ++ String (ascii_of_N 10) ""), ROk VNull)
          | _ => (st, RErr EUnsupported)
          end
      | VBuiltin "print" =>
          match vs with
          | [v] => (emit st (to_str 8 st v), ROk VNull)
          | _ => (st, RErr EUnsupported)
          end
      | VClo _ ps body cenv =>
          if negb (Nat.eqb (length ps) (length vs)) then (st, RErr EArity)
          else if Nat.leb MAX_CALL_DEPTH depth then (st, RErr EStackOverflow)
          else
            let '(env1, st1) := bind_params ps vs cenv st in
            match exec_stmts f (S depth) false 1 env1 st1 body with
            | (st2, ROk (CReturn v)) => (st2, ROk v)
            | (st2, ROk (CNormal v)) => (st2, ROk v)
            | (st2, ROk _) => (st2, ROk VNull)
            | (st2, RErr k) => (st2, RErr k)
            | (st2, RFuel) => (st2, RFuel)
            end
      | _ => (st, RErr ENotCallable)
      end
  end

(* statements: returns the control outcome; let-bindings extend the environment of the
   remaining statements of the enclosing list, so [exec_stmts] threads env *)
with exec_stmt (fuel : nat) (depth : nat) (top : bool) (env : list (string * nat)) (st : state) (s : stmt)
  {struct fuel} : state * res (ctl * list (string * nat)) :=
  match fuel with
  | O => (st, RFuel)
  | S f =>
      match s with
      | SExpr e =>
          (* the value of an expression statement is only observed in result position, which
             [exec_stmts] / [exec_branch] handle themselves: here it is dropped *)
          match eval_expr f depth env st e with
          | (st1, ROk _) => (st1, ROk (CNormal VNull, env))
          | (st1, RErr k) => (st1, RErr k)
          | (st1, RFuel) => (st1, RFuel)
          end
      | SLet x _ e =>
          match eval_expr f depth env st e with
          | (st1, ROk v) =>
              if top then (set_global st1 x v, ROk (CNormal VNull, env))
              else let '(st2, l) := alloc_cell st1 v in (st2, ROk (CNormal VNull, (x, l) :: env))
          | (st1, RErr k) => (st1, RErr k)
          | (st1, RFuel) => (st1, RFuel)
          end
      | SFun name ps body _ =>
          if top then (set_global st name (VClo name ps body env), ROk (CNormal VNull, env))
          else
            let '(st1, l) := alloc_cell st VNull in
            let env1 := (name, l) :: env in
            (set_cell st1 l (VClo name ps body env1), ROk (CNormal VNull, env1))
      | SBlock b =>
          match exec_stmts f depth false 0 env st b with
          | (st1, ROk c) => (st1, ROk (c, env))
          | (st1, RErr k) => (st1, RErr k)
          | (st1, RFuel) => (st1, RFuel)
          end
      | SIf c t e =>
          match eval_expr f depth env st c with
          | (st1, ROk vc) =>
              (* a declaration cannot be a branch by itself (the parser only produces blocks and
                 `else if`): outside the modelled fragment *)
              if truthy vc then
                if declares t then (st1, RErr EUnsupported) else
                match exec_stmt f depth false env st1 t with
                | (st2, ROk (c2, _)) => (st2, ROk (c2, env))
                | x => x
                end
              else
                match e with
                | Some es =>
                    if declares es then (st1, RErr EUnsupported) else
                    match exec_stmt f depth false env st1 es with
                    | (st2, ROk (c2, _)) => (st2, ROk (c2, env))
                    | x => x
                    end
                | None => (st1, ROk (CNormal VNull, env))
                end
          | (st1, RErr k) => (st1, RErr k)
          | (st1, RFuel) => (st1, RFuel)
          end
      | SWhile c b =>
          match exec_while f depth env st c b with
          | (st1, ROk c1) => (st1, ROk (c1, env))
          | (st1, RErr k) => (st1, RErr k)
          | (st1, RFuel) => (st1, RFuel)
          end
      | SFor x lo hi incl step b =>
          match eval_expr f depth env st lo with
          | (st1, ROk (VInt vlo)) =>
              match eval_expr f depth env st1 hi with
              | (st2, ROk (VInt vhi)) =>
                  match step with
                  | None =>
                      match exec_for f depth env st2 x vlo vhi incl 1 b with
                      | (st3, ROk c1) => (st3, ROk (c1, env))
                      | (st3, RErr k) => (st3, RErr k)
                      | (st3, RFuel) => (st3, RFuel)
                      end
                  | Some se =>
                      match eval_expr f depth env st2 se with
                      | (st3, ROk (VInt vs)) =>
                          if vs =? 0 then (st3, RErr EUnsupported)
                          else
                            match exec_for f depth env st3 x vlo vhi incl vs b with
                            | (st4, ROk c1) => (st4, ROk (c1, env))
                            | (st4, RErr k) => (st4, RErr k)
                            | (st4, RFuel) => (st4, RFuel)
                            end
                      | (st3, ROk _) => (st3, RErr EUnsupported)
                      | (st3, RErr k) => (st3, RErr k)
                      | (st3, RFuel) => (st3, RFuel)
                      end
                  end
              | (st2, ROk _) => (st2, RErr EUnsupported)
              | (st2, RErr k) => (st2, RErr k)
              | (st2, RFuel) => (st2, RFuel)
              end
          | (st1, ROk _) => (st1, RErr EUnsupported)
          | (st1, RErr k) => (st1, RErr k)
          | (st1, RFuel) => (st1, RFuel)
          end
      | SForEach x e b =>
          match eval_expr f depth env st e with
          | (st1, ROk (VArr l)) | (st1, ROk (VVec l)) =>
              match exec_foreach f depth env st1 x (nth_obj st1 l) b with
              | (st2, ROk c1) => (st2, ROk (c1, env))
              | (st2, RErr k) => (st2, RErr k)
              | (st2, RFuel) => (st2, RFuel)
              end
          | (st1, ROk _) => (st1, RErr EUnsupported)
          | (st1, RErr k) => (st1, RErr k)
          | (st1, RFuel) => (st1, RFuel)
          end
      | SRet None => (st, ROk (CReturn VNull, env))
      | SRet (Some e) =>
          match eval_expr f depth env st e with
          | (st1, ROk v) => (st1, ROk (CReturn v, env))
          | (st1, RErr k) => (st1, RErr k)
          | (st1, RFuel) => (st1, RFuel)
          end
      | SBreak => (st, ROk (CBreak, env))
      | SCont => (st, ROk (CContinue, env))
      | SOther _ => (st, RErr EUnsupported)
      end
  end

(* [mode] says whether the value of the last statement is the value of the list (the
   implicit result): 0 = no (inner block), 1 = function body, 2 = top level of the program,
   3 = branch of a tail if/else.  The rule is syntactic, on the LAST statement only: an
   expression statement yields its value, an if WITH else yields the value of the branch
   taken (same rule inside the branch block), at top level a block yields the value of its
   last statement; everything else yields null. *)
with exec_stmts (fuel : nat) (depth : nat) (top : bool) (mode : nat) (env : list (string * nat)) (st : state) (ss : list stmt)
  {struct fuel} : state * res ctl :=
  match fuel with
  | O => (st, RFuel)
  | S f =>
      match ss with
      | [] => (st, ROk (CNormal VNull))
      | [s] =>
          match mode, s with
          | S _, SExpr e =>
              match eval_expr f depth env st e with
              | (st1, ROk v) => (st1, ROk (CNormal v))
              | (st1, RErr k) => (st1, RErr k)
              | (st1, RFuel) => (st1, RFuel)
              end
          | S _, SIf c t (Some e) =>
              match eval_expr f depth env st c with
              | (st1, ROk vc) => exec_branch f depth env st1 (if truthy vc then t else e)
              | (st1, RErr k) => (st1, RErr k)
              | (st1, RFuel) => (st1, RFuel)
              end
          | 2%nat, SBlock b => exec_stmts f depth false 3 env st b
          | _, _ =>
              match exec_stmt f depth top env st s with
              | (st1, ROk (CNormal _, _)) => (st1, ROk (CNormal VNull))
              | (st1, ROk (c, _)) => (st1, ROk c)
              | (st1, RErr k) => (st1, RErr k)
              | (st1, RFuel) => (st1, RFuel)
              end
          end
      | s :: r =>
          match exec_stmt f depth top env st s with
          | (st1, ROk (CNormal _, env1)) => exec_stmts f depth top mode env1 st1 r
          | (st1, ROk (c, _)) => (st1, ROk c)
          | (st1, RErr k) => (st1, RErr k)
          | (st1, RFuel) => (st1, RFuel)
          end
      end
  end

with exec_branch (fuel : nat) (depth : nat) (env : list (string * nat)) (st : state) (s : stmt)
  {struct fuel} : state * res ctl :=
  match fuel with
  | O => (st, RFuel)
  | S f =>
      match s with
      | SBlock b => exec_stmts f depth false 3 env st b
      | SExpr e =>
          match eval_expr f depth env st e with
          | (st1, ROk v) => (st1, ROk (CNormal v))
          | (st1, RErr k) => (st1, RErr k)
          | (st1, RFuel) => (st1, RFuel)
          end
      | _ =>
          match exec_stmt f depth false env st s with
          | (st1, ROk (CNormal _, _)) => (st1, ROk (CNormal VNull))
          | (st1, ROk (c, _)) => (st1, ROk c)
          | (st1, RErr k) => (st1, RErr k)
          | (st1, RFuel) => (st1, RFuel)
          end
      end
  end

with exec_while (fuel : nat) (depth : nat) (env : list (string * nat)) (st : state) (c : expr) (b : stmt)
  {struct fuel} : state * res ctl :=
  match fuel with
  | O => (st, RFuel)
  | S f =>
      match eval_expr f depth env st c with
      | (st1, ROk vc) =>
          if truthy vc then
            match exec_stmt f depth false env st1 b with
            | (st2, ROk (CBreak, _)) => (st2, ROk (CNormal VNull))
            | (st2, ROk (CReturn v, _)) => (st2, ROk (CReturn v))
            | (st2, ROk (_, _)) => exec_while f depth env st2 c b
            | (st2, RErr k) => (st2, RErr k)
            | (st2, RFuel) => (st2, RFuel)
            end
          else (st1, ROk (CNormal VNull))
      | (st1, RErr k) => (st1, RErr k)
      | (st1, RFuel) => (st1, RFuel)
      end
  end

with exec_for (fuel : nat) (depth : nat) (env : list (string * nat)) (st : state) (x : string)
              (i hi : Z) (incl : bool) (step : Z) (b : stmt)
  {struct fuel} : state * res ctl :=
  match fuel with
  | O => (st, RFuel)
  | S f =>
      let continue_ :=
        if 0 <? step then (if incl then i <=? hi else i <? hi)
        else (if incl then hi <=? i else hi <? i) in
      if continue_ then
        let '(st1, l) := alloc_cell st (VInt i) in
        match exec_stmt f depth false ((x, l) :: env) st1 b with
        | (st2, ROk (CBreak, _)) => (st2, ROk (CNormal VNull))
        | (st2, ROk (CReturn v, _)) => (st2, ROk (CReturn v))
        | (st2, ROk (_, _)) => exec_for f depth env st2 x (wrap48 (i + step)) hi incl step b
        | (st2, RErr k) => (st2, RErr k)
        | (st2, RFuel) => (st2, RFuel)
        end
      else (st, ROk (CNormal VNull))
  end

with exec_foreach (fuel : nat) (depth : nat) (env : list (string * nat)) (st : state) (x : string)
                  (items : list value) (b : stmt)
  {struct fuel} : state * res ctl :=
  match fuel with
  | O => (st, RFuel)
  | S f =>
      match items with
      | [] => (st, ROk (CNormal VNull))
      | v :: r =>
          let '(st1, l) := alloc_cell st v in
          match exec_stmt f depth false ((x, l) :: env) st1 b with
          | (st2, ROk (CBreak, _)) => (st2, ROk (CNormal VNull))
          | (st2, ROk (CReturn v', _)) => (st2, ROk (CReturn v'))
          | (st2, ROk (_, _)) => exec_foreach f depth env st2 x r b
          | (st2, RErr k) => (st2, RErr k)
          | (st2, RFuel) => (st2, RFuel)
          end
      end
  end.



(* ------------------------------------------------------------------ running a program *)
Inductive outcome_class := OcOk | OcErr (k : errkind) | OcFuel.

Record outcome := mkOutcome { oc_class : outcome_class; oc_output : string; oc_value : string }.

Definition run_program (fuel : nat) (p : program) : outcome :=
  match exec_stmts fuel 0 true 2 [] empty_state p with
  | (st, ROk (CNormal v)) => mkOutcome OcOk (out st) (to_str 8 st v)
  | (st, ROk (CReturn v)) => mkOutcome OcOk (out st) (to_str 8 st v)
  | (st, ROk _) => mkOutcome OcOk (out st) "null"
  | (st, RErr k) => mkOutcome (OcErr k) (out st) ""
  | (st, RFuel) => mkOutcome OcFuel (out st) ""
  end.
