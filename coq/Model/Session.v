(* C14 / C05 -- a model of whole REPL sessions on the VM's two views of the globals.

   Machine side (what the code does):
     runtime/src/vm/execute.rs, globals/{access,sync,layout}.rs   by-name map, by-index vector of the
                                                                  LOADED layout, snapshot cache
     runtime/src/vm/dispatch/ops/call_*.inc, calls.inc, run.rs    layout switch at calls and returns
                                                                  (compare with the loaded layout),
                                                                  arity check, MAX_FRAMES, unwinding
     runtime/src/vm/call_api/*.rs                                 host calls (look the name up BY NAME)
     driver/src/api/repl.rs                                       the driver loop: clear frames, load
                                                                  imports, compile, record mutability
                                                                  and imports, execute, sync, record
                                                                  the unit's names
     driver/src/modules/loader/compile.rs                         a module: execute, sync, by-name
                                                                  registration of the exports
   Specification side: ONE store by name, no layouts, no snapshots, no frames.

   A layout is identified by its list of names: GlobalLayout::new interns layouts by their names
   (same names <-> same id, id 0 <-> no names); the tie checks this on every layout it sees.
   Definitions only. *)
From Coq Require Import NArith ZArith List Bool.
From Aelys Require Import Extracted.CallCacheConsts Extracted.ReplShape.
Import ListNotations.
Local Open Scope N_scope.

Inductive value := VNull | VInt (z : Z) | VPtr (p : N).
Definition layout := list (option N).            (* slot -> global name; None = "" *)

Definition value_eqb (a b : value) : bool :=
  match a, b with
  | VNull, VNull => true
  | VInt x, VInt y => Z.eqb x y
  | VPtr p, VPtr q => p =? q
  | _, _ => false
  end.

Fixpoint layout_eqb (a b : layout) : bool :=
  match a, b with
  | [], [] => true
  | Some x :: a', Some y :: b' => (x =? y) && layout_eqb a' b'
  | None :: a', None :: b' => layout_eqb a' b'
  | _, _ => false
  end.

(* ---- code -------------------------------------------------------------------------------- *)
Inductive callee := CGlobal (n : N) | CArg.      (* a global call / a call of the function-valued parameter *)

Inductive instr :=
| ISet (n : N) (v : value)            (* n = constant *)
| ICopy (dst src : N)                 (* dst = src (rebinding: f = g) *)
| IAdd (n : N) (k : Z)                (* n = n + k *)
| IPrint (n : N) (k : Z)              (* print (n + k) *)
| IOut (z : Z)                        (* print a constant / a tag *)
| IDef (n : N) (fid : N)              (* fn declaration: a new function object for code fid, bound to n *)
| ICall (c : callee) (nargs : N) (a : option N)   (* call with nargs arguments; Some g: the function-valued
                                                     argument is the current value of global g *)
| IFail.                              (* a run-time error (division by zero) *)

Record fdef := mkF { fd_layout : layout; fd_arity : N; fd_body : list instr }.
Inductive obj := OFn (fid : N) | ONat (tag : Z) (arity : N).

Fixpoint lookup {A} (k : N) (l : list (N * A)) : option A :=
  match l with [] => None | (k', v) :: r => if k =? k' then Some v else lookup k r end.

Definition code := list (N * fdef).

Fixpoint pos_of (n : N) (L : layout) : option nat :=
  match L with
  | [] => None
  | Some m :: r => if n =? m then Some 0%nat else option_map S (pos_of n r)
  | None :: r => option_map S (pos_of n r)
  end.

Inductive status := SOk | SErr | SFuel | SBad.   (* SBad: the code uses a name that is not in its layout *)

Definition pval (v : value) : Z := match v with VInt z => z | _ => (-1000000007)%Z end.

(* ---- specification: one store by name --------------------------------------------------------- *)
Definition store := list (N * value).
Definition sget (s : store) (n : N) : value := match lookup n s with Some v => v | None => VNull end.

Record sstate := mkS { s_store : store; s_heap : list (N * obj); s_next : N }.

Definition memb (n : N) (l : list N) : bool := existsb (N.eqb n) l.

Section WithCode.
Variable C : code.

Definition in_layout (n : N) (L : layout) : bool := match pos_of n L with Some _ => true | None => false end.

(* T: names whose value is unspecified (written by an input or host call that failed); reading one
   makes the rest of the session unspecified (status STaint).  The result carries the names written. *)
Inductive xstatus := XOk | XErr | XFuel | XBad | XTaint.

(* depth: number of frames on the stack (the unit's own frame included) *)
Fixpoint exec_s (fuel : nat) (depth : N) (T : list N) (Lf : layout) (arg : value) (s : sstate) (W : list N)
                (body : list instr) : sstate * list N * list Z * xstatus :=
  match fuel with
  | O => (s, W, [], XFuel)
  | S f =>
    match body with
    | [] => (s, W, [], XOk)
    | i :: r =>
      let continue (s1 : sstate) (W1 : list N) (out : list Z) :=
        let '(s2, W2, out2, st) := exec_s f depth T Lf arg s1 W1 r in (s2, W2, out ++ out2, st) in
      match i with
      | ISet n v => if in_layout n Lf then continue (mkS ((n, v) :: s_store s) (s_heap s) (s_next s)) (n :: W) [] else (s, W, [], XBad)
      | ICopy d src => if in_layout d Lf && in_layout src Lf then
                         if memb src T then (s, W, [], XTaint) else
                         continue (mkS ((d, sget (s_store s) src) :: s_store s) (s_heap s) (s_next s)) (d :: W) []
                       else (s, W, [], XBad)
      | IAdd n k => if in_layout n Lf then
                      if memb n T then (s, W, [], XTaint) else
                      match sget (s_store s) n with
                      | VInt z => continue (mkS ((n, VInt (z + k)) :: s_store s) (s_heap s) (s_next s)) (n :: W) []
                      | _ => (s, W, [], XErr)
                      end else (s, W, [], XBad)
      | IPrint n k => if in_layout n Lf then
                        if memb n T then (s, W, [], XTaint) else
                        continue s W [(pval (sget (s_store s) n) + k)%Z] else (s, W, [], XBad)
      | IOut z => continue s W [z]
      | IDef n fid => if in_layout n Lf
                      then continue (mkS ((n, VPtr (s_next s)) :: s_store s) ((s_next s, OFn fid) :: s_heap s) (N.succ (s_next s))) (n :: W) []
                      else (s, W, [], XBad)
      | ICall c nargs a =>
          if (match c with CGlobal n => in_layout n Lf | CArg => true end)
             && (match a with Some g => in_layout g Lf | None => true end) then
            if (match c with CGlobal n => memb n T | CArg => false end)
               || (match a with Some g => memb g T | None => false end) then (s, W, [], XTaint) else
            let fv := match c with CGlobal n => sget (s_store s) n | CArg => arg end in
            let av := match a with Some g => sget (s_store s) g | None => VNull end in
            match fv with
            | VPtr p =>
                match lookup p (s_heap s) with
                | Some (OFn fid) =>
                    match lookup fid C with
                    | Some fd =>
                        if negb (fd_arity fd =? nargs) then (s, W, [], XErr)
                        else if MAX_FRAMES <=? depth then (s, W, [], XErr)
                        else
                          let '(s1, W1, out1, st1) := exec_s f (depth + 1) T (fd_layout fd) av s W (fd_body fd) in
                          match st1 with
                          | XOk => continue s1 W1 out1
                          | _ => (s1, W1, out1, st1)
                          end
                    | None => (s, W, [], XErr)
                    end
                | Some (ONat tag ar) => if negb (ar =? nargs) then (s, W, [], XErr) else continue s W [tag]
                | None => (s, W, [], XErr)
                end
            | _ => (s, W, [], XErr)
            end
          else (s, W, [], XBad)
      | IFail => (s, W, [], XErr)
      end
    end
  end.

(* ---- machine: two views ------------------------------------------------------------------------ *)
Record frame := mkFrame { f_lay : layout; f_entry : bool }.

Record mstate := mkM {
  gmap : list (N * value);                 (* VM.globals *)
  gidx : list value;                       (* VM.globals_by_index *)
  cur : layout;                            (* the layout that is loaded (current_global_layout / _mapping_id) *)
  snap : list (layout * list value);       (* globals_by_index_cache *)
  frames : list frame;
  m_heap : list (N * obj);
  m_next : N }.

Definition glookup (m : list (N * value)) (n : N) : value := sget m n.
Definition gnth (g : list value) (i : nat) : value := nth i g VNull.

Definition load_vec (m : list (N * value)) (L : layout) : list value :=
  map (fun nm => match nm with Some n => glookup m n | None => VNull end) L.

Fixpoint set_at (i : nat) (x : value) (l : list value) : list value :=
  match i, l with
  | O, [] => [x]
  | O, _ :: t => x :: t
  | S k, [] => VNull :: set_at k x []
  | S k, h :: t => h :: set_at k x t
  end.

Fixpoint sync_from (L : layout) (g : list value) (m : list (N * value)) : list (N * value) :=
  match L, g with
  | Some n :: ns, v :: g' => sync_from ns g' ((n, v) :: m)
  | None :: ns, _ :: g' => sync_from ns g' m
  | _, _ => m
  end.

Fixpoint snap_lookup (L : layout) (s : list (layout * list value)) : option (list value) :=
  match s with [] => None | (L', v) :: r => if layout_eqb L L' then Some v else snap_lookup L r end.

Definition upd_views (st : mstate) gm gi c sn : mstate := mkM gm gi c sn (frames st) (m_heap st) (m_next st).
Definition with_frames (st : mstate) fs : mstate := mkM (gmap st) (gidx st) (cur st) (snap st) fs (m_heap st) (m_next st).

(* set_global_by_index *)
Definition set_idx (st : mstate) (i : nat) (v : value) : mstate :=
  upd_views st (gmap st) (set_at i v (gidx st)) (cur st) [].

(* set_global (by name; the module loader's export registration, host API) *)
Definition set_name (st : mstate) (n : N) (v : value) : mstate :=
  (* 8825c3e: the slot of the LOADED layout that holds this name, if any, is written too *)
  let g := if SET_GLOBAL_WRITES_LOADED_SLOT then
             match pos_of n (cur st) with
             | Some i => if (i <? length (gidx st))%nat then set_at i v (gidx st) else gidx st
             | None => gidx st
             end
           else gidx st in
  upd_views st ((n, v) :: gmap st) g (cur st) [].

(* sync_loaded_globals / sync_globals_to_hashmap(names of the loaded unit) *)
Definition sync_loaded (st : mstate) : mstate :=
  upd_views st (sync_from (cur st) (gidx st) (gmap st)) (gidx st) (cur st) (snap st).

(* prepare_globals_for_function *)
Definition prepare (st : mstate) (L : layout) : mstate :=
  if layout_eqb L (cur st) then st else
  match L with
  | [] => upd_views st (gmap st) [] [] (([], []) :: snap st)
  | _ => match snap_lookup L (snap st) with
         | Some vec => upd_views st (gmap st) vec L (snap st)
         | None => let vec := load_vec (gmap st) L in upd_views st (gmap st) vec L ((L, vec) :: snap st)
         end
  end.

(* VM::execute: load by name (no snapshot, no copy-back), push the unit's frame *)
Definition execute (st : mstate) (L : layout) : mstate :=
  let g := match L with [] => gidx st | _ => load_vec (gmap st) L ++ skipn (length L) (gidx st) end in
  mkM (gmap st) g L (snap st) (mkFrame L true :: frames st) (m_heap st) (m_next st).

(* the layout switch of a call: the callee's layout is compared with the layout that is LOADED (not with the
   caller frame's); a callee without globals of its own keeps what is loaded *)
(* the narrower copy-back (sync_current_function_globals): the layout of the RUNNING function; nothing when that
   function has no globals of its own and runs on a layout loaded further up *)
Definition sync_running (st : mstate) : mstate :=
  match frames st with
  | f :: _ => match f_lay f with [] => st | _ => sync_loaded st end
  | [] => st
  end.

Definition switch_layout (st : mstate) (L : layout) : mstate :=
  let against := if CALLS_COMPARE_WITH_LOADED_LAYOUT then cur st
                 else match frames st with f :: _ => f_lay f | [] => [] end in
  match L with
  | [] => st
  | _ => if layout_eqb L against then st
         else prepare (if LAYOUT_SWITCHES_SYNC_THE_LOADED_LAYOUT then sync_loaded st else sync_running st) L
  end.

(* entering a bytecode function from bytecode: switch, then push the frame *)
Definition call_enter (st : mstate) (L : layout) : mstate :=
  let st1 := switch_layout st L in
  with_frames st1 (mkFrame L false :: frames st1).

(* Return *)
Definition do_return (st : mstate) : mstate :=
  match frames st with
  | [] => st
  | _ :: rest =>
      let caller := match rest with c :: _ => f_lay c | [] => [] end in
      let needs := match caller with [] => false | _ => negb (layout_eqb caller (cur st)) end in
      let leaving := if RETURN_SYNCS_WHEN_LEAVING then match rest with [] => true | _ => false end else false in
      let st1 := if needs || leaving then sync_loaded st else st in
      let st2 := with_frames st1 rest in
      if needs then prepare st2 caller else st2
  end.

Fixpoint unwind (fs : list frame) : list frame :=
  match fs with [] => [] | f :: r => if f_entry f then r else unwind r end.

Definition mread (st : mstate) (Lf : layout) (n : N) : option value :=
  match pos_of n Lf with Some i => Some (gnth (gidx st) i) | None => None end.

Fixpoint exec_m (fuel : nat) (Lf : layout) (arg : value) (st : mstate) (body : list instr)
  : mstate * list Z * status :=
  match fuel with
  | O => (st, [], SFuel)
  | S f =>
    match body with
    | [] => (st, [], SOk)
    | i :: r =>
      let continue (st1 : mstate) (out : list Z) :=
        let '(st2, out2, s) := exec_m f Lf arg st1 r in (st2, out ++ out2, s) in
      match i with
      | ISet n v => match pos_of n Lf with Some i => continue (set_idx st i v) [] | None => (st, [], SBad) end
      | ICopy d src => match pos_of d Lf, pos_of src Lf with
                       | Some i, Some j => continue (set_idx st i (gnth (gidx st) j)) []
                       | _, _ => (st, [], SBad)
                       end
      | IAdd n k => match pos_of n Lf with
                    | Some i => match gnth (gidx st) i with
                                | VInt z => continue (set_idx st i (VInt (z + k))) []
                                | _ => (st, [], SErr)
                                end
                    | None => (st, [], SBad)
                    end
      | IPrint n k => match pos_of n Lf with
                      | Some i => continue st [(pval (gnth (gidx st) i) + k)%Z]
                      | None => (st, [], SBad)
                      end
      | IOut z => continue st [z]
      | IDef n fid => match pos_of n Lf with
                      | Some i =>
                          let st1 := mkM (gmap st) (gidx st) (cur st) (snap st) (frames st)
                                         ((m_next st, OFn fid) :: m_heap st) (N.succ (m_next st)) in
                          continue (set_idx st1 i (VPtr (m_next st))) []
                      | None => (st, [], SBad)
                      end
      | ICall c nargs a =>
          match (match c with CGlobal n => mread st Lf n | CArg => Some arg end),
                (match a with Some g => mread st Lf g | None => Some VNull end) with
          | Some fv, Some av =>
              match fv with
              | VPtr p =>
                  match lookup p (m_heap st) with
                  | Some (OFn fid) =>
                      match lookup fid C with
                      | Some fd =>
                          if negb (fd_arity fd =? nargs) then (st, [], SErr)
                          (* the order of the checks in call_global*.inc: arity, layout switch, frame limit, push *)
                          else if MAX_FRAMES <=? N.of_nat (length (frames st)) then (switch_layout st (fd_layout fd), [], SErr)
                          else
                            let '(st1, out1, s1) := exec_m f (fd_layout fd) av (call_enter st (fd_layout fd)) (fd_body fd) in
                            match s1 with
                            | SOk => continue (do_return st1) out1
                            | _ => (st1, out1, s1)
                            end
                      | None => (st, [], SErr)
                      end
                  | Some (ONat tag ar) => if negb (ar =? nargs) then (st, [], SErr) else continue st [tag]
                  | None => (st, [], SErr)
                  end
              | _ => (st, [], SErr)
              end
          | _, _ => (st, [], SBad)
          end
      | IFail => (st, [], SErr)
      end
    end
  end.

(* ---- the driver loop (driver/src/api/repl.rs) and host calls ------------------------------------- *)
(* a module loaded by `needs`: its top-level unit, and the by-name registration of its exports
   (alias := value of name) *)
(* mu_id: which module (the file the import resolves to).  A module that an earlier input of the session loaded
   is in the session's memo (6a174a4): its top level does not run again, only the exports are registered.
   mu_fails: the import cannot be loaded (no such module, a module that does not compile): the loader returns an
   error before anything of it runs. *)
Record munit := mkMU { mu_id : N; mu_fails : bool; mu_layout : layout; mu_body : list instr; mu_exports : list (N * N) }.

Inductive step :=
| SInput (imports : list munit) (compiles : bool) (L : layout) (body : list instr)
         (newmut : list (N * bool)) (imported : list N)
| SHost (n : N) (nargs : N) (arg : value)
| SSet (n : N) (v : value).                      (* the host binds a global by name: VM::set_global *)

Record dstate := mkD { d_vm : mstate; d_known : list N; d_mut : list (N * bool); d_loaded : list N (* the memo *) }.
Record xstate := mkX { x_s : sstate; x_taint : list N; x_known : list N; x_mut : list (N * bool); x_loaded : list N }.

Definition names_of_layout (L : layout) : list N :=
  flat_map (fun o => match o with Some n => [n] | None => [] end) L.

(* run one unit the way VM::execute + run_fast do: on failure the frames of the run are dropped *)
Definition run_unit (fuel : nat) (vm : mstate) (L : layout) (body : list instr) : mstate * list Z * status :=
  let '(vm1, out, s) := exec_m fuel L VNull (execute vm L) body in
  match s with
  | SOk => (do_return vm1, out, SOk)
  | _ => ((if RUN_FAST_UNWINDS_ON_ERROR then with_frames vm1 (unwind (frames vm1)) else vm1), out, s)
  end.

Fixpoint load_modules (fuel : nat) (vm : mstate) (loaded : list N) (ms : list munit) : mstate * list N * list Z * status :=
  match ms with
  | [] => (vm, loaded, [], SOk)
  | m :: r =>
      if mu_fails m then (vm, loaded, [], SErr) else
      let run := negb (memb (mu_id m) loaded) in
      let '(vm1, out, s) := if run then run_unit fuel vm (mu_layout m) (mu_body m) else (vm, [], SOk) in
      match s with
      | SOk =>
          (* vm.sync_globals_to_hashmap(names); register_exports: set_global(alias, get_global(name)) *)
          let vm2 := if MODULE_SYNCS_BEFORE_EXPORTS && run then sync_loaded vm1 else vm1 in
          let vm3 := fold_left (fun v e => set_name v (fst e) (glookup (gmap v) (snd e))) (mu_exports m) vm2 in
          let '(vm4, l4, out2, s2) := load_modules fuel vm3 (if run then mu_id m :: loaded else loaded) r in (vm4, l4, out ++ out2, s2)
      | _ => (vm1, loaded, out, s)
      end
  end.

Definition mstep (fuel : nat) (d : dstate) (st : step) : dstate * list Z * status :=
  match st with
  | SInput imports compiles L body newmut imported =>
      let vm0 := if REPL_CLEARS_FRAMES_FIRST then with_frames (d_vm d) [] else d_vm d in   (* vm.clear_frames() *)
      let '(vm1, l1, out1, s1) := load_modules fuel vm0 (d_loaded d) imports in   (* load_modules_with_memo *)
      match s1 with
      | SOk =>
          if negb compiles then                                               (* type inference / compile_typed returned Err *)
            (mkD vm1 (if REPL_RECORDS_IMPORTS_AFTER_COMPILE then d_known d else imported ++ d_known d) (d_mut d) l1, out1, SErr)
          else
            let known1 := imported ++ d_known d in                            (* recorded once the input is accepted *)
            let mut1 := newmut ++ d_mut d in                                  (* update_global_mutability *)
            let '(vm2, out2, s2) := run_unit fuel vm1 L body in               (* alloc_function; execute *)
            match s2 with
            | SOk => (mkD (if REPL_SYNCS_AFTER_SUCCESSFUL_RUN then sync_loaded vm2 else vm2) (names_of_layout L ++ known1) mut1 l1, out1 ++ out2, SOk)
            | _ => (mkD vm2 known1 mut1 l1, out1 ++ out2, s2)
            end
      (* loading failed: the session still gets its memo back, with every module that was initialised before the failure (dedf19d) *)
      | _ => (mkD vm1 (d_known d) (d_mut d) (if REPL_KEEPS_MODULE_MEMO_ON_FAILED_LOAD then l1 else []), out1, s1)
      end
  | SHost n nargs arg =>
      (* call_function_by_name: the name is looked up in the by-name map *)
      match glookup (gmap (d_vm d)) n with
      | VPtr p =>
          match lookup p (m_heap (d_vm d)) with
          | Some (OFn fid) =>
              match lookup fid C with
              | Some fd =>
                  if negb (fd_arity fd =? nargs) then                            (* checked before anything is prepared *)
                    (mkD (if HOST_CALL_CHECKS_ARITY_FIRST then d_vm d else prepare (d_vm d) (fd_layout fd)) (d_known d) (d_mut d) (d_loaded d), [], SErr) else
                  let vm0 := prepare (d_vm d) (fd_layout fd) in                 (* no copy-back here *)
                  let vm1 := with_frames vm0 (mkFrame (fd_layout fd) true :: frames vm0) in
                  let '(vm2, out, s) := exec_m fuel (fd_layout fd) arg vm1 (fd_body fd) in
                  match s with
                  | SOk => (mkD (do_return vm2) (d_known d) (d_mut d) (d_loaded d), out, SOk)
                  | _ => (mkD (if RUN_FAST_UNWINDS_ON_ERROR then with_frames vm2 (unwind (frames vm2)) else vm2) (d_known d) (d_mut d) (d_loaded d), out, s)
                  end
              | None => (d, [], SErr)
              end
          | Some (ONat tag ar) => if negb (ar =? nargs) then (d, [], SErr) else (d, [tag], SOk)
          | None => (d, [], SErr)
          end
      | _ => (d, [], SErr)
      end
  | SSet n v => (mkD (set_name (d_vm d) n v) (d_known d) (d_mut d) (d_loaded d), [], SOk)
  end.

(* ---- the same session on the by-name store ------------------------------------------------------- *)
Definition to_status (x : xstatus) : status :=
  match x with XOk => SOk | XErr => SErr | XFuel => SFuel | XBad => SBad | XTaint => SBad end.

Fixpoint load_modules_s (fuel : nat) (T : list N) (s : sstate) (W : list N) (loaded : list N) (ms : list munit)
  : sstate * list N * list N * list Z * xstatus :=
  match ms with
  | [] => (s, W, loaded, [], XOk)
  | m :: r =>
      if mu_fails m then (s, W, loaded, [], XErr) else
      let run := negb (memb (mu_id m) loaded) in
      let '(s1, W1, out, st) := if run then exec_s fuel 1 T (mu_layout m) VNull s W (mu_body m) else (s, W, [], XOk) in
      match st with
      | XOk =>
          if existsb (fun e => memb (snd e) T) (mu_exports m) then (s1, W1, loaded, out, XTaint) else
          let s2 := fold_left (fun x e => mkS ((fst e, sget (s_store x) (snd e)) :: s_store x) (s_heap x) (s_next x)) (mu_exports m) s1 in
          let W2 := map fst (mu_exports m) ++ W1 in
          let '(s3, W3, l3, out2, st2) := load_modules_s fuel T s2 W2 (if run then mu_id m :: loaded else loaded) r in (s3, W3, l3, out ++ out2, st2)
      | _ => (s1, W1, loaded, out, st)
      end
  end.

(* after a failure the names written by the failed step become unspecified *)
Definition xstep (fuel : nat) (x : xstate) (st : step) : xstate * list Z * xstatus :=
  match st with
  | SInput imports compiles L body newmut imported =>
      let '(s1, W1, l1, out1, st1) := load_modules_s fuel (x_taint x) (x_s x) [] (x_loaded x) imports in
      match st1 with
      | XOk =>
          if negb compiles then (mkX s1 (x_taint x) (x_known x) (x_mut x) l1, out1, XErr)
          else
            let known1 := imported ++ x_known x in
            let mut1 := newmut ++ x_mut x in
            let '(s2, W2, out2, st2) := exec_s fuel 1 (x_taint x) L VNull s1 W1 body in
            match st2 with
            | XOk => (mkX s2 (x_taint x) (names_of_layout L ++ known1) mut1 l1, out1 ++ out2, XOk)
            | _ => (mkX s2 (W2 ++ x_taint x) known1 mut1 l1, out1 ++ out2, st2)
            end
      | _ => (mkX s1 (W1 ++ x_taint x) (x_known x) (x_mut x) l1, out1, st1)
      end
  | SHost n nargs arg =>
      if memb n (x_taint x) then (x, [], XTaint) else
      match sget (s_store (x_s x)) n with
      | VPtr p =>
          match lookup p (s_heap (x_s x)) with
          | Some (OFn fid) =>
              match lookup fid C with
              | Some fd =>
                  if negb (fd_arity fd =? nargs) then (x, [], XErr) else
                  let '(s1, W1, out, st1) := exec_s fuel 1 (x_taint x) (fd_layout fd) arg (x_s x) [] (fd_body fd) in
                  match st1 with
                  | XOk => (mkX s1 (x_taint x) (x_known x) (x_mut x) (x_loaded x), out, XOk)
                  | _ => (mkX s1 (W1 ++ x_taint x) (x_known x) (x_mut x) (x_loaded x), out, st1)
                  end
              | None => (x, [], XErr)
              end
          | Some (ONat tag ar) => if negb (ar =? nargs) then (x, [], XErr) else (x, [tag], XOk)
          | None => (x, [], XErr)
          end
      | _ => (x, [], XErr)
      end
  | SSet n v => (mkX (mkS ((n, v) :: s_store (x_s x)) (s_heap (x_s x)) (s_next (x_s x))) (x_taint x) (x_known x) (x_mut x) (x_loaded x), [], XOk)
  end.

Fixpoint msession (fuel : nat) (d : dstate) (steps : list step) : list (list Z * status) :=
  match steps with
  | [] => []
  | st :: r => let '(d1, out, s) := mstep fuel d st in (out, s) :: msession fuel d1 r
  end.

(* the specification's run; None as soon as the session becomes unspecified (a tainted name is read),
   ill-formed (a name outside its layout) or runs out of fuel *)
Fixpoint xsession (fuel : nat) (x : xstate) (steps : list step) : option (list (list Z * status)) :=
  match steps with
  | [] => Some []
  | st :: r =>
      let '(x1, out, s) := xstep fuel x st in
      match s with
      | XOk | XErr => match xsession fuel x1 r with Some l => Some ((out, to_status s) :: l) | None => None end
      | _ => None
      end
  end.

(* the states after a session *)
Fixpoint mfinal (fuel : nat) (d : dstate) (steps : list step) : dstate :=
  match steps with [] => d | st :: r => mfinal fuel (fst (fst (mstep fuel d st))) r end.
Fixpoint xfinal (fuel : nat) (x : xstate) (steps : list step) : xstate :=
  match steps with [] => x | st :: r => xfinal fuel (fst (fst (xstep fuel x st))) r end.

End WithCode.

Definition minit : mstate := mkM [] [] [] [] [] [] 1.
Definition dinit : dstate := mkD minit [] [] [].
Definition xinit : xstate := mkX (mkS [] [] 1) [] [] [] [].

(* ---- decidable well-formedness of the inputs (layouts have pairwise distinct names; export aliases) ---- *)
Fixpoint nodupb (L : layout) : bool :=
  match L with
  | [] => true
  | Some n :: r => negb (in_layout n r) && nodupb r
  | None :: r => nodupb r
  end.

Definition wf_munit (m : munit) : bool := nodupb (mu_layout m).

Definition wf_step (st : step) : bool :=
  match st with
  | SInput imports _ L _ _ _ => nodupb L && forallb wf_munit imports
  | SHost _ _ _ => true
  | SSet _ _ => true
  end.

Definition wf_codeb (C : code) : bool := forallb (fun e => nodupb (fd_layout (snd e))) C.

(* ------------------------------------------------------------------ the tie (tools/props/c14.py)
   a generated session, as code and steps read off the real compiled units (harness/src/bin/hx_repl.rs):
   the machine's observations when the session is well formed and specified and the machine agrees with
   the specification (it must, by session_refines_init: the check guards the translation, not the theorem);
   otherwise a marker that never equals a real observation *)
Definition status_eqb (a b : status) : bool :=
  match a, b with SOk, SOk | SErr, SErr | SFuel, SFuel | SBad, SBad => true | _, _ => false end.
Fixpoint zlist_eqb (a b : list Z) : bool :=
  match a, b with [] , [] => true | x :: a', y :: b' => Z.eqb x y && zlist_eqb a' b' | _, _ => false end.
Fixpoint sobs_eqb (a b : list (list Z * status)) : bool :=
  match a, b with
  | [], [] => true
  | (o1, s1) :: a', (o2, s2) :: b' => zlist_eqb o1 o2 && status_eqb s1 s2 && sobs_eqb a' b'
  | _, _ => false
  end.
Definition tie_fuel : nat := 3000.
Definition session_tie (q : code * list step) : list (list Z * status) :=
  let '(C, steps) := q in
  if negb (wf_codeb C && forallb wf_step steps) then [([(-1)%Z], SBad)]
  else match xsession C tie_fuel xinit steps with
       | None => [([(-2)%Z], SBad)]
       | Some o => let m := msession C tie_fuel dinit steps in
                   if sobs_eqb o m then m else [([(-3)%Z], SBad)]
       end.
(* the machine alone (for sessions the specification leaves open) *)
Definition session_machine (q : code * list step) : list (list Z * status) :=
  msession (fst q) tie_fuel dinit (snd q).
