(* C15 -- the lexer's automatic semicolon insertion (frontend/src/lexer/scanner/{mod,scan,cursor}.rs)
   over a source text abstracted to a list of PIECES:
     Tok k        the text of one token of kind k (TPlusPlus / TMinusMinus = the texts "++" / "--")
     NL           '\n'
     Blank        ' ' | '\t' | '\r'
     LineComment  "//" : swallows everything up to (not including) the next NL
     BlockComment "/* ... */" (newlines inside it are not seen by the insertion rule)
   Lexer state: pending_semicolon (last token added can_end_statement), nesting_depth
   (incremented by the kinds in depth_open, saturating decrement by depth_close: `(` `[`) and
   brace_stack: at a depth_save kind (`{`) the current depth is pushed and the depth restarts
   at 0, at a depth_restore kind (`}`) it is popped back (nothing happens when the stack is
   empty).  On NL a TSemicolon is added iff
        pending_semicolon && nesting_depth == 0 && !next_token_is_else()
   where next_token_is_else looks at the following CHARACTERS, skipping blanks, newlines,
   `//` comments up to the end of the line and `/* */` comments.  "++"/"--" are one token only when pending_semicolon.  At the end of
   input a pending semicolon is added, then TEof.
   The alphabet, can_end_statement, depth_open/depth_close are regenerated from the Rust
   source on every run (Extracted/AsiTokens.v). *)
From Coq Require Import NArith Bool List.
From Aelys Require Import Extracted.AsiTokens.
Import ListNotations.

Inductive piece := Tok (k : tkind) | NL | Blank | LineComment | BlockComment.

Record lstate := { pending : bool; depth : nat; stack : list nat }.
Definition st0 : lstate := {| pending := false; depth := 0; stack := [] |}.

Definition is_else (k : tkind) : bool := match k with TElse => true | _ => false end.

(* cursor.rs next_token_is_else, on the pieces that follow the newline; c = inside a `//`
   comment (everything up to the next NL is comment text) *)
Fixpoint is_else_next_c (c : bool) (l : list piece) : bool :=
  match l with
  | [] => false
  | NL :: r => is_else_next_c false r
  | p :: r =>
      if c then is_else_next_c true r
      else match p with
           | Tok k => is_else k
           | LineComment => is_else_next_c true r
           | _ => is_else_next_c false r
           end
  end.
Definition is_else_next (l : list piece) : bool := is_else_next_c false l.

(* whether the scanner is inside a `//` comment after the pieces l, starting in mode c *)
Fixpoint mode_after (c : bool) (l : list piece) : bool :=
  match l with
  | [] => c
  | NL :: r => mode_after false r
  | LineComment :: r => mode_after true r
  | _ :: r => mode_after c r
  end.

(* tokens added for the text of one token piece *)
Definition emit (st : lstate) (k : tkind) : list tkind :=
  match k with
  | TPlusPlus => if pending st then [TPlusPlus] else [TPlus; TPlus]
  | TMinusMinus => if pending st then [TMinusMinus] else [TMinus; TMinus]
  | _ => [k]
  end.

Definition after_tok (st : lstate) (k : tkind) : lstate :=
  let last := match k with
              | TPlusPlus => if pending st then TPlusPlus else TPlus
              | TMinusMinus => if pending st then TMinusMinus else TMinus
              | _ => k
              end in
  let p := can_end_statement last in
  if depth_save k then {| pending := p; depth := 0; stack := depth st :: stack st |}
  else if depth_restore k then
    match stack st with
    | d :: r => {| pending := p; depth := d; stack := r |}
    | [] => {| pending := p; depth := depth st; stack := [] |}
    end
  else {| pending := p;
          depth := if depth_open k then S (depth st) else if depth_close k then Nat.pred (depth st) else depth st;
          stack := stack st |}.

Definition nl_inserts (st : lstate) (rest : list piece) : bool :=
  pending st && Nat.eqb (depth st) 0 && negb (is_else_next rest).

Definition after_nl (st : lstate) (rest : list piece) : lstate :=
  if nl_inserts st rest then {| pending := false; depth := depth st; stack := stack st |} else st.

(* Lexer::scan: c = inside a line comment *)
Fixpoint scan (st : lstate) (c : bool) (l : list piece) : list tkind :=
  match l with
  | [] => if pending st then [TSemicolon; TEof] else [TEof]
  | NL :: r =>
      if nl_inserts st r then TSemicolon :: scan (after_nl st r) false r
      else scan st false r
  | p :: r =>
      if c then scan st true r
      else match p with
           | Tok k => emit st k ++ scan (after_tok st k) false r
           | LineComment => scan st true r
           | _ => scan st false r
           end
  end.

Definition asi (l : list piece) : list tkind := scan st0 false l.

(* the lexer state (and whether it is inside a line comment) when it has consumed l1 and the
   text continues with `tail` (the continuation matters only through the else-lookahead of a
   newline at the end of l1) *)
Fixpoint state_at (st : lstate) (c : bool) (l1 tail : list piece) : lstate * bool :=
  match l1 with
  | [] => (st, c)
  | NL :: r => state_at (after_nl st (r ++ tail)) false r tail
  | p :: r =>
      if c then state_at st true r tail
      else match p with
           | Tok k => state_at (after_tok st k) false r tail
           | LineComment => state_at st true r tail
           | _ => state_at st false r tail
           end
  end.

Definition blank_or_nl (p : piece) : bool := match p with Blank | NL => true | _ => false end.
