(* C10 -- object-level accounting of the managed heap: what Heap::alloc adds, what Heap::account_growth adds and
   what Heap::sweep subtracts.  Definitions only; proofs in Proofs/HeapAccountProofs.v.

   As read from the code [bytecode/src/heap/{alloc,gc,access}.rs, runtime/src/vm/alloc.rs]:
   * Heap::alloc(obj):   bytes_allocated += estimate_object_size(&obj)        (the estimate the object has NOW)
   * Heap::sweep:        for every unmarked object  bytes_allocated = bytes_allocated.saturating_sub(estimate_object_size(&obj))
                         (the estimate the object has WHEN IT DIES)
   * VM::vec_reserve_checked: before = v.size_bytes(); v.reserve_exact(..); heap.account_growth(v.size_bytes() - before)
   * every other change of an object (closing an upvalue, storing into an array or vec, ...) touches no counter
   * VM::alloc_object / vec_reserve_checked consult ensure_heap_capacity(estimate / growth) first

   estimate_object_size is one arm per ObjectKind; Extracted.HeapEstimator.estimator_arms says, per arm, whether the
   estimate reads only data fixed at allocation (0), state whose changes are accounted (1) or state that changes
   without accounting (2).  An object is (kind, fixed part of its estimate, state); its estimate is the fixed part
   plus -- for the kinds whose arm reads state -- the state. *)
From Coq Require Import NArith Bool List String.
Import ListNotations.
Local Open Scope N_scope.

Record hobj := mkO { o_kind : N; o_fixed : N; o_state : N }.
Record hp := mkHp { objs : list hobj; hbytes : N }.
(* allocate; change the state of object i by d (close an upvalue: 0 -> 1 word; grow a vec: capacity bytes); collect
   keeping the objects whose flag is true *)
Inductive hstep := HAlloc (o : hobj) | HChange (i : nat) (d : N) | HSweep (keep : list bool).

Section Accounting.
  Variable tbl : list (N * string * N).

  (* a kind without an arm does not exist (the match is exhaustive): 0 *)
  Definition dep_class (k : N) : N :=
    match find (fun r => N.eqb (fst (fst r)) k) tbl with Some r => snd r | None => 0 end.
  Definition est (o : hobj) : N := o_fixed o + (if dep_class (o_kind o) =? 0 then 0 else o_state o).
  Fixpoint total (l : list hobj) : N := match l with [] => 0 | o :: r => est o + total r end.

  Definition bump (o : hobj) (d : N) : hobj := mkO (o_kind o) (o_fixed o) (o_state o + d).
  Fixpoint upd (i : nat) (d : N) (l : list hobj) : list hobj :=
    match l, i with
    | [], _ => []
    | o :: r, O => bump o d :: r
    | o :: r, S j => o :: upd j d r
    end.
  (* sweep: N subtraction is saturating, as in the code *)
  Fixpoint sweep_objs (keep : list bool) (l : list hobj) (b : N) : list hobj * N :=
    match l with
    | [] => ([], b)
    | o :: r =>
        let k := match keep with [] => true | k :: _ => k end in
        let '(r', b') := sweep_objs (tl keep) r (if k then b else b - est o) in
        (if k then o :: r' else r', b')
    end.

  Definition hstep_run (limit : N) (h : hp) (s : hstep) : hp :=
    match s with
    | HAlloc o => if hbytes h + est o <=? limit then mkHp (o :: objs h) (hbytes h + est o) else h
    | HChange i d =>
        match nth_error (objs h) i with
        | None => h
        | Some o =>
            if dep_class (o_kind o) =? 1
            then (let grown := est (bump o d) - est o in
                  if hbytes h + grown <=? limit then mkHp (upd i d (objs h)) (hbytes h + grown) else h)
            else mkHp (upd i d (objs h)) (hbytes h)        (* no counter is touched *)
        end
    | HSweep keep => let '(l, b) := sweep_objs keep (objs h) (hbytes h) in mkHp l b
    end.
  Definition hrun (limit : N) (steps : list hstep) : hp := fold_left (hstep_run limit) steps (mkHp [] 0).

  (* no arm reads state that changes without accounting *)
  Definition no_unaccounted_state : bool := forallb (fun r => snd r <=? 1) tbl.
End Accounting.

(* the seeded shape: an upvalue whose estimate grows by one word when it is closed.  An array of 100 bytes and an
   upvalue of 16 are allocated, the upvalue is closed (+8, no counter touched) and dies: sweep subtracts 24 for the 16
   that were added -- the heap holds 100 bytes and accounts 92 *)
Definition drift_table : list (N * string * N) := [(3, "Upvalue"%string, 2); (5, "Array"%string, 0)].
Definition drift_steps : list hstep := [HAlloc (mkO 5 100 0); HAlloc (mkO 3 16 0); HChange 0 8; HSweep [false; true]].
