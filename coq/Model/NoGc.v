(* C13 -- @no_gc regions: counter machine, emission model, path semantics, executable VM-side and
   source-side interpreters, session model.  Definitions only; proofs in Proofs/NoGcProofs.v.

   What is modelled (as the code is, including its defects):
   * opcode 26 (EnterNoGc) increments no_gc_depth without bound; opcode 27 (ExitNoGc) decrements when
     positive and otherwise raises InvalidBytecode("no_gc underflow")  [runtime/.../ops/memory.inc]
   * VM::enter_no_gc saturates at MAX_NO_GC_DEPTH, VM::exit_no_gc floors at 0           [runtime/src/vm/gc.rs]
   * maybe_collect returns before anything else when no_gc_depth > 0                    [gc.rs]
   * compile_typed_body: params; EnterNoGc; body; (value of a trailing expression); ExitNoGc; Return
   * compile_typed_return: <return expression>; ExitNoGc; Return (before the repair of KF-C13-1: ExitNoGc
     first) -- the order is read from the source and from compiled code by the translator
     (Extracted.NoGcConsts.return_exit_order)
   * nested fn / lambda: compiled by their own compiler (own has_no_gc flag); the declaration is an
     allocation point (function object) in the enclosing function
   * the inliner replaces a call of a function whose body is one `return e` / `e` over parameters and
     literals by e, unless the function carries @no_gc (before the repair of KF-C13-3 it ignored
     @no_gc)                                                                              [opt/src/passes/inline]
   * run_fast puts no_gc_depth back to its value at entry when the run ends with an error
     (before the repair of KF-C13-2 nothing did; `run_vm_raw` is the run without that step) *)
From Coq Require Import NArith ZArith Bool List String.
From Aelys Require Import Extracted.NoGcConsts Extracted.GcRootFields.
Import ListNotations.
Local Open Scope N_scope.

(* ------------------------------------------------------------------ (i) counter machine *)
Definition op_enter (d : N) : N := d + 1.
Definition op_exit (d : N) : option N := if 0 <? d then Some (d - 1) else None.
Definition api_enter (d : N) : N := if api_enter_saturates && (MAX_NO_GC_DEPTH <=? d) then d else d + 1.
Definition api_exit (d : N) : N := if d =? 0 then 0 else d - 1.
Definition is_in_no_gc (d : N) : bool := 0 <? d.

Section Collect.
  Variable H : Type.
  Variable collect : H -> H.
  Variable should_collect : H -> bool.
  (* force = the verification GC schedule (None: as the VM decides) *)
  Definition maybe_collect (force : option bool) (d : N) (h : H) : H :=
    if is_in_no_gc d then h
    else match force with
         | Some true => collect h
         | Some false => h
         | None => if should_collect h then collect h else h
         end.
End Collect.

(* ------------------------------------------------------------------ (ii) source skeleton *)
Inductive cond := CNgt (k : Z) | CNeq (k : Z) | CIeq (k : Z) | CIgt (k : Z) | CZt | CZf.
Inductive expr := EAtom | ESafe | EFail | ECall (f : nat) | EBin (a b : expr).
Inductive stmt :=
| SSkip | SSeq (a b : stmt) | SExpr (e : expr) | SIf (c : cond) (t e : stmt)
| SLoop (j k : N) (b : stmt)            (* for i in j..k  (the generator writes j = 0) *)
| SBreak | SContinue | SReturn (e : expr)
| SDef.                                 (* nested fn / lambda declaration: allocates a function object *)
Fixpoint sq (l : list stmt) : stmt := match l with [] => SSkip | s :: r => SSeq s (sq r) end.
Record fn := mkFn { f_nogc : bool; f_leaf : bool; f_body : stmt }.
Record prog := mkProg { p_fns : list fn; p_main : stmt; p_ndefs : N }.

(* instruction skeleton *)
Inductive code :=
| KNil | KEnter | KExit | KSafe | KFail | KCall (f : nat)
| KSeq (a b : code) | KIf (c : cond) (a b : code) | KLoop (j k : N) (b : code)
| KBreak | KCont | KRet.

Definition kflag (b : bool) (k : code) : code := if b then k else KNil.

Fixpoint emit_expr0 (e : expr) : code :=
  match e with
  | EAtom => KNil | ESafe => KSafe | EFail => KFail | ECall f => KCall f
  | EBin a b => KSeq (emit_expr0 a) (emit_expr0 b)
  end.
Fixpoint no_calls (e : expr) : bool :=
  match e with ECall _ => false | EBin a b => no_calls a && no_calls b | _ => true end.
(* the model inliner: InlineExpander::try_simple_inline on a one-statement body *)
Definition inline_body (s : stmt) : option expr :=
  match s with
  | SReturn e | SExpr e | SSeq (SReturn e) SSkip | SSeq (SExpr e) SSkip => if no_calls e then Some e else None
  | _ => None
  end.
(* skip_nogc: the inliner leaves functions carrying @no_gc alone (read from compiled code by the translator) *)
Definition inline_of_gen (skip_nogc : bool) (P : list fn) (f : nat) : option code :=
  match nth_error P f with
  | Some fd => if f_leaf fd && negb (skip_nogc && f_nogc fd)
               then option_map emit_expr0 (inline_body (f_body fd)) else None
  | None => None
  end.
Definition inline_of := inline_of_gen inliner_skips_no_gc.
Fixpoint emit_expr (inl : bool) (P : list fn) (e : expr) : code :=
  match e with
  | EAtom => KNil | ESafe => KSafe | EFail => KFail
  | ECall f => match (if inl then inline_of P f else None) with Some c => c | None => KCall f end
  | EBin a b => KSeq (emit_expr inl P a) (emit_expr inl P b)
  end.

Definition ret_code (ord : ret_order) (nogc : bool) (ce : code) : code :=
  match ord with
  | RetExitFirst => KSeq (kflag nogc KExit) (KSeq ce KRet)
  | RetExitAfterExpr => KSeq ce (KSeq (kflag nogc KExit) KRet)
  | RetNoExit => KSeq ce KRet
  end.

Fixpoint emit_stmt (ord : ret_order) (inl : bool) (P : list fn) (nogc : bool) (s : stmt) : code :=
  match s with
  | SSkip => KNil
  | SSeq a b => KSeq (emit_stmt ord inl P nogc a) (emit_stmt ord inl P nogc b)
  | SExpr e => emit_expr inl P e
  | SIf c t e => KIf c (emit_stmt ord inl P nogc t) (emit_stmt ord inl P nogc e)
  | SLoop j k b => KLoop j k (emit_stmt ord inl P nogc b)
  | SBreak => KBreak
  | SContinue => KCont
  | SReturn e => ret_code ord nogc (emit_expr inl P e)
  | SDef => KSafe
  end.

(* compile_typed_body *)
Definition emit_fn (ord : ret_order) (inl : bool) (P : list fn) (f : fn) : code :=
  KSeq (kflag (f_nogc f) KEnter)
       (KSeq (emit_stmt ord inl P (f_nogc f) (f_body f))
             (KSeq (kflag (f_nogc f) KExit) KRet)).
Definition emit_tbl (ord : ret_order) (inl : bool) (P : list fn) : list code := map (emit_fn ord inl P) P.

(* ------------------------------------------------------------------ which source constructs are safepoints
   KSafe stands for any instruction that calls VM::maybe_collect.  The list of those call sites is regenerated from the
   source by C03's translator (Extracted.GcRootFields.safepoint_sites: file, enclosing function / opcode arm); the
   constructs of the language that reach them: *)
Inductive construct :=
| CStringConcat        (* `a + b` on strings: Add -> try_concat_strings *)
| CManualAlloc         (* alloc(n): opcode 28 *)
| CFnDecl              (* declaration of a function without captures (top-level or nested): LoadK of a nested-function marker, opcode 2 *)
| CClosureDecl.        (* declaration of a nested function / lambda WITH captures: MakeClosure, opcode 35 *)
Definition all_constructs : list construct := [CStringConcat; CManualAlloc; CFnDecl; CClosureDecl].
Definition construct_site (c : construct) : string * string :=
  match c with
  | CStringConcat => ("vm/arithmetic/strings.rs", "fn try_concat_strings")
  | CManualAlloc => ("vm/dispatch/ops/memory.inc", "op28")
  | CFnDecl => ("vm/dispatch/ops/load_store.inc", "op2")
  | CClosureDecl => ("vm/dispatch/ops/closures.inc", "op35")
  end%string.
(* what the emission model produces for the construct: one safepoint instruction *)
Definition construct_code (c : construct) : code := KSafe.
Definition site_eqb (a b : string * string) : bool := (String.eqb (fst a) (fst b) && String.eqb (snd a) (snd b))%bool.
(* the model's constructs and the extracted call sites of maybe_collect are the same set *)
Definition sites_covered : bool :=
  forallb (fun s => existsb (fun c => site_eqb (construct_site c) s) all_constructs) safepoint_sites &&
  forallb (fun c => existsb (fun s => site_eqb (construct_site c) s) safepoint_sites) all_constructs.

(* ------------------------------------------------------------------ (iii) path semantics (all paths) *)
Inductive ev := VEnter | VExit | VSafe | VCall (f : nat).
Inductive cmp := CNormal | CBrk | CCont | CReturned | CErr.

Inductive path : code -> list ev -> cmp -> Prop :=
| P_err c : path c [] CErr                       (* a run may end with an error before any instruction *)
| P_nil : path KNil [] CNormal
| P_enter : path KEnter [VEnter] CNormal
| P_exit : path KExit [VExit] CNormal
| P_safe : path KSafe [VSafe] CNormal
| P_call f : path (KCall f) [VCall f] CNormal
| P_call_err f : path (KCall f) [VCall f] CErr   (* the callee raised *)
| P_seq_n a b t1 t2 m : path a t1 CNormal -> path b t2 m -> path (KSeq a b) (t1 ++ t2) m
| P_seq_x a b t1 m : path a t1 m -> m <> CNormal -> path (KSeq a b) t1 m
| P_if_l c a b t m : path a t m -> path (KIf c a b) t m
| P_if_r c a b t m : path b t m -> path (KIf c a b) t m
| P_loop_done j k b : path (KLoop j k b) [] CNormal
| P_loop_iter j j' k b t1 t2 m1 m : path b t1 m1 -> (m1 = CNormal \/ m1 = CCont) ->
    path (KLoop j' k b) t2 m -> path (KLoop j k b) (t1 ++ t2) m
| P_loop_brk j k b t : path b t CBrk -> path (KLoop j k b) t CNormal
| P_loop_x j k b t m : path b t m -> (m = CReturned \/ m = CErr) -> path (KLoop j k b) t m
| P_brk : path KBreak [] CBrk
| P_cont : path KCont [] CCont
| P_ret : path KRet [] CReturned.

Local Open Scope Z_scope.
(* depth relative to the entry depth after a trace, and the minimum reached *)
Definition ev_delta (e : ev) : Z := match e with VEnter => 1 | VExit => -1 | _ => 0 end.
Fixpoint dend (d : Z) (t : list ev) : Z := match t with [] => d | e :: r => dend (d + ev_delta e) r end.
Fixpoint dmin (d : Z) (t : list ev) : Z := match t with [] => d | e :: r => Z.min d (dmin (d + ev_delta e) r) end.
Fixpoint count_ev (p : ev -> bool) (t : list ev) : Z :=
  match t with [] => 0 | e :: r => (if p e then 1 else 0) + count_ev p r end.
Definition is_enter e := match e with VEnter => true | _ => false end.
Definition is_exit e := match e with VExit => true | _ => false end.
(* every allocation point / call of the trace happens at depth > 0 when started at depth d *)
Fixpoint alloc_pos (d : Z) (t : list ev) : Prop :=
  match t with
  | [] => True
  | VSafe :: r | VCall _ :: r => 0 < d /\ alloc_pos d r
  | e :: r => alloc_pos (d + ev_delta e) r
  end.
Fixpoint quiet (e : expr) : bool :=
  match e with EAtom | EFail => true | EBin a b => quiet a && quiet b | _ => false end.
Fixpoint ret_quiet (s : stmt) : bool :=
  match s with
  | SSeq a b | SIf _ a b => ret_quiet a && ret_quiet b
  | SLoop _ _ b => ret_quiet b
  | SReturn e => quiet e
  | _ => true
  end.
Local Close Scope Z_scope.

(* ------------------------------------------------------------------ executable VM-side semantics *)
Inductive oc := ONormal | OBrk | OCont | ORet | OErr | OUnder | OFuel.
Record vst := mkV { v_depth : N; v_safes : N; v_pos : N }.
Definition safepoint (st : vst) : vst :=
  mkV (v_depth st) (v_safes st + 1) (if is_in_no_gc (v_depth st) then v_pos st + 1 else v_pos st).
Definition set_depth (st : vst) (d : N) : vst := mkV d (v_safes st) (v_pos st).
Definition ceval (c : cond) (n i : Z) : bool :=
  match c with
  | CNgt k => (k <? n)%Z | CNeq k => (n =? k)%Z | CIeq k => (i =? k)%Z | CIgt k => (k <? i)%Z
  | CZt => true | CZf => false
  end.

Fixpoint vm_exec (fuel : nat) (tbl : list code) (c : code) (n i : Z) (st : vst) : oc * vst :=
  match fuel with
  | O => (OFuel, st)
  | S f =>
    match c with
    | KNil => (ONormal, st)
    | KEnter => (ONormal, set_depth st (op_enter (v_depth st)))
    | KExit => match op_exit (v_depth st) with
               | Some d => (ONormal, set_depth st d)
               | None => (OUnder, st)
               end
    | KSafe => (ONormal, safepoint st)
    | KFail => (OErr, st)
    | KCall g =>
        match nth_error tbl g with
        | None => (OErr, st)
        | Some cg =>
            match vm_exec f tbl cg (n - 1)%Z 0%Z st with
            | (ORet, st') | (ONormal, st') => (ONormal, st')
            | (OBrk, st') | (OCont, st') => (OErr, st')   (* cannot happen: break outside a loop is a compile error *)
            | r => r
            end
        end
    | KSeq a b => match vm_exec f tbl a n i st with
                  | (ONormal, st') => vm_exec f tbl b n i st'
                  | r => r
                  end
    | KIf cd a b => if ceval cd n i then vm_exec f tbl a n i st else vm_exec f tbl b n i st
    | KLoop j k b =>
        if j <? k then
          match vm_exec f tbl b n (Z.of_N j) st with
          | (ONormal, st') | (OCont, st') => vm_exec f tbl (KLoop (j + 1) k b) n i st'
          | (OBrk, st') => (ONormal, st')
          | r => r
          end
        else (ONormal, st)
    | KBreak => (OBrk, st)
    | KCont => (OCont, st)
    | KRet => (ORet, st)
    end
  end.

(* ------------------------------------------------------------------ source-level semantics (the specification
   side): which allocation points happen while a @no_gc function is on the source-level call stack *)
Record sst := mkS { s_total : N; s_flag : N }.
Definition src_safe (rs : N) (st : sst) : sst :=
  mkS (s_total st + 1) (if 0 <? rs then s_flag st + 1 else s_flag st).

Fixpoint src_expr (fuel : nat) (P : list fn) (e : expr) (n : Z) (rs : N) (st : sst) {struct fuel} : oc * sst :=
  match fuel with
  | O => (OFuel, st)
  | S f =>
    match e with
    | EAtom => (ONormal, st)
    | ESafe => (ONormal, src_safe rs st)
    | EFail => (OErr, st)
    | ECall g =>
        match nth_error P g with
        | None => (OErr, st)
        | Some fd =>
            match src_stmt f P (f_body fd) (n - 1)%Z 0%Z (if f_nogc fd then rs + 1 else rs) st with
            | (ORet, st') | (ONormal, st') => (ONormal, st')
            | (OBrk, st') | (OCont, st') => (OErr, st')
            | r => r
            end
        end
    | EBin a b => match src_expr f P a n rs st with
                  | (ONormal, st') => src_expr f P b n rs st'
                  | r => r
                  end
    end
  end
with src_stmt (fuel : nat) (P : list fn) (s : stmt) (n i : Z) (rs : N) (st : sst) {struct fuel} : oc * sst :=
  match fuel with
  | O => (OFuel, st)
  | S f =>
    match s with
    | SSkip => (ONormal, st)
    | SSeq a b => match src_stmt f P a n i rs st with
                  | (ONormal, st') => src_stmt f P b n i rs st'
                  | r => r
                  end
    | SExpr e => src_expr f P e n rs st
    | SIf c t e => if ceval c n i then src_stmt f P t n i rs st else src_stmt f P e n i rs st
    | SLoop j k b =>
        if j <? k then
          match src_stmt f P b n (Z.of_N j) rs st with
          | (ONormal, st') | (OCont, st') => src_stmt f P (SLoop (j + 1) k b) n i rs st'
          | (OBrk, st') => (ONormal, st')
          | r => r
          end
        else (ONormal, st)
    | SBreak => (OBrk, st)
    | SContinue => (OCont, st)
    | SReturn e => match src_expr f P e n rs st with
                   | (ONormal, st') => (ORet, st')
                   | r => r
                   end
    | SDef => (ONormal, src_safe rs st)
    end
  end.

(* ------------------------------------------------------------------ (iv) one top-level run and sessions *)
Definition FUEL : nat := 3000.
Definition ndefs_state (d0 nd : N) : vst := mkV d0 nd (if is_in_no_gc d0 then nd else 0).
(* the top-level code: one function object per top-level declaration, then the statements;
   the top-level function is never @no_gc *)
Definition run_vm_raw (ord : ret_order) (inl : bool) (P : prog) (n0 : Z) (d0 : N) : oc * vst :=
  vm_exec FUEL (emit_tbl ord inl (p_fns P)) (emit_stmt ord inl (p_fns P) false (p_main P)) n0 0%Z
          (ndefs_state d0 (p_ndefs P)).
(* run_fast: when the run fails, the frames are dropped and no_gc_depth is put back to its value at entry
   (`restores` is read from the behaviour of compiled code by the translator) *)
Definition restore_on_err (restores : bool) (d0 : N) (r : oc * vst) : oc * vst :=
  match r with
  | (OErr, st) => if restores then (OErr, set_depth st d0) else r
  | (OUnder, st) => if restores then (OUnder, set_depth st d0) else r
  | _ => r
  end.
Definition run_vm (ord : ret_order) (inl : bool) (P : prog) (n0 : Z) (d0 : N) : oc * vst :=
  restore_on_err error_restores_depth d0 (run_vm_raw ord inl P n0 d0).
Definition run_src (P : prog) (n0 : Z) : oc * sst :=
  src_stmt FUEL (p_fns P) (p_main P) n0 0%Z 0 (mkS (p_ndefs P) 0).

(* what the driver does between REPL inputs: run_with_vm_and_opt starts with vm.clear_frames();
   no_gc_depth is not touched by the driver (the restore after a failed run is inside run_fast, see run_vm) *)
Definition driver_next_depth (o : oc) (st : vst) : N := v_depth st.
Fixpoint session_with (run : prog -> Z -> N -> oc * vst) (inputs : list (prog * Z)) (d : N) : list (oc * N) :=
  match inputs with
  | [] => []
  | (P, n0) :: r =>
      let o := fst (run P n0 d) in
      let d' := driver_next_depth o (snd (run P n0 d)) in
      (o, d') :: session_with run r d'
  end.
Definition session (ord : ret_order) (inl : bool) := session_with (run_vm ord inl).
