(* C20 -- the string natives that count or slice by characters (runtime/src/stdlib/string.rs),
   over the BYTE string, next to the VM paths of Model/Utf8.v:
     char_at(s, i)      i < 0 => "" ; s.chars().nth(i) => that character | ""
     substr(s, a, n)    a < 0 || n < 0 => "" ; s.chars().skip(a).take(n).collect()
     chars(s)           s.chars() joined with "\n"        split(s, "") = the same
     reverse(s)         s.chars().rev().collect()
     pad_left / pad_right(s, width, pad)
                        pad_c = pad.chars().next() or ' ' ; k = s.chars().count()
                        width <= 0 || k >= width => s ; else (width - k) copies of pad_c before / after s
     repeat(s, n)       n <= 0 => "" ; n copies       concat(a, b) = a followed by b
     byte_at(s, i)      i < 0 || i >= s.len() => -1 ; the byte
   (capacity errors of repeat / pad for results that do not fit the heap are not modelled). *)
From Coq Require Import NArith ZArith Bool List.
From Aelys Require Import Model.Utf8.
Import ListNotations.
Local Open Scope N_scope.

Definition nat_char_at (s : list N) (i : Z) : list N :=
  if (i <? 0)%Z then []
  else match nth_error (chars s) (Z.to_nat i) with Some c => encode c | None => [] end.

Definition nat_substr (s : list N) (a n : Z) : list N :=
  if ((a <? 0) || (n <? 0))%Z then []
  else utf8 (firstn (Z.to_nat n) (skipn (Z.to_nat a) (chars s))).

Fixpoint join (sep : list N) (parts : list (list N)) : list N :=
  match parts with
  | [] => []
  | [p] => p
  | p :: r => p ++ sep ++ join sep r
  end.
Definition nat_chars (s : list N) : list N := join [10] (map encode (chars s)).
Definition nat_split_empty (s : list N) : list N := join [10] (map encode (chars s)).

Definition nat_reverse (s : list N) : list N := utf8 (rev (chars s)).

Definition pad_char (pad : list N) : N := match chars pad with c :: _ => c | [] => 32 end.
Definition pad_count (s : list N) (width : Z) : nat :=
  if (width <=? 0)%Z then O else (Z.to_nat width - char_len s)%nat.
Definition nat_pad_left (s : list N) (width : Z) (pad : list N) : list N :=
  utf8 (repeat (pad_char pad) (pad_count s width)) ++ s.
Definition nat_pad_right (s : list N) (width : Z) (pad : list N) : list N :=
  s ++ utf8 (repeat (pad_char pad) (pad_count s width)).

Definition nat_repeat (s : list N) (n : Z) : list N :=
  if (n <=? 0)%Z then [] else concat (repeat s (Z.to_nat n)).
Definition nat_concat (a b : list N) : list N := a ++ b.

Definition nat_byte_at (s : list N) (i : Z) : Z :=
  if ((i <? 0) || (Z.of_nat (length s) <=? i))%Z then (-1)%Z
  else Z.of_N (nth (Z.to_nat i) s 0).
