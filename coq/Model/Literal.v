(* C15 -- integer literal text -> value (frontend/src/lexer/scanner/number.rs).
   A literal is the maximal chunk the scanner consumes, given as character codes:
     "0x"/"0X" + [hex digits and _]* ; "0b"/"0B" + [01_]* ; "0o"/"0O" + [0-7_]* ;
     otherwise [0-9][0-9_]*  (decimal; float forms are not integers and not modelled)
   The underscores are filtered out and the rest goes to i64::from_str_radix / str::parse::<i64>
   (error when empty or above i64::MAX).  lex_int answers None for a text that is not one
   complete integer literal or that the scanner rejects. *)
From Coq Require Import NArith Bool List.
Import ListNotations.
Local Open Scope N_scope.

Definition I64_MAX : N := 9223372036854775807.
Definition US : N := 95.   (* '_' *)

(* value of a character as a digit, case-insensitive for letters (char::to_digit) *)
Definition digit_val (radix c : N) : option N :=
  let v := if (48 <=? c) && (c <=? 57) then Some (c - 48)
           else if (97 <=? c) && (c <=? 102) then Some (c - 87)
           else if (65 <=? c) && (c <=? 70) then Some (c - 55)
           else None in
  match v with Some d => if d <? radix then Some d else None | None => None end.

Definition strip (s : list N) : list N := filter (fun c => negb (c =? US)) s.

Fixpoint digits_value (radix acc : N) (s : list N) : option N :=
  match s with
  | [] => Some acc
  | c :: r => match digit_val radix c with
              | Some d => digits_value radix (acc * radix + d) r
              | None => None
              end
  end.

(* i64::from_str_radix on an unsigned digit string *)
Definition from_str_radix (radix : N) (s : list N) : option N :=
  match s with
  | [] => None
  | _ => match digits_value radix 0 s with
         | Some v => if v <=? I64_MAX then Some v else None
         | None => None
         end
  end.

Definition body_ok (radix : N) (s : list N) : bool :=
  forallb (fun c => (c =? US) || match digit_val radix c with Some _ => true | None => false end) s.

Definition is_prefix_letter (p : N) : bool :=
  (p =? 120) || (p =? 88) || (p =? 98) || (p =? 66) || (p =? 111) || (p =? 79).
Definition radix_of_prefix (p : N) : N :=
  if (p =? 120) || (p =? 88) then 16 else if (p =? 98) || (p =? 66) then 2 else 8.

Definition lex_decimal (text : list N) : option N :=
  match text with
  | c :: body =>
      match digit_val 10 c with
      | Some _ => if body_ok 10 body then from_str_radix 10 (strip text) else None
      | None => None
      end
  | [] => None
  end.

Definition lex_int (text : list N) : option N :=
  match text with
  | 48 :: p :: body =>
      if is_prefix_letter p then
        if body_ok (radix_of_prefix p) body then from_str_radix (radix_of_prefix p) (strip body) else None
      else lex_decimal text
  | _ => lex_decimal text
  end.

(* rendering a value in a radix: least significant digit first, then reversed *)
Definition digit_char (upper : bool) (d : N) : N :=
  if d <? 10 then 48 + d else if upper then 55 + d else 87 + d.

Fixpoint digits_rev (fuel : nat) (radix n : N) : list N :=
  match fuel with
  | O => [n mod radix]
  | S k => if n <? radix then [n] else (n mod radix) :: digits_rev k radix (n / radix)
  end.
Definition render_digits (upper : bool) (radix n : N) : list N :=
  map (digit_char upper) (rev (digits_rev 64 radix n)).

Definition prefix_of (radix : N) (upper_prefix : bool) : list N :=
  if radix =? 16 then [48; if upper_prefix then 88 else 120]
  else if radix =? 2 then [48; if upper_prefix then 66 else 98]
  else if radix =? 8 then [48; if upper_prefix then 79 else 111]
  else [].
Definition render_int (radix : N) (upper_prefix upper_digits : bool) (n : N) : list N :=
  prefix_of radix upper_prefix ++ render_digits upper_digits radix n.
