(* C03 -- where a heap reference can live outside the heap, and what VM::collect does about it.

   `vm` has one component for every field of `struct VM` (runtime/src/vm/core.rs) that can hold a
   Value or GcRef; the list of those fields is regenerated from the source
   (Extracted/GcRootFields.v) and `field_disposition` below must cover it (checked by computation in
   Props/C03.v): a new reference-holding field, or a field collect stops reading, breaks the build.

   collect_roots  -- the root list exactly as VM::collect (runtime/src/vm/gc.rs) enumerates it
   holds_ref      -- the specification: the places through which the running program can still get
                     at an object (the property's "live variable, global, captured variable,
                     running function") plus the slots of live manually managed buffers (the
                     property leaves those out; since /repo 474d1a4 the VM roots them, so the model
                     does); dead registers above every frame window and the layout snapshots that
                     collect clears are not places the interpreter reads again. *)
From Coq Require Import NArith List String Bool.
From Aelys Require Import Model.Gc.
Import ListNotations.
Local Open Scope N_scope.

Definition value := option N.          (* Some p: Value::as_ptr() = Some(p) *)

Record frame := mkFrame {
  fr_base : N;                          (* CallFrame::base *)
  fr_nregs : N;                         (* CallFrame::num_registers *)
  fr_function : N;                      (* CallFrame::function *)
  fr_closure : option N;                (* the closure object whose upvalue vector upvalues_ptr points into *)
  fr_fn_nregs : N                       (* Function::num_registers of the function the frame runs (heap object) *)
}.

Record vm := mkVm {
  v_registers : list value;             (* VM::registers *)
  v_frames : list frame;                (* VM::frames *)
  v_globals : list N;                   (* pointer values of VM::globals *)
  v_globals_by_index : list value;      (* VM::globals_by_index *)
  v_open_upvalues : list N;             (* VM::open_upvalues *)
  v_current_upvalues : list N;          (* VM::current_upvalues *)
  v_globals_cache : list N;             (* pointer values inside VM::globals_by_index_cache snapshots *)
  v_manual : list N                     (* pointer values in the live (not freed) buffers of VM::manual_heap *)
}.

Definition ptrs (l : list value) : list N :=
  flat_map (fun v => match v with Some p => [p] | None => [] end) l.

(* `for i in 0..count { idx = base + i; if idx < registers.len() ... }` *)
Definition window (regs : list value) (base n : N) : list value :=
  firstn (N.to_nat n) (skipn (N.to_nat base) regs).

Definition frame_roots (regs : list value) (f : frame) : list N :=
  ptrs (window regs (fr_base f) (fr_nregs f)) ++ [fr_function f].

Definition running_closures (fs : list frame) : list N :=
  flat_map (fun f => match fr_closure f with Some c => [c] | None => [] end) fs.

(* VM::collect, in the order of the code (the order is irrelevant to every statement) *)
Definition collect_roots (s : vm) : list N :=
  flat_map (frame_roots (v_registers s)) (v_frames s)
  ++ running_closures (v_frames s)
  ++ v_globals s
  ++ ptrs (v_globals_by_index s)
  ++ v_manual s
  ++ v_open_upvalues s
  ++ v_current_upvalues s.

(* collect: mark from those roots, sweep, clear the layout snapshots *)
Definition vm_collect (s : vm) (h : heap) : option (vm * heap) :=
  match collect h (collect_roots s) with
  | Some h' => Some (mkVm (v_registers s) (v_frames s) (v_globals s) (v_globals_by_index s)
                          (v_open_upvalues s) (v_current_upvalues s) [] (v_manual s), h')
  | None => None
  end.

(* HISTORICAL: the root list before /repo af27ef7 (running closures not rooted; manual buffers were
   not roots either at that time) *)
Definition collect_roots_old (s : vm) : list N :=
  flat_map (frame_roots (v_registers s)) (v_frames s)
  ++ v_globals s ++ ptrs (v_globals_by_index s) ++ v_open_upvalues s ++ v_current_upvalues s.

(* HISTORICAL: the root list before /repo 474d1a4 (values stored in manual memory were not roots) *)
Definition collect_roots_no_manual (s : vm) : list N :=
  flat_map (frame_roots (v_registers s)) (v_frames s)
  ++ running_closures (v_frames s)
  ++ v_globals s ++ ptrs (v_globals_by_index s) ++ v_open_upvalues s ++ v_current_upvalues s.

(* ---- specification: the places the program can still reach an object through ------------ *)
Inductive holds_ref (s : vm) : N -> Prop :=
| hr_live_variable : forall f k p,       (* a register inside the window of an active frame *)
    In f (v_frames s) -> fr_base f <= k -> k < fr_base f + fr_fn_nregs f ->
    nth_error (v_registers s) (N.to_nat k) = Some (Some p) -> holds_ref s p
| hr_running_function : forall f, In f (v_frames s) -> holds_ref s (fr_function f)
| hr_running_closure : forall f c, In f (v_frames s) -> fr_closure f = Some c -> holds_ref s c
| hr_global : forall p, In p (v_globals s) -> holds_ref s p
| hr_global_by_index : forall p, In (Some p) (v_globals_by_index s) -> holds_ref s p
| hr_manual_buffer : forall p, In p (v_manual s) -> holds_ref s p   (* a slot of a live alloc()ed buffer: load() *)
| hr_open_upvalue : forall p, In p (v_open_upvalues s) -> holds_ref s p
| hr_current_upvalue : forall p, In p (v_current_upvalues s) -> holds_ref s p.

(* frame-record consistency: every frame records the register count of the function it runs.
   `collect` scans fr_nregs registers, the function uses fr_fn_nregs of them (the specification's
   window); the call paths copy the count from the function, a closure or a call-site cache entry.
   The tie checks this on every dumped state and the audit at every collection. *)
Definition frames_consistent (s : vm) : Prop :=
  forall f, In f (v_frames s) -> fr_nregs f = fr_fn_nregs f.
Definition frames_consistent_b (s : vm) : bool :=
  forallb (fun f => fr_nregs f =? fr_fn_nregs f) (v_frames s).

(* everything the program can reach: through one of those places, then along any stored reference *)
Definition program_reachable (s : vm) (h : heap) (i : N) : Prop :=
  exists r, holds_ref s r /\ reach edges_spec h [r] i.

(* ---- the field table (hand part; the extracted part is Extracted/GcRootFields.v) ---------- *)
Inductive disposition :=
| DHeap            (* the heap itself *)
| DMarked          (* every reference in it is marked by collect *)
| DWindowed        (* marked through the register windows of the active frames *)
| DCleared         (* dropped by collect: never read again with pre-collection contents *)
| DOutside         (* outside the guarantee by the property's wording (was: manually managed buffers, which
                      /repo 474d1a4 made roots; no field has this disposition now) *)
| DRawGuarded      (* raw pointers into objects that stay reachable through a marked field while the
                      entry is valid (call-site cache: validated against the global, property C05) *)
| DCodeOnly.       (* mentions Value only in function-pointer signatures: stores no reference *)

Local Open Scope string_scope.
Definition field_disposition : list (string * disposition) :=
  [("heap", DHeap); ("manual_heap", DMarked); ("registers", DWindowed); ("frames", DMarked);
   ("globals", DMarked); ("globals_by_index_cache", DCleared); ("globals_by_index", DMarked);
   ("open_upvalues", DMarked); ("current_upvalues", DMarked); ("call_site_cache", DRawGuarded);
   ("native_registry", DCodeOnly)].

(* CallFrame: function is marked; upvalues_ptr is covered by marking the closure that owns the
   vector; constants_ptr points into the constant table of the frame's function *)
Definition frame_field_disposition : list (string * string) :=
  [("function", "marked"); ("constants_ptr", "into-function"); ("upvalues_ptr", "owner-marked")].

(* the safepoints whose interpreter locals were analysed by hand (notes/C03.md):
     strings.rs try_concat_strings -- operands stay in registers, the result is a Rust String
     closures.inc MakeClosure (35) -- one safepoint, before alloc_function; the nested Function clone
                                      holds constants that the parent function keeps alive
     load_store.inc LoadK (2)      -- same, before alloc_function
     memory.inc Alloc (28)         -- no reference in locals *)
Definition analysed_safepoints : list (string * string) :=
  [("vm/arithmetic/strings.rs", "fn try_concat_strings"); ("vm/dispatch/ops/closures.inc", "op35");
   ("vm/dispatch/ops/load_store.inc", "op2"); ("vm/dispatch/ops/memory.inc", "op28")].

Definition model_kinds : list string := ["Array"; "Closure"; "Function"; "Native"; "String"; "Upvalue"; "Vec"].

Fixpoint lookup {A} (k : string) (l : list (string * A)) : option A :=
  match l with
  | [] => None
  | (k', v) :: t => if String.eqb k k' then Some v else lookup k t
  end.

Fixpoint str_list_eqb (a b : list string) : bool :=
  match a, b with
  | [], [] => true
  | x :: a', y :: b' => String.eqb x y && str_list_eqb a' b'
  | _, _ => false
  end.
Fixpoint pair_list_eqb (a b : list (string * string)) : bool :=
  match a, b with
  | [], [] => true
  | (x1, x2) :: a', (y1, y2) :: b' => String.eqb x1 y1 && String.eqb x2 y2 && pair_list_eqb a' b'
  | _, _ => false
  end.
Definition str_mem (x : string) (l : list string) : bool := existsb (String.eqb x) l.

(* every reference-holding field has a disposition; what the model marks is what collect reads;
   what the model clears is what collect clears *)
Definition fields_agree (ref_fields : list (string * string)) (uses clears : list string) : bool :=
  forallb (fun ft => match lookup (fst ft) field_disposition with Some _ => true | None => false end) ref_fields
  && forallb (fun fd => match snd fd with
                        | DMarked | DWindowed | DHeap => str_mem (fst fd) uses
                        | DCleared => str_mem (fst fd) clears && negb (str_mem (fst fd) uses)
                        | DOutside | DRawGuarded | DCodeOnly => negb (str_mem (fst fd) uses)
                        end) field_disposition
  && forallb (fun u => match lookup u field_disposition with
                       | Some (DMarked | DWindowed | DHeap) => true | _ => false end) uses
  && forallb (fun fd => str_mem (fst fd) (map fst ref_fields)) field_disposition.

Definition frame_fields_agree (ref_fields : list (string * string)) (uses : list string) : bool :=
  str_list_eqb (map fst ref_fields) (map fst frame_field_disposition)
  && forallb (fun n => str_mem n uses) ["function"; "upvalues_ptr"; "base"; "num_registers"].

(* ---- observation for the tie: the model computes the roots itself ------------------------ *)
Local Open Scope N_scope.
Inductive vmq := QVmCollect (s : vm) (h : heap).

Fixpoint dedup_sorted (l : list N) : list N :=
  match l with
  | x :: ((y :: _) as t) => if x =? y then dedup_sorted t else x :: dedup_sorted t
  | _ => l
  end.

(* [survivors; free list after AS A SET (sorted: the order of reuse is an internal matter); objects reachable per edges_spec from the model's roots; the
   model's roots (sorted, deduplicated); pointer values left in the snapshots after collect; [1] iff every frame records its function's
   register count] *)
Definition vm_obs (q : vmq) : list (list N) :=
  match q with
  | QVmCollect s h =>
      let roots := collect_roots s in
      match vm_collect s h, mark_roots edges_spec (fuel_bound edges_spec h) h [] roots with
      | Some (s', h'), Some ms => [live h'; sort (free h'); sort ms; dedup_sorted (sort roots); v_globals_cache s';
                                    [if frames_consistent_b s then 1 else 0]]
      | _, _ => []
      end
  end.
