(* String literals of the assembly text format: escape_string (disassembler) and read_string
   (assembler lexer) over Unicode scalar values.  Definitions only; the two escape tables come
   from the Rust source (Extracted/AasmEscapes.v). *)
From Coq Require Import NArith Bool List.
From Aelys Require Import Extracted.AasmEscapes.
Import ListNotations.
Local Open Scope N_scope.

Fixpoint assoc (k : N) (t : list (N * N)) : option N :=
  match t with [] => None | (a, b) :: r => if a =? k then Some b else assoc k r end.

Definition is_ascii_control (c : N) : bool := (c <? 32) || (c =? 127).
Definition hex_digit (d : N) : N := if d <? 10 then 48 + d else 87 + d.       (* {:x}: 0-9 a-f *)
Definition hex_value (c : N) : option N :=                                     (* is_ascii_hexdigit + from_str_radix *)
  if (48 <=? c) && (c <=? 57) then Some (c - 48)
  else if (97 <=? c) && (c <=? 102) then Some (c - 87)
  else if (65 <=? c) && (c <=? 70) then Some (c - 55)
  else None.

Definition BACKSLASH : N := 92.
Definition QUOTE : N := 34.
Definition LETTER_X : N := 120.

Definition escape_char (c : N) : list N :=
  match assoc c ESC_TABLE with
  | Some l => [BACKSLASH; l]
  | None => if is_ascii_control c then [BACKSLASH; LETTER_X; hex_digit (c / 16); hex_digit (c mod 16)] else [c]
  end.
Definition escape (s : list N) : list N := flat_map escape_char s.

(* read_string, entered after the opening quote: the characters up to the closing quote, and
   what follows it; None = unterminated string / unknown escape / bad hex escape *)
Fixpoint unescape (cs : list N) : option (list N * list N) :=
  match cs with
  | [] => None
  | c :: r =>
      if c =? QUOTE then Some ([], r)
      else if c =? BACKSLASH then
        match r with
        | [] => None
        | l :: r1 =>
            if l =? LETTER_X then
              match r1 with
              | h1 :: h2 :: r2 =>
                  match hex_value h1, hex_value h2 with
                  | Some a, Some b =>
                      match unescape r2 with Some (s, rest) => Some ((16 * a + b) :: s, rest) | None => None end
                  | _, _ => None
                  end
              | _ => None
              end
            else match assoc l UNESC_TABLE with
                 | Some ch => match unescape r1 with Some (s, rest) => Some (ch :: s, rest) | None => None end
                 | None => None
                 end
        end
      else match unescape r with Some (s, rest) => Some (c :: s, rest) | None => None end
  end.

(* what the two tables must satisfy *)
Definition esc_tables_ok : bool :=
  forallb (fun p => match assoc (snd p) UNESC_TABLE with Some c => (c =? fst p) | None => false end
                    && negb (snd p =? LETTER_X)) ESC_TABLE
  && (match assoc QUOTE ESC_TABLE with Some _ => true | None => false end)
  && (match assoc BACKSLASH ESC_TABLE with Some _ => true | None => false end).
