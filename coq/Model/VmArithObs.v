(* Observations for the hx_vmop contract tie: the same thing the harness prints per case. *)
From Coq Require Import NArith ZArith Bool List.
From Aelys Require Import Extracted.Opcodes Model.Value Model.VmArith.
Import ListNotations.
Local Open Scope N_scope.

Inductive vq :=
| QBin (op : opcode) (a b : N)
| QUn (op : opcode) (a : N)
| QImm (op : opcode) (a c : N)
| QFor (inclusive : bool) (i e s : N)
| QWhile (i l : N).

(* W word | E kind (0 TypeError, 1 DivisionByZero) | C p q | L word taken | T taken | P panic | X not modelled *)
Inductive vobs := OW (w : N) | OE (k : N) | OC (p q : N) | OL (w : N) (t : bool) | OT (t : bool) | OP | OX.

Definition obs_of_res (r : vres) : vobs :=
  match r with
  | ROk w => OW w
  | RErr ETypeError => OE 0
  | RErr EDivZero => OE 1
  | RConcat p q => OC p q
  end.

Fixpoint hv_of_list (l : list (N * option N)) : heapview :=
  fun p => match l with
           | [] => None
           | (q, s) :: r => if p =? q then s else hv_of_list r p
           end.

(* debug = the harness was built with debug assertions; since 7e82908 no opcode of this model
   contains a debug_assert!, so both profiles must give the same observation (a panic never
   matches) *)
Definition vmop_obs (debug : bool) (hv : heapview) (q : vq) : vobs :=
  match q with
  | QBin op a b =>
      match vm_binop hv op a b with Some r => obs_of_res r | None => OX end
  | QUn op a =>
      match vm_unop op a with Some r => obs_of_res r | None => OX end
  | QImm op a c =>
      match vm_immop hv op a c with Some r => obs_of_res r | None => OX end
  | QFor incl i e s =>
      match forloop_i incl i e s with Some r => OL (fst r) (snd r) | None => OE 0 end
  | QWhile i l =>
      match while_loop_lt i l with Some t => OT t | None => OE 0 end
  end.

Definition vobs_eqb (x y : vobs) : bool :=
  match x, y with
  | OW a, OW b => a =? b
  | OE a, OE b => a =? b
  | OC a b, OC c d => (a =? c) && (b =? d)
  | OL a s, OL b t => (a =? b) && Bool.eqb s t
  | OT s, OT t => Bool.eqb s t
  | OP, OP => true
  | _, _ => false
  end.
