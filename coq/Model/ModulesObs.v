(* Observations for the C19 contract tie: exactly what hx_modules prints for a module tree. *)
From Coq Require Import NArith Bool List.
From Aelys Require Import Model.Modules.
Import ListNotations.
Local Open Scope N_scope.

Record mq := { q_fs : fsys; q_entry : fpath; q_probes : list (fpath * spelling) }.

(* outcome code, init trace, and per probe the values its importer printed (one per time the
   importer's top level ran, up to the first rejection) *)
Definition mobs := (N * list fpath * list (list value))%type.

Definition err_code (e : errk) : N :=
  match e with ECircular => 1 | ENotFound => 2 | ESymbolNotFound => 3 | ESymbolConflict => 4 | ECompile => 5 | ERuntime => 6 end.

Fixpoint take_some {A} (l : list (option A)) : list A :=
  match l with
  | Some v :: r => v :: take_some r
  | _ => []
  end.

Definition probe_obs (evs : list event) (pr : fpath * spelling) : list value :=
  (* the probe is the last statement of the file: a top level that raised never reaches it *)
  take_some (map (fun ev => probe ev (snd pr)) (filter (fun ev => key_eqb (ev_file ev) (fst pr) && ev_done ev) evs)).

Definition mod_obs (q : mq) : mobs :=
  match run (q_fs q) (q_entry q) (fuel_bound (q_fs q)) with
  | Ok evs => (0, map ev_file evs, map (probe_obs evs) (q_probes q))
  | Err e s => (err_code e, map ev_file (events s), map (probe_obs (events s)) (q_probes q))
  | Fuel => (8, [], [])
  end.

Definition value_eqb (a b : value) : bool := key_eqb (fst a) (fst b) && (snd a =? snd b).

Fixpoint leqb {A} (e : A -> A -> bool) (a b : list A) : bool :=
  match a, b with
  | [], [] => true
  | x :: a', y :: b' => e x y && leqb e a' b'
  | _, _ => false
  end.

Definition mobs_eqb (a b : mobs) : bool :=
  (fst (fst a) =? fst (fst b)) && leqb key_eqb (snd (fst a)) (snd (fst b))
  && leqb (leqb value_eqb) (snd a) (snd b).


(* ---- REPL sessions: per input (up to the first failing one) the outcome code and the top levels
   that ran during that input (the input itself is [9; k], last); per probe (input index, spelling)
   the value the input read *)
Record sq := { s_fs : fsys; s_inputs : list module; s_probes : list (nat * spelling) }.
Definition sobs := (list (N * list fpath) * list (list value))%type.

Fixpoint number_inputs (k : N) (ms : list module) : list (fpath * module) :=
  match ms with [] => [] | m :: r => ([9; k], m) :: number_inputs (N.succ k) r end.

Definition sess_results (q : sq) : list (res (list event)) :=
  run_session (s_fs q) [] (fuel_bound (s_fs q)) (number_inputs 0 (s_inputs q)) (session_start []).

Definition sres_obs (r : res (list event)) : N * list fpath :=
  match r with
  | Ok evs => (0, map ev_file evs)
  | Err e s => (err_code e, map ev_file (events s))
  | Fuel => (8, [])
  end.

Definition sprobe_obs (rs : list (res (list event))) (pr : nat * spelling) : list value :=
  match nth_error rs (fst pr) with
  | Some (Ok evs) => match last (map Some evs) None with
                     | Some ev => match probe ev (snd pr) with Some v => [v] | None => [] end
                     | None => []
                     end
  | _ => []
  end.

Definition sess_obs (q : sq) : sobs :=
  let rs := sess_results q in (map sres_obs rs, map (sprobe_obs rs) (s_probes q)).

Definition sobs_eqb (a b : sobs) : bool :=
  leqb (fun x y => (fst x =? fst y) && leqb key_eqb (snd x) (snd y)) (fst a) (fst b)
  && leqb (leqb value_eqb) (snd a) (snd b).
