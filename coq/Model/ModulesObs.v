(* Observations for the C19 contract tie: exactly what hx_modules prints for a module tree. *)
From Coq Require Import NArith Bool List.
From Aelys Require Import Model.Modules.
Import ListNotations.
Local Open Scope N_scope.

Record mq := { q_fs : fsys; q_entry : fpath; q_probes : list (fpath * spelling) }.

(* outcome code, init trace, and per probe the values its importer printed (one per time the
   importer's top level ran, up to the first rejection) *)
Definition mobs := (N * list fpath * list (list value))%type.

Definition err_code (e : errk) : N :=
  match e with ECircular => 1 | ENotFound => 2 | ESymbolNotFound => 3 | ESymbolConflict => 4 end.

Fixpoint take_some {A} (l : list (option A)) : list A :=
  match l with
  | Some v :: r => v :: take_some r
  | _ => []
  end.

Definition probe_obs (evs : list event) (pr : fpath * spelling) : list value :=
  take_some (map (fun ev => probe ev (snd pr)) (filter (fun ev => key_eqb (ev_file ev) (fst pr)) evs)).

Definition mod_obs (q : mq) : mobs :=
  match run (q_fs q) (q_entry q) (fuel_bound (q_fs q)) with
  | Ok evs => (0, map ev_file evs, map (probe_obs evs) (q_probes q))
  | Err e evs => (err_code e, map ev_file evs, map (probe_obs evs) (q_probes q))
  | Fuel => (8, [], [])
  end.

Definition value_eqb (a b : value) : bool := key_eqb (fst a) (fst b) && (snd a =? snd b).

Fixpoint leqb {A} (e : A -> A -> bool) (a b : list A) : bool :=
  match a, b with
  | [], [] => true
  | x :: a', y :: b' => e x y && leqb e a' b'
  | _, _ => false
  end.

Definition mobs_eqb (a b : mobs) : bool :=
  (fst (fst a) =? fst (fst b)) && leqb key_eqb (snd (fst a)) (snd (fst b))
  && leqb (leqb value_eqb) (snd a) (snd b).

