(* Model of the assembler's rebuild of the function tree (assembler.rs rebuild_hierarchy,
   /repo 68afa7f + 632c031): the disassembler lists functions in pre-order, each with the number
   of its direct nested functions (`.nested N`); the assembler puts the tree back together with
   an explicit stack.  Definitions only; A = everything of a function except its nested list. *)
From Coq Require Import NArith Bool List.
Import ListNotations.

Section Tree.
Variable A : Type.

Inductive tree := Node (a : A) (kids : list tree).

(* disassemble: collect_functions (pre-order) + `.nested <len>` *)
Fixpoint flatten (t : tree) : list (A * nat) :=
  match t with Node a kids => (a, length kids) :: flat_map flatten kids end.

Fixpoint height (t : tree) : nat :=
  match t with Node _ kids => fold_right (fun k acc => Nat.max (S (height k)) acc) 0 kids end.

(* one stack entry: the function under construction, its nested functions so far, how many it still expects *)
Definition entry := (A * list tree * nat)%type.

(* `while stack.len() > 1 && top.remaining == 0 { pop; attach to the parent }` ; fuel = stack length *)
Fixpoint settle (fuel : nat) (st : list entry) : list entry :=
  match fuel with
  | O => st
  | S k =>
      match st with
      | (a, ks, O) :: (b, kb, m) :: rest => settle k ((b, kb ++ [Node a ks], Nat.pred m) :: rest)
      | _ => st
      end
  end.

Definition MAX_FUNCTION_NESTING : nat := 64.

(* the loop over the parsed functions; None = "functions nested deeper than 64 levels" *)
Fixpoint run (items : list (A * nat)) (st : list entry) : option (list entry) :=
  match items with
  | [] => Some st
  | (a, n) :: rest =>
      if Nat.ltb MAX_FUNCTION_NESTING (length st) then None
      else let st1 := (a, [], n) :: st in run rest (settle (length st1) st1)
  end.

(* after the loop: `while stack.len() > 1 { pop; push to the new top }`, then the root *)
Fixpoint unwind (fuel : nat) (st : list entry) : list entry :=
  match fuel with
  | O => st
  | S k => match st with
           | (a, ks, _) :: (b, kb, m) :: rest => unwind k ((b, kb ++ [Node a ks], m) :: rest)
           | _ => st
           end
  end.
Definition rebuild (items : list (A * nat)) : option (option tree) :=
  match run items [] with
  | None => None
  | Some st => match unwind (length st) st with
               | (a, ks, _) :: _ => Some (Some (Node a ks))
               | [] => Some None
               end
  end.
End Tree.
Arguments Node {A}. Arguments flatten {A}. Arguments height {A}. Arguments rebuild {A}. Arguments run {A}. Arguments settle {A}. Arguments unwind {A}.

(* equality of rebuilt trees over numbers (for the tie) *)
Fixpoint tree_eqb (a b : tree N) {struct a} : bool :=
  match a, b with
  | Node x ks, Node y ls =>
      N.eqb x y && (fix go (p q : list (tree N)) : bool :=
                      match p, q with
                      | [], [] => true
                      | u :: p', v :: q' => tree_eqb u v && go p' q'
                      | _, _ => false
                      end) ks ls
  end.
Definition rebuilt_eqb (a b : option (option (tree N))) : bool :=
  match a, b with
  | Some (Some x), Some (Some y) => tree_eqb x y
  | Some None, Some None | None, None => true
  | _, _ => false
  end.
