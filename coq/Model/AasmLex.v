(* Model of the .aasm lexer (bytecode/src/asm/lexer.rs) over Unicode scalar values.
   Definitions only.  Floats carry no value (parse::<f64> is not modelled): AFlt true = the text
   parsed, the token exists; the decimal/exponent text itself is what read_number collected. *)
From Coq Require Import NArith ZArith Bool List.
From Aelys Require Import Extracted.AasmEscapes Model.AasmStr.
Import ListNotations.
Local Open Scope N_scope.

Inductive atok :=
| ADir (s : list N) | ALab (s : list N) | AId (s : list N) | AReg (n : N) | AInt (z : Z) | AFlt
| AStr (s : list N) | ABool (b : bool) | ANull | AComma | AColon | AAt | ALBr | ARBr | ANl | AEof.

Definition is_digit (c : N) : bool := (48 <=? c) && (c <=? 57).
Definition is_alpha (c : N) : bool := ((65 <=? c) && (c <=? 90)) || ((97 <=? c) && (c <=? 122)).
Definition is_ident_char (c : N) : bool := is_alpha c || is_digit c || (c =? 95).

(* skip_whitespace_and_comments: blanks, tabs, CR; `;` to the end of the line (newline stays) *)
Fixpoint skip_comment (cs : list N) : list N :=
  match cs with [] => [] | c :: r => if c =? 10 then cs else skip_comment r end.
Fixpoint skip_ws (fuel : nat) (cs : list N) : list N :=
  match fuel with
  | O => cs
  | S k =>
      match cs with
      | c :: r => if (c =? 32) || (c =? 9) || (c =? 13) then skip_ws k r
                  else if c =? 59 then skip_ws k (skip_comment r)
                  else cs
      | [] => []
      end
  end.

Fixpoint read_ident (cs : list N) : list N * list N :=
  match cs with
  | c :: r => if is_ident_char c then let (s, t) := read_ident r in (c :: s, t) else ([], cs)
  | [] => ([], [])
  end.

(* read_number: optional '-', digits, one '.', one e/E with optional sign; returns the text *)
Fixpoint num_body (seen_dot seen_e : bool) (cs : list N) : (list N * bool) * list N :=
  match cs with
  | c :: r =>
      if is_digit c then let '(s, f, t) := num_body seen_dot seen_e r in (c :: s, f, t)
      else if (c =? 46) && negb seen_dot then let '(s, f, t) := num_body true seen_e r in (c :: s, true, t)
      else if ((c =? 101) || (c =? 69)) && negb seen_e then
        match r with
        | sg :: r' => if (sg =? 43) || (sg =? 45)
                      then let '(s, f, t) := num_body true true r' in (c :: sg :: s, true, t)
                      else let '(s, f, t) := num_body true true r in (c :: s, true, t)
        | [] => ([c], true, [])
        end
      else ([], false, cs)
  | [] => ([], false, [])
  end.
(* decimal value of a digit string with i64 range check *)
Fixpoint dec_value (acc : Z) (s : list N) : Z :=
  match s with [] => acc | c :: r => dec_value (acc * 10 + Z.of_N (c - 48)) r end.
Definition all_digits (s : list N) : bool := forallb is_digit s.

(* f64 text accepted by str::parse::<f64> as far as read_number can produce it *)
Fixpoint strip_digits (s : list N) : list N :=
  match s with c :: r => if is_digit c then strip_digits r else s | [] => [] end.
Definition float_text_ok (s : list N) : bool :=
  (* digits* [. digits*] [e [sign] digits+], with at least one digit in the mantissa *)
  let m1 := strip_digits s in
  let int_digits := negb (length m1 =? length s)%nat in
  let '(after_dot, frac_digits) :=
    match m1 with
    | 46 :: r => let r' := strip_digits r in (r', negb (length r' =? length r)%nat)
    | _ => (m1, false)
    end in
  (int_digits || frac_digits)
  && match after_dot with
     | [] => true
     | e :: r => ((e =? 101) || (e =? 69))
                 && (let r1 := match r with sg :: r' => if (sg =? 43) || (sg =? 45) then r' else r | [] => [] end in
                     negb (length r1 =? 0)%nat && (length (strip_digits r1) =? 0)%nat)
     end.

Definition read_number (cs : list N) : option (atok * list N) :=
  let '(neg, cs1) := match cs with 45 :: r => (true, r) | _ => (false, cs) end in
  let '(body, isf, rest) := num_body false false cs1 in
  match body with
  | [] =>
      if neg then
        (* "-" alone: `-inf` is the only continuation *)
        let (id, rest') := read_ident cs1 in
        if list_eq_dec N.eq_dec id [105; 110; 102] then Some (AFlt, rest') else None
      else None
  | _ =>
      if isf then (if float_text_ok body then Some (AFlt, rest) else None)
      else
        let v := dec_value 0 body in
        let v := if neg then (- v)%Z else v in
        if ((-9223372036854775808 <=? v) && (v <=? 9223372036854775807))%Z then Some (AInt v, rest) else None
  end.

Definition is_label (name : list N) : bool :=
  match name with
  | 76 :: c :: _ => is_digit c || (c =? 95)
  | _ => false
  end.

Definition next_token (cs0 : list N) : option (atok * list N) :=
  let cs := skip_ws (S (length cs0)) cs0 in
  match cs with
  | [] => Some (AEof, [])
  | c :: r =>
      if c =? 10 then Some (ANl, r)
      else if c =? 44 then Some (AComma, r)
      else if c =? 58 then Some (AColon, r)
      else if c =? 64 then Some (AAt, r)
      else if c =? 91 then Some (ALBr, r)
      else if c =? 93 then Some (ARBr, r)
      else if c =? 46 then let (n, t) := read_ident r in Some (ADir n, t)
      else if c =? 34 then match unescape r with Some (s, t) => Some (AStr s, t) | None => None end
      else if (c =? 114) && (match r with d :: _ => is_digit d | [] => false end) then
        match read_number r with
        | Some (AInt n, t) => if ((0 <=? n) && (n <=? 255))%Z then Some (AReg (Z.to_N n), t) else None
        | _ => None
        end
      else if is_alpha c || (c =? 95) then
        let (name, t) := read_ident cs in
        if list_eq_dec N.eq_dec name [116; 114; 117; 101] then Some (ABool true, t)
        else if list_eq_dec N.eq_dec name [102; 97; 108; 115; 101] then Some (ABool false, t)
        else if list_eq_dec N.eq_dec name [110; 117; 108; 108] then Some (ANull, t)
        else if is_label name then Some (ALab name, t) else Some (AId name, t)
      else if is_digit c || (c =? 45) then read_number cs
      else None
  end.

(* all tokens up to Eof or the first error; fuel = |input| + 1 always suffices *)
Fixpoint lex_all (fuel : nat) (cs : list N) : option (list atok) * bool :=
  match fuel with
  | O => (None, false)                                  (* out of fuel (excluded by the theorem) *)
  | S k =>
      match next_token cs with
      | None => (None, true)                            (* lexical error *)
      | Some (AEof, _) => (Some [AEof], true)
      | Some (t, r) => match lex_all k r with (Some ts, b) => (Some (t :: ts), b) | (None, b) => (None, b) end
      end
  end.
Definition lex (cs : list N) := lex_all (S (length cs)) cs.

(* boolean equality of token lists (for the tie) *)
Fixpoint leqb (a b : list N) : bool :=
  match a, b with [], [] => true | x :: a', y :: b' => (x =? y) && leqb a' b' | _, _ => false end.
Definition atok_eqb (a b : atok) : bool :=
  match a, b with
  | ADir x, ADir y | ALab x, ALab y | AId x, AId y | AStr x, AStr y => leqb x y
  | AReg x, AReg y => x =? y
  | AInt x, AInt y => (x =? y)%Z
  | ABool x, ABool y => Bool.eqb x y
  | AFlt, AFlt | ANull, ANull | AComma, AComma | AColon, AColon | AAt, AAt | ALBr, ALBr | ARBr, ARBr
  | ANl, ANl | AEof, AEof => true
  | _, _ => false
  end.
Fixpoint atoks_eqb (a b : list atok) : bool :=
  match a, b with [], [] => true | x :: a', y :: b' => atok_eqb x y && atoks_eqb a' b' | _, _ => false end.
Definition lexobs_eqb (a b : option (list atok)) : bool :=
  match a, b with Some x, Some y => atoks_eqb x y | None, None => true | _, _ => false end.
