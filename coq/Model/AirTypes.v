(* C17 -- model of lower_type_from_infer (air/src/lower.rs): how a type of the typed AST becomes an
   AIR type, in particular how a NAME is resolved: a type parameter in scope wins, then a declared
   struct (top-level structs, and structs declared in function bodies lowered so far), anything
   else is an unresolved type and lowers like Var/Dynamic (i64).  Signatures of the top-level
   functions are lowered in program order, each before its own body. *)
From Coq Require Import NArith Bool List.
From Aelys Require Import Model.AirLower Model.Mono.
Import ListNotations.
Local Open Scope N_scope.

Inductive ity :=
| IPrim (k : N)                 (* I8..F64, Bool, String: the AIR primitive with the same code *)
| IName (n : N)                 (* InferType::Struct(name) *)
| ISeq (t : ity)                (* Array / Vec -> Slice *)
| IFun (ps : itys) (r : ity)
| IVoid                         (* Null / Tuple / Range *)
| IDyn                          (* Var / Dynamic *)
with itys := INil | ICons (t : ity) (r : itys).

Fixpoint lower_ty (tps structs : list N) (t : ity) : ty :=
  match t with
  | IPrim k => TPrim k
  | IName n =>
      match index_of n tps 0 with
      | Some k => TParam (N.of_nat k)
      | None => if memN n structs then TStruct n else T_I64
      end
  | ISeq x => TSlice (lower_ty tps structs x)
  | IFun ps r => TFn (lower_tys tps structs ps) (lower_ty tps structs r)
  | IVoid => TPrim 12
  | IDyn => T_I64
  end
with lower_tys (tps structs : list N) (l : itys) : tys :=
  match l with INil => TNil | ICons t r => TCons (lower_ty tps structs t) (lower_tys tps structs r) end.

Inductive titem :=
| TIStruct (n : N)                                                   (* top-level struct declaration *)
| TIFn (tps : list N) (params : list ity) (ret : ity) (body_structs : list N)
| TIOther.

Definition top_structs (items : list titem) : list N :=
  flat_map (fun i => match i with TIStruct n => [n] | _ => [] end) items.

Fixpoint lower_sigs (items : list titem) (structs : list N) : list (list ty) :=
  match items with
  | [] => []
  | TIFn tps ps r bs :: rest =>
      (map (lower_ty tps structs) ps ++ [lower_ty tps structs r]) :: lower_sigs rest (structs ++ bs)
  | _ :: rest => lower_sigs rest structs
  end.

Definition lower_types (items : list titem) : list (list ty) := lower_sigs items (top_structs items).

Definition tysigs_eqb (a b : list (list ty)) : bool := list_eqb' tylist_eqb a b.
