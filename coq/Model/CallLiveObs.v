(* Executable entry point of the call-liveness analysis for the harness: 0 when no call of the
   function has a live register above its window, else (word offset of the first such call + 1)
   + 2^32 * (bit mask of the clobbered live registers).  Definitions only. *)
From Coq Require Import NArith List.
From Aelys Require Import Model.CallLive.
Import ListNotations.
Local Open Scope N_scope.

Definition live_sweeps : nat := 8.

Definition live_code (ws : list N) : N :=
  match call_alarms live_sweeps ws with
  | [] => 0
  | (pc, mask) :: _ => (pc + 1) + 4294967296 * mask
  end.

(* 0, or 1 + the bit mask of the registers read before written from the entry *)
Definition entry_code (arity : N) (ws : list N) : N :=
  match entry_reads live_sweeps arity ws with
  | 0 => 0
  | m => 1 + m
  end.
