(* Model of the typed element storage behind Array<T> / Vec<T>
   (bytecode/src/object/array.rs AelysArray::{new_*,get,set}, vec.rs AelysVec::{new_*,get,set,push,pop}).
   The opcodes ArrayLoad{I,F,B,P}, ArrayGet*, ArrayStore*, VecPush*, VecPop*, VecLoad*, VecGet*,
   VecStore* all go through these methods whatever their type suffix.  Definitions only. *)
From Coq Require Import NArith ZArith Bool List.
From Aelys Require Import Extracted.ValueConsts Model.Value.
Import ListNotations.
Local Open Scope N_scope.

(* Ints: i64 as produced by as_int; Floats: f64 bit patterns; Bools; Objects: raw words *)
Inductive adata :=
| DInts (l : list Z) | DFloats (l : list N) | DBools (l : list bool) | DObjects (l : list N).

Inductive akind := KI | KF | KB | KO.
Definition kind_of_data (d : adata) : akind :=
  match d with DInts _ => KI | DFloats _ => KF | DBools _ => KB | DObjects _ => KO end.
Definition alen (d : adata) : nat :=
  match d with DInts l => length l | DFloats l => length l | DBools l => length l | DObjects l => length l end.

(* new_ints(n) .. new_objects(n): zero / 0.0 / false / null *)
Definition anew (k : akind) (n : nat) : adata :=
  match k with
  | KI => DInts (repeat 0%Z n) | KF => DFloats (repeat 0 n)
  | KB => DBools (repeat false n) | KO => DObjects (repeat v_null n)
  end.

Definition aget (d : adata) (i : nat) : option N :=
  match d with
  | DInts l => option_map v_int (nth_error l i)
  | DFloats l => option_map v_float (nth_error l i)
  | DBools l => option_map v_bool (nth_error l i)
  | DObjects l => nth_error l i
  end.

Fixpoint set_nth {A} (l : list A) (i : nat) (x : A) : option (list A) :=
  match l, i with
  | [], _ => None
  | _ :: t, O => Some (x :: t)
  | h :: t, S j => option_map (cons h) (set_nth t j x)
  end.

(* set: None = `false` (index out of range, or a value of another kind) *)
Definition aset (d : adata) (i : nat) (w : N) : option adata :=
  match d with
  | DInts l => match as_int w with Some z => option_map DInts (set_nth l i z) | None => None end
  | DFloats l => match as_float w with Some b => option_map DFloats (set_nth l i b) | None => None end
  | DBools l => match as_bool w with Some b => option_map DBools (set_nth l i b) | None => None end
  | DObjects l => option_map DObjects (set_nth l i w)
  end.

(* AelysVec::push: None = `false` *)
Definition apush (d : adata) (w : N) : option adata :=
  match d with
  | DInts l => match as_int w with Some z => Some (DInts (l ++ [z])) | None => None end
  | DFloats l => match as_float w with Some b => Some (DFloats (l ++ [b])) | None => None end
  | DBools l => match as_bool w with Some b => Some (DBools (l ++ [b])) | None => None end
  | DObjects l => Some (DObjects (l ++ [w]))
  end.

Definition apop (d : adata) : option (N * adata) :=
  match d with
  | DInts l => match rev l with [] => None | z :: r => Some (v_int z, DInts (rev r)) end
  | DFloats l => match rev l with [] => None | b :: r => Some (v_float b, DFloats (rev r)) end
  | DBools l => match rev l with [] => None | b :: r => Some (v_bool b, DBools (rev r)) end
  | DObjects l => match rev l with [] => None | w :: r => Some (w, DObjects (rev r)) end
  end.

(* the value kind a typed storage holds *)
Definition word_fits (k : akind) (w : N) : bool :=
  match k with KI => is_int w | KF => is_float w | KB => is_bool w | KO => true end.

(* well-formed storage: float patterns are 64-bit words *)
Definition wf (d : adata) : Prop :=
  match d with DFloats l => Forall (fun b => b < W64) l | _ => True end.

(* ---- operation sequences for the contract tie *)
Inductive aop := OGet (i : nat) | OSet (i : nat) (w : N) | OPush (w : N) | OPop | OLen.
(* observation: 0 failure / none ; 1 w success value ; len *)
Definition aobs := list N.
Fixpoint run_ops (d : adata) (ops : list aop) : list (list N) :=
  match ops with
  | [] => []
  | OGet i :: r => (match aget d i with Some w => [1; w] | None => [0] end) :: run_ops d r
  | OSet i w :: r => match aset d i w with Some d' => [1] :: run_ops d' r | None => [0] :: run_ops d r end
  | OPush w :: r => match apush d w with Some d' => [1] :: run_ops d' r | None => [0] :: run_ops d r end
  | OPop :: r => match apop d with Some (w, d') => [1; w] :: run_ops d' r | None => [0] :: run_ops d r end
  | OLen :: r => [N.of_nat (alen d)] :: run_ops d r
  end.

(* ================================================================== opcode level
   The array / vec opcodes of runtime/src/vm/dispatch/ops/arrays.inc on their register operands:
   the container word has been resolved to a heap object (hobj), the index is a raw 64-bit word.
     ArrayLoad{I,F,B,P} 135-138, ArrayGet* 139-142, ArrayStore* 143-146,
     VecPush* 153-156, VecPop* 157-160, VecLoad{I,F,B} 164-166, VecLoadP 167 (the generic index
     load: vec, array or string), VecGet* 168-171, VecStore{I,F,B} 172-174, VecStoreP 175 (generic
     index store: vec or array).
   The type suffix of an opcode does not appear in its semantics: only the container kinds it accepts. *)
Inductive hobj := HArray (d : adata) | HVec (d : adata) | HString (len : nat) | HOther | HNone.
Inductive aerr := AEIndex | AEType | AEHandle.
(* AOk r o': r = value written to the destination register (None: no destination), o' = the
   container afterwards; AChar i: the i-th character of the string as a fresh string *)
Inductive ares := AOk (r : option N) (o' : hobj) | AChar (i : nat) | AErr (e : aerr).

(* reg.as_int().unwrap_or(-1): every non-int word is the index -1 *)
Definition idx_of (w : N) : Z := match as_int w with Some z => z | None => (-1)%Z end.

Definition dget (d : adata) (i : Z) : option N :=
  if (i <? Z.of_nat (alen d))%Z then aget d (Z.to_nat i) else None.
Definition dset (d : adata) (i : Z) (w : N) : option adata :=
  if (i <? Z.of_nat (alen d))%Z then aset d (Z.to_nat i) w else None.

(* which containers an arm accepts *)
Inductive cwant := WArray | WVec | WAny.
Definition want_array (c : cwant) : bool := match c with WVec => false | _ => true end.
Definition want_vec (c : cwant) : bool := match c with WArray => false | _ => true end.

Definition op_load (c : cwant) (o : hobj) (iw : N) : ares :=
  let i := idx_of iw in
  if (i <? 0)%Z then AErr AEIndex
  else match o with
       | HNone => AErr AEHandle
       | HArray d => if want_array c then match dget d i with Some w => AOk (Some w) o | None => AErr AEIndex end
                     else AErr AEType
       | HVec d => if want_vec c then match dget d i with Some w => AOk (Some w) o | None => AErr AEIndex end
                   else AErr AEType
       | HString n => match c with
                      | WAny => if (i <? Z.of_nat n)%Z then AChar (Z.to_nat i) else AErr AEIndex
                      | _ => AErr AEType
                      end
       | HOther => AErr AEType
       end.

(* the lenient Get forms: null instead of any error *)
Definition op_get (c : cwant) (o : hobj) (iw : N) : ares :=
  let i := idx_of iw in
  if (i <? 0)%Z then AOk (Some v_null) o
  else match o with
       | HArray d => if want_array c then AOk (Some (match dget d i with Some w => w | None => v_null end)) o
                     else AOk (Some v_null) o
       | HVec d => if want_vec c then AOk (Some (match dget d i with Some w => w | None => v_null end)) o
                   else AOk (Some v_null) o
       | _ => AOk (Some v_null) o
       end.

Definition op_store (c : cwant) (o : hobj) (iw v : N) : ares :=
  let i := idx_of iw in
  if (i <? 0)%Z then AErr AEIndex
  else match o with
       | HNone => AErr AEHandle
       | HArray d => if want_array c then match dset d i v with Some d' => AOk None (HArray d') | None => AErr AEIndex end
                     else AErr AEType
       | HVec d => if want_vec c then match dset d i v with Some d' => AOk None (HVec d') | None => AErr AEIndex end
                   else AErr AEType
       | _ => AErr AEType
       end.

Definition op_push (o : hobj) (v : N) : ares :=
  match o with
  | HNone => AErr AEHandle
  | HVec d => match apush d v with Some d' => AOk None (HVec d') | None => AErr AEType end
  | _ => AErr AEType
  end.

Definition op_pop (o : hobj) : ares :=
  match o with
  | HNone => AErr AEHandle
  | HVec d => match apop d with Some (w, d') => AOk (Some w) (HVec d') | None => AOk (Some v_null) o end
  | _ => AErr AEType
  end.

(* dispatch on the opcode number *)
Definition array_op (opc : N) (o : hobj) (iw v : N) : option ares :=
  if (135 <=? opc) && (opc <=? 138) then Some (op_load WArray o iw)
  else if (139 <=? opc) && (opc <=? 142) then Some (op_get WArray o iw)
  else if (143 <=? opc) && (opc <=? 146) then Some (op_store WArray o iw v)
  else if (153 <=? opc) && (opc <=? 156) then Some (op_push o v)
  else if (157 <=? opc) && (opc <=? 160) then Some (op_pop o)
  else if (164 <=? opc) && (opc <=? 166) then Some (op_load WVec o iw)
  else if opc =? 167 then Some (op_load WAny o iw)
  else if (168 <=? opc) && (opc <=? 171) then Some (op_get WVec o iw)
  else if (172 <=? opc) && (opc <=? 174) then Some (op_store WVec o iw v)
  else if opc =? 175 then Some (op_store WAny o iw v)
  else None.

(* observation for the contract tie: outcome code list and the container's contents afterwards *)
Definition contents (d : adata) : list N :=
  match d with
  | DInts l => map v_int l | DFloats l => map v_float l | DBools l => map v_bool l | DObjects l => l
  end.
Definition hobj_contents (o : hobj) : list N :=
  match o with HArray d | HVec d => contents d | _ => [] end.
(* [0; w] value, [1] no value, [2; i] char, [3; k] error k (0 index, 1 type, 2 handle) *)
Definition ares_obs (o : hobj) (r : ares) : list N * list N :=
  match r with
  | AOk (Some w) o' => ([0; w], hobj_contents o')
  | AOk None o' => ([1], hobj_contents o')
  | AChar i => ([2; N.of_nat i], hobj_contents o)
  | AErr AEIndex => ([3; 0], hobj_contents o)
  | AErr AEType => ([3; 1], hobj_contents o)
  | AErr AEHandle => ([3; 2], hobj_contents o)
  end.
(* build a container from a kind and a list of words pushed in order (what the harness does) *)
Fixpoint push_all (d : adata) (ws : list N) : adata :=
  match ws with [] => d | w :: r => match apush d w with Some d' => push_all d' r | None => push_all d r end end.

(* ================================================================== literals and for-each
   (the code after the round-4 repairs: an element of another kind is a type error, the three
   for-each opcodes are one generic step) *)
Definition first_kind (w : N) : akind :=
  if is_int w then KI else if is_float w then KF else if is_bool w then KB else KO.
Fixpoint push_strict (d : adata) (ws : list N) : option adata :=
  match ws with
  | [] => Some d
  | w :: r => match apush d w with Some d' => push_strict d' r | None => None end
  end.
(* ArrayLit 134 / VecLit 152 on the element registers: None = type error; the storage kind is the
   kind of the first element (an empty literal is an int storage) *)
Definition op_lit (ws : list N) : option adata :=
  match ws with
  | [] => Some (DInts [])
  | w :: _ => push_strict (anew (first_kind w) 0) ws
  end.

(* StringForLoop 177 / VecForLoop 178 / ArrayForLoop 179: one step on (index word, iterable object);
   strings are ASCII here (byte offset = character index) *)
Inductive eres := EElem (w : N) | EChar (i : nat) | EEnd | EErr.
Definition op_each (o : hobj) (iw : N) : eres :=
  let i := match as_int iw with Some z => z | None => 0%Z end in
  match o with
  | HArray d | HVec d => if (0 <=? i)%Z then match dget d i with Some w => EElem w | None => EEnd end else EEnd
  | HString n => if (0 <=? i)%Z && (i <? Z.of_nat n)%Z then EChar (Z.to_nat i) else EEnd
  | HOther | HNone => EErr
  end.
