(* Model of the typed element storage behind Array<T> / Vec<T>
   (bytecode/src/object/array.rs AelysArray::{new_*,get,set}, vec.rs AelysVec::{new_*,get,set,push,pop}).
   The opcodes ArrayLoad{I,F,B,P}, ArrayGet*, ArrayStore*, VecPush*, VecPop*, VecLoad*, VecGet*,
   VecStore* all go through these methods whatever their type suffix.  Definitions only. *)
From Coq Require Import NArith ZArith Bool List.
From Aelys Require Import Extracted.ValueConsts Model.Value.
Import ListNotations.
Local Open Scope N_scope.

(* Ints: i64 as produced by as_int; Floats: f64 bit patterns; Bools; Objects: raw words *)
Inductive adata :=
| DInts (l : list Z) | DFloats (l : list N) | DBools (l : list bool) | DObjects (l : list N).

Inductive akind := KI | KF | KB | KO.
Definition kind_of_data (d : adata) : akind :=
  match d with DInts _ => KI | DFloats _ => KF | DBools _ => KB | DObjects _ => KO end.
Definition alen (d : adata) : nat :=
  match d with DInts l => length l | DFloats l => length l | DBools l => length l | DObjects l => length l end.

(* new_ints(n) .. new_objects(n): zero / 0.0 / false / null *)
Definition anew (k : akind) (n : nat) : adata :=
  match k with
  | KI => DInts (repeat 0%Z n) | KF => DFloats (repeat 0 n)
  | KB => DBools (repeat false n) | KO => DObjects (repeat v_null n)
  end.

Definition aget (d : adata) (i : nat) : option N :=
  match d with
  | DInts l => option_map v_int (nth_error l i)
  | DFloats l => option_map v_float (nth_error l i)
  | DBools l => option_map v_bool (nth_error l i)
  | DObjects l => nth_error l i
  end.

Fixpoint set_nth {A} (l : list A) (i : nat) (x : A) : option (list A) :=
  match l, i with
  | [], _ => None
  | _ :: t, O => Some (x :: t)
  | h :: t, S j => option_map (cons h) (set_nth t j x)
  end.

(* set: None = `false` (index out of range, or a value of another kind) *)
Definition aset (d : adata) (i : nat) (w : N) : option adata :=
  match d with
  | DInts l => match as_int w with Some z => option_map DInts (set_nth l i z) | None => None end
  | DFloats l => match as_float w with Some b => option_map DFloats (set_nth l i b) | None => None end
  | DBools l => match as_bool w with Some b => option_map DBools (set_nth l i b) | None => None end
  | DObjects l => option_map DObjects (set_nth l i w)
  end.

(* AelysVec::push: None = `false` *)
Definition apush (d : adata) (w : N) : option adata :=
  match d with
  | DInts l => match as_int w with Some z => Some (DInts (l ++ [z])) | None => None end
  | DFloats l => match as_float w with Some b => Some (DFloats (l ++ [b])) | None => None end
  | DBools l => match as_bool w with Some b => Some (DBools (l ++ [b])) | None => None end
  | DObjects l => Some (DObjects (l ++ [w]))
  end.

Definition apop (d : adata) : option (N * adata) :=
  match d with
  | DInts l => match rev l with [] => None | z :: r => Some (v_int z, DInts (rev r)) end
  | DFloats l => match rev l with [] => None | b :: r => Some (v_float b, DFloats (rev r)) end
  | DBools l => match rev l with [] => None | b :: r => Some (v_bool b, DBools (rev r)) end
  | DObjects l => match rev l with [] => None | w :: r => Some (w, DObjects (rev r)) end
  end.

(* the value kind a typed storage holds *)
Definition word_fits (k : akind) (w : N) : bool :=
  match k with KI => is_int w | KF => is_float w | KB => is_bool w | KO => true end.

(* well-formed storage: float patterns are 64-bit words *)
Definition wf (d : adata) : Prop :=
  match d with DFloats l => Forall (fun b => b < W64) l | _ => True end.

(* ---- operation sequences for the contract tie *)
Inductive aop := OGet (i : nat) | OSet (i : nat) (w : N) | OPush (w : N) | OPop | OLen.
(* observation: 0 failure / none ; 1 w success value ; len *)
Definition aobs := list N.
Fixpoint run_ops (d : adata) (ops : list aop) : list (list N) :=
  match ops with
  | [] => []
  | OGet i :: r => (match aget d i with Some w => [1; w] | None => [0] end) :: run_ops d r
  | OSet i w :: r => match aset d i w with Some d' => [1] :: run_ops d' r | None => [0] :: run_ops d r end
  | OPush w :: r => match apush d w with Some d' => [1] :: run_ops d' r | None => [0] :: run_ops d r end
  | OPop :: r => match apop d with Some (w, d') => [1; w] :: run_ops d' r | None => [0] :: run_ops d r end
  | OLen :: r => [N.of_nat (alen d)] :: run_ops d r
  end.
