(* C11 -- model of the capability gating:
     runtime/src/vm/args/parse.rs      parse_vm_args
     runtime/src/vm/config.rs          check_native_capability(ies)
     runtime/src/stdlib/mod.rs         register_std_module (gated arms from Extracted/StdModules.v)
     runtime/src/vm/init.rs            auto-registered modules, builtins
     runtime/src/stdlib/sys.rs         allow_exec test at the top of the exec* natives
     driver/src/modules/loader/native_load.rs, cli/src/cli/commands/run.rs
                                       order of capability / checksum / load / version checks,
                                       which manifest each route consults
     driver/.../checksum.rs, cli run.rs  the two FNV-1a implementations
   Names, gated arms, auto-registered list and the capability-name map are regenerated from
   the Rust source by tools/extractors/c11.py. *)
From Coq Require Import NArith Bool List String Ascii.
From Aelys Require Import Extracted.StdModules.
Import ListNotations.
Local Open Scope string_scope.
Local Open Scope list_scope.

(* ---------------------------------------------------------------- small string toolkit *)
Fixpoint smem (x : string) (l : list string) : bool :=
  match l with [] => false | y :: r => String.eqb x y || smem x r end.

Fixpoint sassoc {B} (x : string) (l : list (string * B)) : option B :=
  match l with [] => None | (k, v) :: r => if String.eqb x k then Some v else sassoc x r end.

Definition native := (string * string)%type.          (* (module, name); builtins have module "" *)
Definition native_eqb (a b : native) : bool := String.eqb (fst a) (fst b) && String.eqb (snd a) (snd b).
Fixpoint nmem (x : native) (l : list native) : bool :=
  match l with [] => false | y :: r => native_eqb x y || nmem x r end.

Definition strip_prefix (p s : string) : option string :=
  if String.prefix p s then Some (String.substring (String.length p) (String.length s - String.length p) s) else None.

(* str::split(c): always at least one piece *)
Fixpoint split_on (c : ascii) (s : string) : list string :=
  match s with
  | EmptyString => [EmptyString]
  | String a r =>
      if Ascii.eqb a c then EmptyString :: split_on c r
      else match split_on c r with
           | [] => [String a EmptyString]
           | h :: t => String a h :: t
           end
  end.

(* str::split_once('=') *)
Fixpoint split_once (c : ascii) (s : string) : option (string * string) :=
  match s with
  | EmptyString => None
  | String a r =>
      if Ascii.eqb a c then Some (EmptyString, r)
      else match split_once c r with
           | Some (k, v) => Some (String a k, v)
           | None => None
           end
  end.

Definition is_space (a : ascii) : bool :=
  let n := nat_of_ascii a in
  Nat.eqb n 32 || Nat.eqb n 9 || Nat.eqb n 10 || Nat.eqb n 13 || Nat.eqb n 11 || Nat.eqb n 12.
Fixpoint trim_start (s : string) : string :=
  match s with String a r => if is_space a then trim_start r else s | EmptyString => EmptyString end.
Fixpoint rev_string (s acc : string) : string :=
  match s with EmptyString => acc | String a r => rev_string r (String a acc) end.
Definition trim (s : string) : string :=
  rev_string (trim_start (rev_string (trim_start s) EmptyString)) EmptyString.

Definition lower_ascii (a : ascii) : ascii :=
  let n := nat_of_ascii a in
  if Nat.leb 65 n && Nat.leb n 90 then ascii_of_nat (n + 32) else a.
Fixpoint lower (s : string) : string :=
  match s with EmptyString => EmptyString | String a r => String (lower_ascii a) (lower r) end.

(* ---------------------------------------------------------------- configuration *)
Record config := {
  caps_fs : bool; caps_net : bool; caps_exec : bool;
  allowed : list string;          (* VmConfig.allowed_caps, as a set *)
  denied : list string;           (* VmConfig.denied_caps *)
  hot_reload : bool }.

Definition default_config : config :=
  {| caps_fs := false; caps_net := false; caps_exec := false; allowed := []; denied := []; hot_reload := false |}.

Definition set_bit (c : config) (bit : string) (v : bool) : config :=
  if String.eqb bit "fs" then
    {| caps_fs := v; caps_net := caps_net c; caps_exec := caps_exec c; allowed := allowed c; denied := denied c; hot_reload := hot_reload c |}
  else if String.eqb bit "net" then
    {| caps_fs := caps_fs c; caps_net := v; caps_exec := caps_exec c; allowed := allowed c; denied := denied c; hot_reload := hot_reload c |}
  else if String.eqb bit "exec" then
    {| caps_fs := caps_fs c; caps_net := caps_net c; caps_exec := v; allowed := allowed c; denied := denied c; hot_reload := hot_reload c |}
  else c.

Definition cap_bit (c : config) (bit : string) : bool :=
  if String.eqb bit "fs" then caps_fs c
  else if String.eqb bit "net" then caps_net c
  else if String.eqb bit "exec" then caps_exec c
  else false.

Inductive presult :=
| POk (c : config) (program_args : list string)
| PErr                         (* VmArgsError *)
| PUnmodelled.                 (* max-heap: size parsing is not part of this model *)

(* apply_caps_to_capabilities: names from Extracted.cap_bits, unknown names ignored *)
Fixpoint apply_caps (pieces : list string) (c : config) (enable : bool) : config :=
  match pieces with
  | [] => c
  | p :: r =>
      let c' := match sassoc (trim p) cap_bits with Some bit => set_bit c bit enable | None => c end in
      apply_caps r c' enable
  end.

(* add_caps: error on an empty value or an empty (trimmed) piece *)
Definition caps_pieces (value : string) : option (list string) :=
  if String.eqb value "" then None
  else let ps := map trim (split_on "," value) in
       if existsb (fun p => String.eqb p "") ps then None else Some ps.

Definition parse_bool (v : string) : option bool :=
  let l := lower v in
  if String.eqb l "true" then Some true else if String.eqb l "false" then Some false else None.

Inductive step_result := SCont (c : config) (trusted : bool) | SErrS | SUnmodelled.

Definition apply_vm_arg (value : string) (c : config) (trusted : bool) : step_result :=
  match split_once "=" value with
  | None => SErrS
  | Some (k, v) =>
      if String.eqb k "max-heap" then SUnmodelled
      else match sassoc k ae_keys with
           | Some bit => match parse_bool v with Some b => SCont (set_bit c bit b) trusted | None => SErrS end
           | None =>
               if String.eqb k "trusted" then
                 match parse_bool v with Some b => SCont c (trusted || b) | None => SErrS end
               else SErrS
           end
  end.

Fixpoint parse_loop (args : list string) (c : config) (trusted : bool) (prog : list string) : presult :=
  match args with
  | [] =>
      let c' := if trusted then
                  {| caps_fs := true; caps_net := true; caps_exec := true; allowed := []; denied := []; hot_reload := hot_reload c |}
                else c in
      POk c' (rev prog)
  | a :: r =>
      if String.eqb a "--dev" then
        parse_loop r {| caps_fs := caps_fs c; caps_net := caps_net c; caps_exec := caps_exec c;
                        allowed := allowed c; denied := denied c; hot_reload := true |} trusted prog
      else match strip_prefix "--allow-caps=" a with
      | Some v => match caps_pieces v with
                  | None => PErr
                  | Some ps =>
                      let c1 := {| caps_fs := caps_fs c; caps_net := caps_net c; caps_exec := caps_exec c;
                                   allowed := allowed c ++ ps; denied := denied c; hot_reload := hot_reload c |} in
                      parse_loop r (apply_caps ps c1 true) trusted prog
                  end
      | None =>
      match strip_prefix "--deny-caps=" a with
      | Some v => match caps_pieces v with
                  | None => PErr
                  | Some ps =>
                      let c1 := {| caps_fs := caps_fs c; caps_net := caps_net c; caps_exec := caps_exec c;
                                   allowed := allowed c; denied := denied c ++ ps; hot_reload := hot_reload c |} in
                      parse_loop r (apply_caps ps c1 false) trusted prog
                  end
      | None =>
      match (match strip_prefix "-ae." a with Some v => Some v | None => strip_prefix "--ae-" a end) with
      | Some v => match apply_vm_arg v c trusted with
                  | SCont c' t' => parse_loop r c' t' prog
                  | SErrS => PErr
                  | SUnmodelled => PUnmodelled
                  end
      | None => parse_loop r c trusted (a :: prog)
      end end end
  end.

Definition parse_args (args : list string) : presult := parse_loop args default_config false [].

(* ---------------------------------------------------------------- std modules and natives *)
Definition natives_of (m : string) : list native :=
  match sassoc m module_natives with Some ns => map (fun n => (m, n)) ns | None => [] end.

Inductive rerr := ECapabilityDenied | EUndefined.
Inductive rresult := ROk (ns : list native) | RErrR (e : rerr).

(* register_std_module *)
Definition register (c : config) (m : string) : rresult :=
  if smem m register_arms then
    match sassoc m gated_arms with
    | Some bit => if cap_bit c bit then ROk (natives_of m) else RErrR ECapabilityDenied
    | None => ROk (natives_of m)
    end
  else RErrR EUndefined.

(* VM::with_config_and_args: builtins, then the auto-registered modules *)
Definition vm_init : list native :=
  map (fun n => ("", n)) builtin_natives ++ flat_map natives_of auto_registered.

(* a request that makes the loader register std modules:
   LStd m     `needs std.m` in any import form (the form only adds global aliases)
   LNames gs  assembly / bytecode whose global layout names gs: every `mod::x` requires mod *)
Inductive load_request := LStd (m : string) | LNames (globals : list string).

Fixpoint module_prefix (s acc : string) : option string :=
  match s with
  | EmptyString => None
  | String a r =>
      if Ascii.eqb a ":" then
        match r with String b _ => if Ascii.eqb b ":" then Some (rev_string acc EmptyString) else module_prefix r (String a acc)
                   | EmptyString => None end
      else module_prefix r (String a acc)
  end.
Definition required_modules (globals : list string) : list string :=
  flat_map (fun g => match module_prefix g EmptyString with Some m => [m] | None => [] end) globals.

(* is_std_module + load_std_module; a module already registered is registered again only in
   the sense of aliases (no new natives) *)
Definition std_natives (c : config) (m : string) : list native :=
  if smem m std_modules then match register c m with ROk ns => ns | RErrR _ => [] end else [].

Definition request_natives (c : config) (r : load_request) : list native :=
  match r with
  | LStd m => std_natives c m
  | LNames gs => flat_map (std_natives c) (required_modules gs)
  end.

Fixpoint add_new (ns st : list native) : list native :=
  match ns with [] => st | n :: r => add_new r (if nmem n st then st else st ++ [n]) end.

(* native_registry after a list of requests; a failing request leaves the VM as it was
   (REPL semantics: the session goes on) *)
Definition reachable_from (st : list native) (c : config) (reqs : list load_request) : list native :=
  fold_left (fun st r => add_new (request_natives c r) st) reqs st.
Definition reachable_natives (c : config) (reqs : list load_request) : list native :=
  reachable_from vm_init c reqs.

(* a session whose configuration is changed between inputs (VM::set_capabilities) *)
Definition reachable_session (segs : list (config * list load_request)) : list native :=
  fold_left (fun st seg => reachable_from st (fst seg) (snd seg)) segs vm_init.

(* ---------------------------------------------------------------- exec* natives *)
Inductive exec_outcome := Spawned | DeniedE | NoSpawn.
Definition exec_guard (c : config) (n : native) : exec_outcome :=
  if nmem n exec_guarded then (if caps_exec c then Spawned else DeniedE)
  else if nmem n spawning_natives then Spawned
  else NoSpawn.

(* ---------------------------------------------------------------- fs / net natives *)
(* every native of a gated module starts with require_fs / require_net (Extracted.percall_guarded):
   the capability is tested when the native is CALLED, not only when the module is registered *)
Inductive call_outcome := CallAllowed | CallDenied.
Definition call_guard (c : config) (n : native) : call_outcome :=
  match sassoc (fst n) gated_arms with
  | Some bit => if nmem n percall_guarded then (if cap_bit c bit then CallAllowed else CallDenied) else CallAllowed
  | None => CallAllowed
  end.

(* ---------------------------------------------------------------- what a native can do when it is CALLED *)
(* Extracted.native_effects: the effects found in the body of every registered native (with the same-file
   helpers it calls); fs / net / process are the ones the property protects *)
Definition bit_of_effect (e : string) : option string :=
  if String.eqb e "fs" then Some "fs" else if String.eqb e "net" then Some "net"
  else if String.eqb e "process" then Some "exec" else None.
Definition effects_of (n : native) : list string :=
  match find (fun p => native_eqb (fst p) n) native_effects with Some p => snd p | None => [] end.
(* the capability bits a native tests at the top of its body, before anything else happens *)
Definition percall_bits (n : native) : list string :=
  (if nmem n percall_guarded then match sassoc (fst n) gated_arms with Some bit => [bit] | None => [] end else [])
  ++ (if nmem n exec_guarded then ["exec"] else []).
(* n, called under configuration c by ANY route (direct call, alias, callback, re-export, bytecode),
   gets as far as performing effect e *)
Definition can_perform (c : config) (n : native) (e : string) : bool :=
  smem e (effects_of n) && forallb (cap_bit c) (percall_bits n).
Definition gates_cover_effects : bool :=
  forallb (fun p => forallb (fun e => match bit_of_effect e with Some b => smem b (percall_bits (fst p)) | None => true end) (snd p))
          native_effects.

(* the places in the source where natives are put into a VM, by (file, primitive), with how many
   calls are expected there and why each is covered by the model *)
Definition known_registration : list ((string * string) * nat) :=
  [ (("runtime/src/stdlib/mod.rs", "alloc_native"), 1);             (* register_native: the helper every std module's reg! macro calls (module_natives) *)
    (("runtime/src/stdlib/mod.rs", "module_register"), 9);          (* the arms of register_std_module (register_arms, gated_arms) *)
    (("runtime/src/vm/builtins.rs", "alloc_native"), 6);            (* builtin_natives *)
    (("runtime/src/vm/init.rs", "module_register"), 1);             (* auto_registered (string; the others through the table read by the translator) *)
    (("runtime/src/vm/init.rs", "register_builtins"), 1);
    (("runtime/src/vm/alloc.rs", "native_registry_insert"), 2);     (* inside alloc_native / alloc_foreign themselves *)
    (("driver/src/modules/loader/stdlib_register.rs", "register_std_module"), 1);   (* LStd / LNames requests *)
    (("driver/src/modules/loader/native_load.rs", "alloc_foreign"), 1);             (* after native_module_decision says ERegistered *)
    (("cli/src/cli/commands/run.rs", "alloc_foreign"), 1) ].                        (* bundled module, after the same decision *)
Definition reg_key (s : string * string * string) : string * string := match s with (f, _, p) => (f, p) end.
Definition rkey_eqb (a b : string * string) : bool := String.eqb (fst a) (fst b) && String.eqb (snd a) (snd b).
Definition unknown_registrations (sites : list (string * string * string)) : list (string * string) :=
  let ks := map reg_key sites in
  filter (fun k => Nat.ltb (match find (fun p => rkey_eqb (fst p) k) known_registration with Some p => snd p | None => 0 end)
                           (List.length (filter (rkey_eqb k) ks))) ks.

(* ---------------------------------------------------------------- native modules *)
(* since the round-4 repair (Extracted.native_caps_consult_std_bits) the capabilities the VM itself knows
   (fs / net / exec) also need their capability bit *)
Definition std_bit_off (c : config) (cap : string) : bool :=
  native_caps_consult_std_bits && match sassoc cap cap_bits with Some bit => negb (cap_bit c bit) | None => false end.
Definition check_native_capability (c : config) (cap : string) : bool :=
  if std_bit_off c cap then false else
  if smem cap (denied c) then false
  else match allowed c with
       | [] => true
       | _ => smem cap (allowed c)
       end.
Definition check_native_capabilities (c : config) (caps : list string) : option string :=
  find (fun cap => negb (check_native_capability c cap)) caps.

Definition W64 : N := 18446744073709551616%N.
Definition fnv_step (prime : N) (h b : N) : N := ((N.lxor h b) * prime mod W64)%N.
(* cli run.rs::compute_simple_hash over a byte slice *)
Definition fnv_bytes (data : list N) : N := fold_left (fnv_step fnv_prime_bytes) data fnv_offset_bytes.
(* loader/checksum.rs::compute_file_checksum over the chunks read() returns *)
Definition fnv_file (chunks : list (list N)) : N :=
  fold_left (fun h chunk => fold_left (fnv_step fnv_prime_file) chunk h) chunks fnv_offset_file.

Inductive event := ERefusedCap (cap : string) | ERefusedChecksum | ELoaded | ERefusedVersion | EInit | ERegistered.
Definition event_eqb (a b : event) : bool :=
  match a, b with
  | ERefusedCap x, ERefusedCap y => String.eqb x y
  | ERefusedChecksum, ERefusedChecksum | ELoaded, ELoaded | ERefusedVersion, ERefusedVersion
  | EInit, EInit | ERegistered, ERegistered => true
  | _, _ => false
  end.
Fixpoint has_event (e : event) (l : list event) : bool :=
  match l with [] => false | x :: r => event_eqb e x || has_event e r end.

Section NativePolicy.
  (* semver::VersionReq / Version and `req.matches(&ver)`: external crate, not modelled *)
  Variables (vreq ver : Type).
  Variable sat : vreq -> ver -> bool.

  (* a [module.<name>] entry; the checksum is the u64 the 16-digit hex string denotes *)
  Record policy := { p_caps : list string; p_checksum : option N; p_version : option vreq }.
  (* the library file: its bytes as read() delivers them, the version in its descriptor *)
  Record nfile := { f_chunks : list (list N); f_version : option ver }.

  (* load_native_module / load_bundled_module, events in the order the code performs them *)
  Definition native_module_decision (c : config) (pol : option policy) (f : nfile) : list event :=
    let after_load :=
      match pol with
      | Some p =>
          match p_version p with
          | Some rq =>
              let ok := match f_version f with Some v => sat rq v | None => false end in
              if ok then [ELoaded; EInit; ERegistered] else [ELoaded; ERefusedVersion]
          | None => [ELoaded; EInit; ERegistered]
          end
      | None => [ELoaded; EInit; ERegistered]
      end in
    match pol with
    | None => after_load
    | Some p =>
        match (match p_caps p with [] => None | caps => check_native_capabilities c caps end) with
        | Some cap => [ERefusedCap cap]
        | None =>
            match p_checksum p with
            | Some expected => if N.eqb (fnv_file (f_chunks f)) expected then after_load else [ERefusedChecksum]
            | None => after_load
            end
        end
    end.

  (* which manifest a run route consults *)
  Inductive route := RSource | RAvbc | RAasm.
  Definition manifest := list (string * policy).
  (* source: Manifest::for_source_file(entry); assembly: the same lookup next to the .aasm file;
     bytecode: the same lookup next to the .avbc file, else the embedded manifest *)
  Definition manifest_for (r : route) (project embedded : option manifest) : option manifest :=
    match r with
    | RSource => project
    | RAvbc =>
        (* since the repair of KF-C11-8 (Extracted.avbc_route_project_manifest_wins) the project manifest next to the
           file wins; before it, an embedded manifest - which anything can append to the file - replaced it *)
        if avbc_route_project_manifest_wins
        then match project with Some m => Some m | None => embedded end
        else match embedded with Some m => Some m | None => project end
    | RAasm => project
    end.
  (* BEFORE the repair of KF-C11-2: assembly passed no manifest, bytecode only an embedded one *)
  Definition manifest_for_before_fix (r : route) (project embedded : option manifest) : option manifest :=
    match r with RSource => project | RAvbc => embedded | RAasm => None end.
  (* policy looked up by the last path segment *)
  (* ... and, since the round-4 repair (Extracted.policy_lookup_tries_dotted_path), first by the dotted import path *)
  Definition module_policy (m : manifest) (path : list string) : option policy :=
    if policy_lookup_tries_dotted_path then
      match sassoc (String.concat "." path) m with Some p => Some p | None => sassoc (last path "") m end
    else sassoc (last path "") m.
  Definition route_decision (r : route) (c : config) (project embedded : option manifest)
             (path : list string) (f : nfile) : list event :=
    native_module_decision c
      (match manifest_for r project embedded with Some m => module_policy m path | None => None end) f.
  Definition route_decision_before_fix (r : route) (c : config) (project embedded : option manifest)
             (path : list string) (f : nfile) : list event :=
    native_module_decision c
      (match manifest_for_before_fix r project embedded with Some m => module_policy m path | None => None end) f.
End NativePolicy.

Arguments p_caps {vreq} _.
Arguments p_checksum {vreq} _.
Arguments p_version {vreq} _.
Arguments f_chunks {ver} _.
Arguments f_version {ver} _.

(* ---------------------------------------------------------------- observations for the tie *)
Definition b2n (b : bool) : N := if b then 1%N else 0%N.

(* parse: (class, fs, net, exec, hot) , allowed, denied, program args; class 0 ok 1 error 2 unmodelled *)
Definition parse_obs (args : list string) : list N * list string * list string * list string :=
  match parse_args args with
  | POk c prog => ([0%N; b2n (caps_fs c); b2n (caps_net c); b2n (caps_exec c); b2n (hot_reload c)], allowed c, denied c, prog)
  | PErr => ([1%N], [], [], [])
  | PUnmodelled => ([2%N], [], [], [])
  end.

Fixpoint slist_eqb (a b : list string) : bool :=
  match a, b with
  | [], [] => true
  | x :: a', y :: b' => String.eqb x y && slist_eqb a' b'
  | _, _ => false
  end.
Fixpoint nlist_eqb (a b : list N) : bool :=
  match a, b with
  | [], [] => true
  | x :: a', y :: b' => N.eqb x y && nlist_eqb a' b'
  | _, _ => false
  end.
(* sets of strings: compared as mutual inclusion *)
Definition sset_eqb (a b : list string) : bool :=
  forallb (fun x => smem x b) a && forallb (fun x => smem x a) b.
Definition parse_obs_eqb (a b : list N * list string * list string * list string) : bool :=
  match a, b with
  | (n1, al1, de1, p1), (n2, al2, de2, p2) => nlist_eqb n1 n2 && sset_eqb al1 al2 && sset_eqb de1 de2 && slist_eqb p1 p2
  end.

(* natives: query = (flag list, requests) ; observation = the native_registry keys as "mod::name" / "name" *)
Definition native_name (n : native) : string :=
  if String.eqb (fst n) "" then snd n else fst n ++ "::" ++ snd n.
Definition natives_obs (q : list string * list load_request) : list string :=
  match parse_args (fst q) with
  | POk c _ => map native_name (reachable_natives c (snd q))
  | _ => ["<config error>"]
  end.

(* native-module decisions with versions as (major, minor, patch) and requirements `>=v` *)
Definition ver3 := (N * N * N)%type.
Definition ver_geb (rq v : ver3) : bool :=
  match rq, v with
  | (a1, b1, c1), (a2, b2, c2) =>
      (a1 <? a2)%N || ((a1 =? a2)%N && ((b1 <? b2)%N || ((b1 =? b2)%N && (c1 <=? c2)%N)))
  end.
Definition event_code (e : event) : N :=
  match e with ERefusedCap _ => 1 | ERefusedChecksum => 2 | ELoaded => 3 | ERefusedVersion => 4 | EInit => 5 | ERegistered => 6 end%N.
Definition decision_obs (q : list string * option (policy ver3) * nfile ver3) : list N :=
  match q with
  | (flags, pol, f) =>
      match parse_args flags with
      | POk c _ => map event_code (native_module_decision ver3 ver3 ver_geb c pol f)
      | _ => [99%N]
      end
  end.

(* summaries for the native-module tie: [refusal (0 none, 1 capability, 2 checksum, 4 version); loaded; registered] *)
Definition mkpol (caps : list string) (ck : option N) (v : option ver3) : policy ver3 :=
  {| p_caps := caps; p_checksum := ck; p_version := v |}.
Definition mkfile (chunks : list (list N)) (v : option ver3) : nfile ver3 := {| f_chunks := chunks; f_version := v |}.
Definition summary_of (ev : list event) : list N :=
  [ (if existsb (fun e => match e with ERefusedCap _ => true | _ => false end) ev then 1
     else if has_event ERefusedChecksum ev then 2
     else if has_event ERefusedVersion ev then 4 else 0)%N;
    b2n (has_event ELoaded ev); b2n (has_event ERegistered ev) ].
Definition route_summary
  (q : list string * route * option (manifest ver3) * option (manifest ver3) * list string * nfile ver3) : list N :=
  match q with
  | (flags, r, project, embedded, path, f) =>
      match parse_args flags with
      | POk c _ => summary_of (route_decision ver3 ver3 ver_geb r c project embedded path f)
      | _ => [99%N]
      end
  end.
