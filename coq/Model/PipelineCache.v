(* C16 -- model of driver/src/pipeline/{pipeline,cache,types}.rs.

   Part 1 (Section Pipeline): the cache protocol of Pipeline::exec / compile_internal over
   abstract stage outputs.  Everything the protocol does not look at is a Section variable:
   stage outputs `out` (StageInput/StageOutput are the same data; `inject` is
   StageInput::Source), the 64-bit `hash` of (name, content), the copy `clone_out` that the
   cache applies when storing and when serving an entry, and the stages themselves
   (a name, the `cacheable()` flag, and a function that may read and update a state -- the
   VMStage keeps its VM between calls).  Stage outputs are *values*: the model has no
   aliasing between an output and its copy (see notes/C16.md, finding KF-C16-2).

   An output is inserted into the cache only when both the stage and the output say so
   (`stage.cacheable() && output.cacheable()`; a Compiled output is never cacheable since the
   repair of KF-C16-1/2).

   Part 2: a concrete instance with the code's `clone_out` -- `Heap::clone()` returns
   `Heap::new()`, so a cloned `Compiled` output owns no heap objects (bytecode/src/heap/mod.rs)
   -- used (a) to state transparency for the clone the code really makes and (b) for the contract tie: hx_pipeline --mode proto drives
   the real Pipeline with synthetic stages described by the same data. *)
From Coq Require Import NArith ZArith Bool List String.
Import ListNotations.
Local Open Scope string_scope.

Section Pipeline.
  Variables (src out err st : Type).
  Variable hash : src -> N.
  Variable inject : src -> out.
  Variable clone_out : out -> out.
  Variable cache_ok : out -> bool.         (* StageOutput::cacheable: false for Compiled *)
  Variable is_value : out -> bool.         (* StageOutput::Value *)
  Variable is_compiled : out -> bool.      (* StageInput::Compiled *)
  (* TypeMismatch{expected "non-final output", got Value}; MissingInput{"final"};
     TypeMismatch{expected "Compiled"} *)
  Variables (e_value_as_input e_missing e_not_compiled : err).

  Inductive sres := SOk (o : out) | SErr (e : err).

  Record stage := { s_name : string; s_cacheable : bool; s_run : st -> out -> st * sres }.

  Definition key := (string * N)%type.
  Definition key_eqb (a b : key) : bool := String.eqb (fst a) (fst b) && N.eqb (snd a) (snd b).
  Definition cache := list (key * out).

  (* HashMap::get / insert: the newest binding for a key wins *)
  Fixpoint lookup (c : cache) (k : key) : option out :=
    match c with
    | [] => None
    | (k', o) :: r => if key_eqb k' k then Some o else lookup r k
    end.

  Inductive result := RValue (o : out) | RUnit (o : out) | RErr (e : err).

  (* what is returned when the stage list is exhausted (or, for compile, "vm" is reached) *)
  Definition finish (cm : bool) (cur : out) : result :=
    if cm then (if is_compiled cur then RUnit cur else RErr e_not_compiled)
    else RErr e_missing.

  Definition on_value (cm : bool) (o : out) : result :=
    if cm then RErr e_value_as_input else RValue o.

  (* cm = false: Pipeline::exec;  cm = true: Pipeline::compile_internal.
     `cached.source_hash == hash` is implied by the key. *)
  Fixpoint walk (cm : bool) (stages : list stage) (h : N) (c : cache) (s : st) (cur : out)
    : cache * st * result :=
    match stages with
    | [] => (c, s, finish cm cur)
    | stg :: rest =>
      if cm && String.eqb (s_name stg) "vm" then (c, s, finish cm cur) else
      match (if s_cacheable stg then lookup c (s_name stg, h) else None) with
      | Some cached =>
          let o := clone_out cached in
          if is_value o then (c, s, on_value cm o) else walk cm rest h c s o
      | None =>
          match s_run stg s cur with
          | (s', SErr e) => (c, s', RErr e)
          | (s', SOk o) =>
              let c' := if s_cacheable stg && cache_ok o then ((s_name stg, h), clone_out o) :: c else c in
              if is_value o then (c', s', on_value cm o) else walk cm rest h c' s' o
          end
      end
    end.

  (* the same walk with no cache at all *)
  Fixpoint walk_spec (cm : bool) (stages : list stage) (s : st) (cur : out) : st * result :=
    match stages with
    | [] => (s, finish cm cur)
    | stg :: rest =>
      if cm && String.eqb (s_name stg) "vm" then (s, finish cm cur) else
      match s_run stg s cur with
      | (s', SErr e) => (s', RErr e)
      | (s', SOk o) => if is_value o then (s', on_value cm o) else walk_spec cm rest s' o
      end
    end.

  Inductive request := RqExec (x : src) | RqCompile (x : src).
  Definition req_src (r : request) : src := match r with RqExec x | RqCompile x => x end.
  Definition req_cm (r : request) : bool := match r with RqExec _ => false | RqCompile _ => true end.

  Definition serve (stages : list stage) (c : cache) (s : st) (r : request) : cache * st * result :=
    walk (req_cm r) stages (hash (req_src r)) c s (inject (req_src r)).

  (* one Pipeline object serving a history *)
  Fixpoint exec_cached_from (stages : list stage) (c : cache) (s : st) (hist : list request) : list result :=
    match hist with
    | [] => []
    | r :: rest => let '(c', s', res) := serve stages c s r in res :: exec_cached_from stages c' s' rest
    end.
  Definition exec_cached (stages : list stage) (s0 : st) (hist : list request) : list result :=
    exec_cached_from stages [] s0 hist.

  (* a fresh Pipeline (empty cache, initial stage state) for every request *)
  Definition exec_fresh (stages : list stage) (s0 : st) (hist : list request) : list result :=
    map (fun r => snd (serve stages [] s0 r)) hist.

  (* the same stages and stage state, but no cache *)
  Fixpoint exec_uncached (stages : list stage) (s : st) (hist : list request) : list result :=
    match hist with
    | [] => []
    | r :: rest =>
        let '(s', res) := walk_spec (req_cm r) stages s (inject (req_src r)) in
        res :: exec_uncached stages s' rest
    end.

  (* stages that neither read nor write the state *)
  Record pstage := { p_name : string; p_cacheable : bool; p_fun : out -> sres }.
  Definition lift (p : pstage) : stage :=
    {| s_name := p_name p; s_cacheable := p_cacheable p; s_run := fun s i => (s, p_fun p i) |}.

  (* a stage whose *result* does not depend on the state it finds *)
  Definition state_blind (t : stage) : Prop :=
    forall s s' i, snd (s_run t s i) = snd (s_run t s' i).
End Pipeline.

Arguments SOk {out err} _.
Arguments SErr {out err} _.
Arguments RValue {out err} _.
Arguments RUnit {out err} _.
Arguments RErr {out err} _.
Arguments RqExec {src} _.
Arguments RqCompile {src} _.
Arguments req_src {src} _.
Arguments req_cm {src} _.

(* ------------------------------------------------------------------------------------------ *)
(* Part 2: concrete instance *)

Inductive shape := ShSource | ShTokens | ShAst | ShCompiled | ShValue.
Definition shape_eqb (a b : shape) : bool :=
  match a, b with
  | ShSource, ShSource | ShTokens, ShTokens | ShAst, ShAst | ShCompiled, ShCompiled | ShValue, ShValue => true
  | _, _ => false
  end.

(* o_heap = number of objects in the Heap a Compiled output owns *)
Record cout := { o_shape : shape; o_sid : N; o_payload : N; o_heap : N }.

Inductive cerr := EStage | EValueAsInput | EMissing | ENotCompiled.

(* #[derive(Clone)] on StageOutput: every component is copied, except that the Heap inside
   Compiled implements Clone as `Heap::new()` *)
Definition clone_code (o : cout) : cout :=
  match o_shape o with
  | ShCompiled => {| o_shape := ShCompiled; o_sid := o_sid o; o_payload := o_payload o; o_heap := 0 |}
  | _ => o
  end.

Definition c_is_value (o : cout) := shape_eqb (o_shape o) ShValue.
(* StageOutput::cacheable *)
Definition c_cache_ok (o : cout) := negb (shape_eqb (o_shape o) ShCompiled).
Definition c_is_compiled (o : cout) := shape_eqb (o_shape o) ShCompiled.
Definition c_inject (sid : N) : cout := {| o_shape := ShSource; o_sid := sid; o_payload := 0; o_heap := 0 |}.

(* synthetic stages, the same data hx_pipeline --mode proto prints *)
Inductive act := AFail | ATokens | AAst | ACompiled (k : N) | AValue.
Record synspec := mk_syn { y_name : string; y_cacheable : bool; y_counter : bool; y_acts : list act }.

(* stage state: how often each stage (by position) ran, and the log of executed stages *)
Record cst := { runs : list N; log : list N }.
Definition runs_of (s : cst) (idx : nat) : N := nth idx (runs s) 0%N.
Fixpoint bump (l : list N) (idx : nat) : list N :=
  match idx, l with
  | O, [] => [1%N]
  | O, x :: r => N.succ x :: r
  | S k, [] => 0%N :: bump [] k
  | S k, x :: r => x :: bump r k
  end.

Definition syn_run (idx : nat) (y : synspec) (s : cst) (i : cout) : cst * sres cout cerr :=
  let p := match o_shape i with ShTokens | ShCompiled => o_payload i | _ => 0%N end in
  let h := match o_shape i with ShCompiled => o_heap i | _ => 0%N end in
  let c := if y_counter y then runs_of s idx else 0%N in
  let s' := {| runs := bump (runs s) idx; log := log s ++ [N.of_nat idx] |} in
  let np := ((p * 3 + h * 5 + N.of_nat idx + 1 + c) mod 97)%N in
  let sid := o_sid i in
  (s', match nth (N.to_nat sid) (y_acts y) AFail with
       | AFail => SErr EStage
       | ATokens => SOk {| o_shape := ShTokens; o_sid := sid; o_payload := np; o_heap := 0 |}
       | AAst => SOk {| o_shape := ShAst; o_sid := sid; o_payload := 0; o_heap := 0 |}
       | ACompiled k => SOk {| o_shape := ShCompiled; o_sid := sid; o_payload := np; o_heap := k |}
       | AValue => SOk {| o_shape := ShValue; o_sid := sid; o_payload := (np + 100 * h)%N; o_heap := 0 |}
       end).

Fixpoint syn_stages_from (idx : nat) (ys : list synspec) : list (stage cout cerr cst) :=
  match ys with
  | [] => []
  | y :: r => {| s_name := y_name y; s_cacheable := y_cacheable y; s_run := syn_run idx y |}
              :: syn_stages_from (S idx) r
  end.
Definition syn_stages := syn_stages_from 0.

Definition cwalk := walk cout cerr cst clone_code c_cache_ok c_is_value c_is_compiled EValueAsInput EMissing ENotCompiled.
Definition cserve := serve N cout cerr cst (fun x => x) c_inject clone_code c_cache_ok c_is_value c_is_compiled EValueAsInput EMissing ENotCompiled.

Inductive creq := RExec (sid : N) | RCompile (sid : N).
Definition to_req (r : creq) : request N := match r with RExec x => RqExec x | RCompile x => RqCompile x end.

(* observation per request: (class, a, b, stages that actually ran)
   class 0 = value a; 1 = compiled unit with payload a and b heap objects; 2 = StageError;
   3 = TypeMismatch; 4 = MissingInput *)
Definition pobs := (Z * Z * Z * list N)%type.
Definition obs_result (r : result cout cerr) : Z * Z * Z :=
  match r with
  | RValue o => (0, Z.of_N (o_payload o), 0)%Z
  | RUnit o => (1, Z.of_N (o_payload o), Z.of_N (o_heap o))%Z
  | RErr EStage => (2, 0, 0)%Z
  | RErr EValueAsInput | RErr ENotCompiled => (3, 0, 0)%Z
  | RErr EMissing => (4, 0, 0)%Z
  end.

Fixpoint proto_run (stages : list (stage cout cerr cst)) (c : cache cout) (s : cst) (hist : list creq) : list pobs :=
  match hist with
  | [] => []
  | r :: rest =>
      let '(c', s', res) := cserve stages c {| runs := runs s; log := [] |} (to_req r) in
      (obs_result res, log s') :: proto_run stages c' s' rest
  end.

Definition proto_obs (q : list synspec * list creq) : list pobs :=
  proto_run (syn_stages (fst q)) [] {| runs := []; log := [] |} (snd q).

Fixpoint nlist_eqb (a b : list N) : bool :=
  match a, b with
  | [], [] => true
  | x :: a', y :: b' => N.eqb x y && nlist_eqb a' b'
  | _, _ => false
  end.
Definition pobs_eqb (a b : pobs) : bool :=
  match a, b with
  | (x1, x2, x3, l1), (y1, y2, y3, l2) => Z.eqb x1 y1 && Z.eqb x2 y2 && Z.eqb x3 y3 && nlist_eqb l1 l2
  end.
Fixpoint pobs_list_eqb (a b : list pobs) : bool :=
  match a, b with
  | [], [] => true
  | x :: a', y :: b' => pobs_eqb x y && pobs_list_eqb a' b'
  | _, _ => false
  end.

(* the shape of the standard pipeline reduced to what matters for the refutation: a compiler
   stage producing a unit that owns heap constants, and a vm stage whose result depends on the
   constants being there (value 100 * heap objects + ...) *)
Definition mini_pipeline : list synspec :=
  [ mk_syn "lexer" true false [ATokens];
    mk_syn "compiler" true false [ACompiled 2];
    mk_syn "vm" false false [AValue] ].

(* the shape the transparency theorem needs, as a check on the stage lists the translator
   reads from driver/src/pipeline/standard.rs: distinct names, and the uncacheable stages
   form a suffix (no cacheable stage consumes the output of a stateful one) *)
Fixpoint names_nodup (l : list string) : bool :=
  match l with
  | [] => true
  | x :: r => negb (existsb (String.eqb x) r) && names_nodup r
  end.
Fixpoint uncacheable_suffix (l : list (string * bool)) : bool :=
  match l with
  | [] => true
  | (_, true) :: r => uncacheable_suffix r
  | (_, false) :: r => forallb (fun p => negb (snd p)) r
  end.
Definition shape_ok (l : list (string * bool)) : bool := names_nodup (map fst l) && uncacheable_suffix l.
