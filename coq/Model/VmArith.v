(* Model of the VM's arithmetic / comparison / bitwise operations on NaN-boxed words.
   Definitions only.  Sources modelled (runtime/src/vm):
     arithmetic/{mod,numbers,strings}.rs, comparison.rs,
     dispatch/ops/{arithmetic,comparison,bitwise,control_flow}.inc
   Words are N < 2^64 (Model/Value.v).  Floats are Coq primitive floats, converted to and
   from IEEE-754 binary64 bit patterns by the explicit codec below; `%` on floats (C fmod,
   exact) is computed on the exact rational values.

   Families:
     generic   g_*      : dynamically checked (as_int / as_float), errors as values
     typed     t_*      : II / FF / IImm forms: tag check, typed fast path, generic fallback
                          (t_*_old: the unchecked reads before fix 7e82908)
     guarded   gd_*     : ...G forms (check tags, promote, fall back to generic code)
     loop      forloop_i / while_loop_lt
   `vm_binop`/`vm_unop`/`vm_immop` dispatch on the opcode (Extracted/Opcodes.v). *)
From Coq Require Import NArith ZArith Bool List Floats.
From Aelys Require Import Extracted.ValueConsts Extracted.Opcodes Model.Value.
Import ListNotations.
Local Open Scope N_scope.

(* ------------------------------------------------------------------ float codec *)
Definition TWO52 : N := 4503599627370496.

(* f64::from_bits *)
Definition f_of_bits (w : N) : float :=
  if is_nan_bits w then nan
  else if f_exp w =? 2047 then (if f_sign w then neg_infinity else infinity)
  else
    let m := if f_exp w =? 0 then f_mant w else f_mant w + TWO52 in
    let e := if f_exp w =? 0 then (-1074)%Z else (Z.of_N (f_exp w) - 1075)%Z in
    match m with
    | N0 => if f_sign w then neg_zero else zero
    | Npos p => SF2Prim (S754_finite (f_sign w) p e)
    end.

(* bits of a canonical (sign, mantissa < 2^53, exponent >= -1074) finite triple *)
Definition pack_bits (s : bool) (m : N) (e : Z) : N :=
  (if s then SIGN_BIT else 0) +
  (if TWO52 <=? m then N.shiftl (Z.to_N (e + 1075)) 52 + (m - TWO52) else m).

(* Value::float(f).raw_bits(): every NaN becomes CANONICAL_NAN *)
Definition bits_of_f (f : float) : N :=
  match Prim2SF f with
  | S754_nan => CANONICAL_NAN
  | S754_zero s => if s then SIGN_BIT else 0
  | S754_infinity s => (if s then SIGN_BIT else 0) + EXP_MASK
  | S754_finite s m e => pack_bits s (Npos m) e
  end.

(* (n as f64) for an i64 n; exact when |n| < 2^53 (always the case for 48-bit payloads) *)
Definition f_of_int (n : Z) : float :=
  match n with
  | Z0 => zero
  | Zpos p => SF2Prim (S754_finite false p 0)
  | Zneg p => SF2Prim (S754_finite true p 0)
  end.

(* exactly representable m * 2^e (m > 0, e >= -1074) -> bits *)
Definition encode_exact (s : bool) (m : N) (e : Z) : N :=
  let len := N.size m in
  if 53 <? len then
    let k := len - 53 in pack_bits s (N.shiftr m k) (e + Z.of_N k)
  else
    let k := N.min (53 - len) (Z.to_N (e + 1074)) in
    pack_bits s (N.shiftl m k) (e - Z.of_N k).

Definition f_mag (w : N) : N := if f_exp w =? 0 then f_mant w else f_mant w + TWO52.
Definition f_e (w : N) : Z := if f_exp w =? 0 then (-1074)%Z else (Z.of_N (f_exp w) - 1075)%Z.

(* Value::float(a % b) on bit patterns: C fmod, result exact, sign of the dividend *)
Definition fmod_bits (a b : N) : N :=
  if is_nan_bits a || is_nan_bits b || is_inf_bits a || is_zero_bits b then CANONICAL_NAN
  else if is_inf_bits b then a
  else if is_zero_bits a then a
  else
    let e := Z.min (f_e a) (f_e b) in
    let x := N.shiftl (f_mag a) (Z.to_N (f_e a - e)) in
    let y := N.shiftl (f_mag b) (Z.to_N (f_e b - e)) in
    let r := x mod y in
    if r =? 0 then (if f_sign a then SIGN_BIT else 0) else encode_exact (f_sign a) r e.

(* ------------------------------------------------------------------ results *)
Inductive verr := ETypeError | EDivZero.
(* RConcat p q: the operation is string concatenation of heap strings p and q (needs the heap) *)
Inductive vres := ROk (w : N) | RErr (e : verr) | RConcat (p q : N).

(* what the operations need to know about the heap: for a pointer payload, Some id when the
   object is a string (equal ids <-> equal contents), None for any other / dead object *)
Definition heapview := N -> option N.
Definition no_heap : heapview := fun _ => None.

Inductive aop := AAdd | ASub | AMul | ADiv | AMod.
Inductive cop := CLt | CLe | CGt | CGe | CEq | CNe.
Inductive bop := BShl | BShr | BAnd | BOr | BXor.

(* ------------------------------------------------------------------ kernels *)
(* Value::int(l op r): i64 wrapping arithmetic followed by the 48-bit mask equals masking the
   mathematical result (v_int reduces modulo 2^64 then 2^48) *)
Definition int_arith (o : aop) (l r : Z) : vres :=
  match o with
  | AAdd => ROk (v_int (l + r))
  | ASub => ROk (v_int (l - r))
  | AMul => ROk (v_int (l * r))
  | ADiv => if (r =? 0)%Z then RErr EDivZero else ROk (v_int (Z.quot l r))
  | AMod => if (r =? 0)%Z then RErr EDivZero else ROk (v_int (Z.rem l r))
  end.

Definition float_arith (o : aop) (x y : float) : N :=
  match o with
  | AAdd => bits_of_f (x + y)
  | ASub => bits_of_f (x - y)
  | AMul => bits_of_f (x * y)
  | ADiv => bits_of_f (x / y)
  | AMod => fmod_bits (bits_of_f x) (bits_of_f y)
  end.

Definition int_cmp (o : cop) (l r : Z) : bool :=
  match o with
  | CLt => (l <? r)%Z | CLe => (l <=? r)%Z | CGt => (r <? l)%Z | CGe => (r <=? l)%Z
  | CEq => (l =? r)%Z | CNe => negb (l =? r)%Z
  end.

Definition float_cmp (o : cop) (x y : float) : bool :=
  match o with
  | CLt => PrimFloat.ltb x y | CLe => PrimFloat.leb x y
  | CGt => PrimFloat.ltb y x | CGe => PrimFloat.leb y x
  | CEq => PrimFloat.eqb x y | CNe => negb (PrimFloat.eqb x y)
  end.

(* l << (r & 63), l >> (r & 63) on i64 then Value::int *)
Definition int_bit (o : bop) (l r : Z) : Z :=
  match o with
  | BShl => Z.shiftl l (Z.land r 63)
  | BShr => Z.shiftr l (Z.land r 63)
  | BAnd => Z.land l r
  | BOr => Z.lor l r
  | BXor => Z.lxor l r
  end.

(* ------------------------------------------------------------------ operand views *)
Definition as_f (w : N) : option float :=
  match as_float w with Some b => Some (f_of_bits b) | None => None end.
Definition as_float_unchecked (w : N) : float := f_of_bits w.
(* left.as_float().or_else(|| left.as_int().map(|i| i as f64)) *)
Definition promote (w : N) : option float :=
  match as_f w with
  | Some x => Some x
  | None => match as_int w with Some n => Some (f_of_int n) | None => None end
  end.

(* ------------------------------------------------------------------ generic family *)
(* numbers::try_{add,sub,mul,div,mod}_numbers *)
Definition g_arith_num (o : aop) (a b : N) : option vres :=
  match as_int a, as_int b with
  | Some l, Some r => Some (int_arith o l r)
  | _, _ =>
    match as_f a, as_f b with
    | Some x, Some y => Some (ROk (float_arith o x y))
    | _, _ =>
      match as_int a, as_f b with
      | Some l, Some y => Some (ROk (float_arith o (f_of_int l) y))
      | _, _ =>
        match as_f a, as_int b with
        | Some x, Some r => Some (ROk (float_arith o x (f_of_int r)))
        | _, _ => None
        end
      end
    end
  end.

(* strings::try_concat_strings *)
Definition g_concat (hv : heapview) (a b : N) : option vres :=
  match as_ptr a, as_ptr b with
  | Some p, Some q =>
      match hv p, hv q with Some _, Some _ => Some (RConcat p q) | _, _ => None end
  | _, _ => None
  end.

(* Add..Mod (opcodes 5-9) = add_values .. mod_values *)
Definition g_arith (hv : heapview) (o : aop) (a b : N) : vres :=
  match g_arith_num o a b with
  | Some r => r
  | None =>
      match o with
      | AAdd => match g_concat hv a b with Some r => r | None => RErr ETypeError end
      | _ => RErr ETypeError
      end
  end.

(* Eq/Ne (11, 12): Value == or equal heap strings *)
Definition g_eq (hv : heapview) (a b : N) : bool :=
  if value_eq a b then true
  else match as_ptr a, as_ptr b with
       | Some p, Some q =>
           match hv p, hv q with Some s, Some t => s =? t | _, _ => false end
       | _, _ => false
       end.

(* compare_lt/le/gt/ge *)
Definition g_ord (o : cop) (a b : N) : option bool :=
  match as_int a, as_int b with
  | Some l, Some r => Some (int_cmp o l r)
  | _, _ =>
    match as_f a, as_f b with
    | Some x, Some y => Some (float_cmp o x y)
    | _, _ =>
      match as_int a, as_f b with
      | Some l, Some y => Some (float_cmp o (f_of_int l) y)
      | _, _ =>
        match as_f a, as_int b with
        | Some x, Some r => Some (float_cmp o x (f_of_int r))
        | _, _ => None
        end
      end
    end
  end.

Definition g_cmp (hv : heapview) (o : cop) (a b : N) : vres :=
  match o with
  | CEq => ROk (v_bool (g_eq hv a b))
  | CNe => ROk (v_bool (negb (g_eq hv a b)))
  | _ => match g_ord o a b with Some r => ROk (v_bool r) | None => RErr ETypeError end
  end.

(* Shl..BitXor (105-109) *)
Definition g_bit (o : bop) (a b : N) : vres :=
  match as_int a, as_int b with
  | Some l, Some r => ROk (v_int (int_bit o l r))
  | _, _ => RErr ETypeError
  end.

(* Neg (10), BitNot (110), Not (17) *)
Definition g_neg (a : N) : vres :=
  match as_int a with
  | Some n => ROk (v_int (- n))
  | None => match as_f a with
            | Some x => ROk (bits_of_f (- x))
            | None => RErr ETypeError
            end
  end.
Definition g_bitnot (a : N) : vres :=
  match as_int a with Some n => ROk (v_int (Z.lnot n)) | None => RErr ETypeError end.
Definition g_not (a : N) : vres :=
  ROk (v_bool (is_null a
               || match as_bool a with Some false => true | _ => false end
               || match as_int a with Some 0%Z => true | _ => false end)).

(* ------------------------------------------------------------------ typed family
   Since fix 7e82908 every specialised opcode checks the operand tags: the typed fast path when
   they are the expected ones, the generic operation otherwise.  AddII..ModII, LtII..NeII,
   ShlII..XorII and NotI behave exactly as the generic opcode, whose first test is the int fast
   path (in the code they currently share its match arm). *)
Definition t_arith_ii (hv : heapview) (o : aop) (a b : N) : vres := g_arith hv o a b.
Definition t_cmp_ii (hv : heapview) (o : cop) (a b : N) : vres := g_cmp hv o a b.
Definition t_bit_ii (o : bop) (a b : N) : vres := g_bit o a b.
Definition t_not_i (a : N) : vres := g_bitnot a.
(* AddFF..ModFF, LtFF..NeFF: float fast path first, then the generic operation *)
Definition t_arith_ff (hv : heapview) (o : aop) (a b : N) : vres :=
  match as_f a, as_f b with
  | Some x, Some y => ROk (float_arith o x y)
  | _, _ => g_arith hv o a b
  end.
Definition t_cmp_ff (hv : heapview) (o : cop) (a b : N) : vres :=
  match as_f a, as_f b with
  | Some x, Some y => ROk (v_bool (float_cmp o x y))
  | _, _ => g_cmp hv o a b
  end.
(* immediate forms: c is the 8-bit C field, zero-extended (c as i64); a non-int register gets
   the generic operation with Value::int(c) (AddI SubI Lt..GeImm Lt..GeIImm) or the generic
   type error (Shl..XorIImm) *)
Definition t_arith_imm (hv : heapview) (o : aop) (a c : N) : vres :=
  match as_int a with
  | Some l => int_arith o l (Z.of_N c)
  | None => g_arith hv o a (v_int (Z.of_N c))
  end.
Definition t_cmp_imm (hv : heapview) (o : cop) (a c : N) : vres :=
  match as_int a with
  | Some l => ROk (v_bool (int_cmp o l (Z.of_N c)))
  | None => g_cmp hv o a (v_int (Z.of_N c))
  end.
Definition t_bit_imm (o : bop) (a c : N) : vres :=
  match as_int a with
  | Some l => ROk (v_int (int_bit o l (Z.of_N c)))
  | None => RErr ETypeError
  end.

(* ------------------------------------------------------------------ guarded family *)
Definition gd_arith_iig (hv : heapview) (o : aop) (a b : N) : vres :=
  match as_int a, as_int b with
  | Some l, Some r => int_arith o l r
  | _, _ =>
    match promote a, promote b with
    | Some x, Some y => ROk (float_arith o x y)
    | _, _ => g_arith hv o a b
    end
  end.
(* non-numeric operands: the guarded comparisons fall back to the generic comparison
   (compare_lt.. => TypeError for Lt..Ge; Value == / string contents for Eq, Ne) *)
Definition gd_cmp_iig (hv : heapview) (o : cop) (a b : N) : vres :=
  match as_int a, as_int b with
  | Some l, Some r => ROk (v_bool (int_cmp o l r))
  | _, _ =>
    match promote a, promote b with
    | Some x, Some y => ROk (v_bool (float_cmp o x y))
    | _, _ => g_cmp hv o a b
    end
  end.
(* since 7e82908 AddFFG..NeFFG share the arms of AddIIG..NeIIG *)
Definition gd_arith_ffg := gd_arith_iig.
Definition gd_cmp_ffg := gd_cmp_iig.

(* ------------------------------------------------------------------ loop super-instructions *)
(* ForLoopI (40) / ForLoopIInc (41) on registers (iter, end, step): None = type error (some
   register is not an int); otherwise the new iter word and whether the back-jump is taken.
   The comparison uses the un-wrapped i64 sum. *)
Definition forloop_i (inclusive : bool) (iter lim step : N) : option (N * bool) :=
  match as_int iter, as_int lim, as_int step with
  | Some i, Some e, Some s =>
      let n := (i + s)%Z in
      Some (v_int n,
            if (0 <? s)%Z then (if inclusive then (n <=? e)%Z else (n <? e)%Z)
            else (if inclusive then (e <=? n)%Z else (e <? n)%Z))
  | _, _, _ => None
  end.
(* WhileLoopLt (48): None = type error from compare_lt *)
Definition while_loop_lt (iter lim : N) : option bool :=
  match as_int iter, as_int lim with
  | Some i, Some l => Some (i <? l)%Z
  | _, _ => g_ord CLt iter lim
  end.

(* ------------------------------------------------------------------ the definitions before 7e82908
   (operands read with as_int_unchecked / as_float_unchecked, no tag check; release behaviour).
   Kept only so that the old counterexamples remain statements about something. *)
Definition t_arith_ii_old (o : aop) (a b : N) : vres :=
  int_arith o (as_int_unchecked a) (as_int_unchecked b).
Definition t_arith_ff_old (o : aop) (a b : N) : vres :=
  ROk (float_arith o (as_float_unchecked a) (as_float_unchecked b)).
Definition t_cmp_imm_old (o : cop) (a c : N) : vres :=
  ROk (v_bool (int_cmp o (as_int_unchecked a) (Z.of_N c))).
Definition forloop_i_old (inclusive : bool) (iter lim step : N) : N * bool :=
  let i := as_int_unchecked iter in
  let e := as_int_unchecked lim in
  let s := as_int_unchecked step in
  let n := (i + s)%Z in
  (v_int n,
   if (0 <? s)%Z then (if inclusive then (n <=? e)%Z else (n <? e)%Z)
   else (if inclusive then (e <=? n)%Z else (e <? n)%Z)).
Definition while_loop_lt_old (iter lim : N) : bool :=
  (as_int_unchecked iter <? as_int_unchecked lim)%Z.
Definition gd_arith_ffg_old (hv : heapview) (o : aop) (a b : N) : vres :=
  match promote a, promote b with
  | Some x, Some y => ROk (float_arith o x y)
  | _, _ => g_arith hv o a b
  end.

(* ------------------------------------------------------------------ dispatch by opcode *)
Inductive fam := FGen | FII | FFF | FIIG | FFFG.
Inductive binsem := SArith (f : fam) (o : aop) | SCmp (f : fam) (o : cop) | SBit (f : fam) (o : bop).

(* register-register opcodes: dest := op(R[b], R[c]) *)
Definition binop_sem (op : opcode) : option binsem :=
  match op with
  | O_Add => Some (SArith FGen AAdd) | O_Sub => Some (SArith FGen ASub) | O_Mul => Some (SArith FGen AMul)
  | O_Div => Some (SArith FGen ADiv) | O_Mod => Some (SArith FGen AMod)
  | O_Eq => Some (SCmp FGen CEq) | O_Ne => Some (SCmp FGen CNe) | O_Lt => Some (SCmp FGen CLt)
  | O_Le => Some (SCmp FGen CLe) | O_Gt => Some (SCmp FGen CGt) | O_Ge => Some (SCmp FGen CGe)
  | O_AddII => Some (SArith FII AAdd) | O_SubII => Some (SArith FII ASub) | O_MulII => Some (SArith FII AMul)
  | O_DivII => Some (SArith FII ADiv) | O_ModII => Some (SArith FII AMod)
  | O_AddFF => Some (SArith FFF AAdd) | O_SubFF => Some (SArith FFF ASub) | O_MulFF => Some (SArith FFF AMul)
  | O_DivFF => Some (SArith FFF ADiv) | O_ModFF => Some (SArith FFF AMod)
  | O_LtII => Some (SCmp FII CLt) | O_LeII => Some (SCmp FII CLe) | O_GtII => Some (SCmp FII CGt)
  | O_GeII => Some (SCmp FII CGe) | O_EqII => Some (SCmp FII CEq) | O_NeII => Some (SCmp FII CNe)
  | O_LtFF => Some (SCmp FFF CLt) | O_LeFF => Some (SCmp FFF CLe) | O_GtFF => Some (SCmp FFF CGt)
  | O_GeFF => Some (SCmp FFF CGe) | O_EqFF => Some (SCmp FFF CEq) | O_NeFF => Some (SCmp FFF CNe)
  | O_AddIIG => Some (SArith FIIG AAdd) | O_SubIIG => Some (SArith FIIG ASub) | O_MulIIG => Some (SArith FIIG AMul)
  | O_DivIIG => Some (SArith FIIG ADiv) | O_ModIIG => Some (SArith FIIG AMod)
  | O_AddFFG => Some (SArith FFFG AAdd) | O_SubFFG => Some (SArith FFFG ASub) | O_MulFFG => Some (SArith FFFG AMul)
  | O_DivFFG => Some (SArith FFFG ADiv) | O_ModFFG => Some (SArith FFFG AMod)
  | O_LtIIG => Some (SCmp FIIG CLt) | O_LeIIG => Some (SCmp FIIG CLe) | O_GtIIG => Some (SCmp FIIG CGt)
  | O_GeIIG => Some (SCmp FIIG CGe) | O_EqIIG => Some (SCmp FIIG CEq) | O_NeIIG => Some (SCmp FIIG CNe)
  | O_LtFFG => Some (SCmp FFFG CLt) | O_LeFFG => Some (SCmp FFFG CLe) | O_GtFFG => Some (SCmp FFFG CGt)
  | O_GeFFG => Some (SCmp FFFG CGe) | O_EqFFG => Some (SCmp FFFG CEq) | O_NeFFG => Some (SCmp FFFG CNe)
  | O_Shl => Some (SBit FGen BShl) | O_Shr => Some (SBit FGen BShr) | O_BitAnd => Some (SBit FGen BAnd)
  | O_BitOr => Some (SBit FGen BOr) | O_BitXor => Some (SBit FGen BXor)
  | O_ShlII => Some (SBit FII BShl) | O_ShrII => Some (SBit FII BShr) | O_AndII => Some (SBit FII BAnd)
  | O_OrII => Some (SBit FII BOr) | O_XorII => Some (SBit FII BXor)
  | _ => None
  end.

Definition run_binsem (hv : heapview) (s : binsem) (a b : N) : vres :=
  match s with
  | SArith FGen o => g_arith hv o a b
  | SArith FII o => t_arith_ii hv o a b
  | SArith FFF o => t_arith_ff hv o a b
  | SArith FIIG o => gd_arith_iig hv o a b
  | SArith FFFG o => gd_arith_ffg hv o a b
  | SCmp FGen o => g_cmp hv o a b
  | SCmp FII o => t_cmp_ii hv o a b
  | SCmp FFF o => t_cmp_ff hv o a b
  | SCmp FIIG o => gd_cmp_iig hv o a b
  | SCmp FFFG o => gd_cmp_ffg hv o a b
  | SBit FII o => t_bit_ii o a b
  | SBit _ o => g_bit o a b          (* there are no FF / guarded bitwise opcodes *)
  end.

Definition vm_binop (hv : heapview) (op : opcode) (a b : N) : option vres :=
  match binop_sem op with Some s => Some (run_binsem hv s a b) | None => None end.

(* unary opcodes: dest := op(R[b]) *)
Definition vm_unop (op : opcode) (a : N) : option vres :=
  match op with
  | O_Neg => Some (g_neg a) | O_BitNot => Some (g_bitnot a) | O_Not => Some (g_not a)
  | O_NotI => Some (t_not_i a)
  | _ => None
  end.

(* register-immediate opcodes: dest := op(R[b], c) with c the raw 8-bit field *)
Definition vm_immop (hv : heapview) (op : opcode) (a c : N) : option vres :=
  match op with
  | O_AddI => Some (t_arith_imm hv AAdd a c) | O_SubI => Some (t_arith_imm hv ASub a c)
  | O_LtImm | O_LtIImm => Some (t_cmp_imm hv CLt a c) | O_LeImm | O_LeIImm => Some (t_cmp_imm hv CLe a c)
  | O_GtImm | O_GtIImm => Some (t_cmp_imm hv CGt a c) | O_GeImm | O_GeIImm => Some (t_cmp_imm hv CGe a c)
  | O_ShlIImm => Some (t_bit_imm BShl a c) | O_ShrIImm => Some (t_bit_imm BShr a c)
  | O_AndIImm => Some (t_bit_imm BAnd a c) | O_OrIImm => Some (t_bit_imm BOr a c)
  | O_XorIImm => Some (t_bit_imm BXor a c)
  | _ => None
  end.

(* the opcode numbers the dispatch loop's `match opcode_byte` arms are written against
   (arithmetic.inc / comparison.inc / bitwise.inc / control_flow.inc use literals) *)
Definition dispatch_numbers : list (opcode * N) :=
  [(O_Add,5);(O_Sub,6);(O_Mul,7);(O_Div,8);(O_Mod,9);(O_Neg,10);(O_Eq,11);(O_Ne,12);(O_Lt,13);(O_Le,14);
   (O_Gt,15);(O_Ge,16);(O_Not,17);(O_ForLoopI,40);(O_ForLoopIInc,41);(O_AddI,42);(O_SubI,43);
   (O_LtImm,44);(O_LeImm,45);(O_GtImm,46);(O_GeImm,47);(O_WhileLoopLt,48);
   (O_AddII,49);(O_SubII,50);(O_MulII,51);(O_DivII,52);(O_ModII,53);
   (O_AddFF,54);(O_SubFF,55);(O_MulFF,56);(O_DivFF,57);(O_ModFF,58);
   (O_LtII,59);(O_LeII,60);(O_GtII,61);(O_GeII,62);(O_EqII,63);(O_NeII,64);
   (O_LtFF,65);(O_LeFF,66);(O_GtFF,67);(O_GeFF,68);(O_EqFF,69);(O_NeFF,70);
   (O_LtIImm,71);(O_LeIImm,72);(O_GtIImm,73);(O_GeIImm,74);
   (O_AddIIG,82);(O_SubIIG,83);(O_MulIIG,84);(O_DivIIG,85);(O_ModIIG,86);
   (O_AddFFG,87);(O_SubFFG,88);(O_MulFFG,89);(O_DivFFG,90);(O_ModFFG,91);
   (O_LtIIG,92);(O_LeIIG,93);(O_GtIIG,94);(O_GeIIG,95);(O_EqIIG,96);(O_NeIIG,97);
   (O_LtFFG,98);(O_LeFFG,99);(O_GtFFG,100);(O_GeFFG,101);(O_EqFFG,102);(O_NeFFG,103);
   (O_Shl,105);(O_Shr,106);(O_BitAnd,107);(O_BitOr,108);(O_BitXor,109);(O_BitNot,110);
   (O_ShlII,111);(O_ShrII,112);(O_AndII,113);(O_OrII,114);(O_XorII,115);(O_NotI,116);
   (O_ShlIImm,117);(O_ShrIImm,118);(O_AndIImm,119);(O_OrIImm,120);(O_XorIImm,121)].
Definition dispatch_numbers_ok : bool :=
  forallb (fun p => opcode_num (fst p) =? snd p) dispatch_numbers.
