(* Model of std.bytes (runtime/src/stdlib/bytes.rs) on the VM's resource table
   (runtime/src/vm/resources.rs).  Definitions only.
   Buffers are lists of bytes (N < 256).  Every failure of std.bytes is the same
   RuntimeErrorKind (TypeError), so a result is Ok(value) or Err.
   Accessor tables, value ranges and MAX_ALLOC come from the translator (Extracted/ManualMem.v). *)
From Coq Require Import NArith ZArith Bool List.
From Aelys Require Import Base.CaseCheck Extracted.ManualMem Model.Value Model.ManualHeap.
Import ListNotations.
Local Open Scope N_scope.

Definition byte := N.
Definition buf := list byte.
(* VM.resources restricted to what std.bytes programs create: Some = ByteBuffer, None = empty slot *)
Definition bstate := list (option buf).
Definition bs_empty : bstate := [].

(* resources.rs: store_resource reuses the FIRST empty slot, else appends *)
Fixpoint first_free (l : bstate) (i : N) : option N :=
  match l with
  | [] => None
  | None :: _ => Some i
  | Some _ :: r => first_free r (N.succ i)
  end.
Definition store_resource (l : bstate) (d : buf) : bstate * N :=
  match first_free l 0 with
  | Some i => (upd_N l i (Some d), i)
  | None => (l ++ [Some d], N.of_nat (length l))
  end.
Definition get_buf (l : bstate) (h : N) : option buf :=
  match nth_N l h with Some (Some d) => Some d | _ => None end.

(* ---------- byte-level encodings: uN::to_le_bytes / to_be_bytes / from_le_bytes / from_be_bytes *)
Fixpoint le_bytes (w : nat) (x : N) : list byte :=
  match w with O => [] | S k => (x mod 256) :: le_bytes k (x / 256) end.
Fixpoint le_val (bs : list byte) : N :=
  match bs with [] => 0 | b :: r => b + 256 * le_val r end.
Definition enc (w : nat) (be : bool) (x : N) : list byte := if be then rev (le_bytes w x) else le_bytes w x.
Definition dec (be : bool) (bs : list byte) : N := le_val (if be then rev bs else bs).

Definition pow256 (w : N) : N := 2 ^ (8 * w).
(* `val as uN` for an i64 *)
Definition to_unsigned (w : N) (z : Z) : N := Z.to_N (z mod Z.of_N (pow256 w))%Z.
(* the integer a reader passes to Value::int:  uN as i64  /  iN as i64 *)
Definition as_i64 (w : N) (signed : bool) (u : N) : Z :=
  if signed || (w =? 8)
  then (if u <? pow256 w / 2 then Z.of_N u else (Z.of_N u - Z.of_N (pow256 w))%Z)
  else Z.of_N u.

(* ---------- f32 <-> f64 on bit patterns (`v as f64` is exact, `f as f32` rounds to nearest even) *)
(* f32 bit pattern -> f64 bit pattern of the same value (`v as f64`, exact) *)
Definition f32_to_f64 (u : N) : N :=
  let s := N.shiftl (N.shiftr u 31) 63 in
  let e := N.land (N.shiftr u 23) 255 in
  let m := N.land u 8388607 in
  if e =? 255 then N.lor s (N.lor 0x7FF0000000000000 (N.shiftl m 29))
  else if e =? 0 then
    if m =? 0 then s
    else
      let k := N.log2 m in                                   (* m = 2^k + rest, k <= 22 *)
      N.lor s (N.lor (N.shiftl (k + 874) 52)                 (* k - 149 + 1023 *)
                     (N.shiftl (m - N.shiftl 1 k) (52 - k)))
  else N.lor s (N.lor (N.shiftl (e + 896) 52) (N.shiftl m 29)).   (* e - 127 + 1023 *)

(* round-to-nearest-even right shift *)
Definition rne_shr (x sh : N) : N :=
  if sh =? 0 then x else
  let q := N.shiftr x sh in
  let r := x - N.shiftl q sh in
  let half := N.shiftl 1 (sh - 1) in
  if (half <? r) || ((r =? half) && N.odd q) then q + 1 else q.

(* f64 bit pattern -> f32 bit pattern (`f as f32`, IEEE round to nearest even) *)
Definition f64_to_f32 (b : N) : N :=
  let s := N.shiftl (N.shiftr b 63) 31 in
  let e := N.land (N.shiftr b 52) 2047 in
  let m := N.land b 0xFFFFFFFFFFFFF in
  if e =? 2047 then
    if m =? 0 then N.lor s 0x7F800000
    else N.lor s (N.lor 0x7FC00000 (N.shiftr m 29))           (* quiet NaN, payload truncated *)
  else if e =? 0 then s                                       (* zero / f64 subnormal: far below f32's range *)
  else
    let M := m + 4503599627370496 in                          (* 1.m as a 53-bit integer *)
    if 897 <=? e then                                         (* unbiased exponent >= -126: normal candidate *)
      let q := rne_shr M 29 in                                (* 24 bits, may carry to 2^24 *)
      let e32 := if q =? 16777216 then e - 896 + 1 else e - 896 in
      let q := if q =? 16777216 then 8388608 else q in
      if 255 <=? e32 then N.lor s 0x7F800000
      else N.lor s (N.lor (N.shiftl e32 23) (q - 8388608))
    else
      let sh := 29 + (897 - e) in                             (* subnormal result *)
      if 55 <=? sh then s else N.lor s (rne_shr M sh).

Definition slice (d : buf) (off len : N) : buf := firstn (N.to_nat len) (skipn (N.to_nat off) d).
Definition splice (d : buf) (off : N) (bs : list byte) : buf :=
  firstn (N.to_nat off) d ++ bs ++ skipn (N.to_nat off + length bs) d.

(* bounds_err: off.checked_add(size).is_none_or(|end| end > buf_len) *)
Definition in_bounds (size off len : N) : bool := (off + size <? USIZE) && (off + size <=? len).

(* ---------- operations *)
Inductive bop :=
| BAlloc (n : Z)
| BFree (a : varg)
| BSize (h : Z)
| BResize (h n : Z)
| BRead (w : N) (kind : N) (be : bool) (h off : Z)          (* kind 0 unsigned, 1 signed, 2 float *)
| BWrite (w : N) (signed be : bool) (h off v : Z)
| BWriteF (w : N) (be : bool) (h off : Z) (bits : N)        (* float operand given by its f64 bit pattern *)
| BCopy (sh so dh doff len : Z)
| BFill (h off len v : Z)
| BClone (h : Z)
| BEquals (h1 h2 : Z)
| BFromString (bs : list byte)                               (* the UTF-8 bytes of the string operand *)
| BDecode (h off len : Z)
| BWriteString (h off : Z) (bs : list byte)
| BFind (h start stop needle : Z)
| BReverse (h off len : Z)
| BSwap (h i j : Z)
| BReadFile (content : list byte) (n : Z)   (* let f = fs.open(path, "r"); let b = fs.read_bytes(f, n); fs.close(f); b
                                              on a readable file with this content, 0 <= n <= MAX_BUF *)
| BFsClose (h : Z)     (* fs.close applied to a handle of this table: these programs open no file, so it must refuse *)
| BNetClose (h : Z)    (* net.close: documented no-op for anything that is not a socket or listener *)
| BNonInt.   (* any std.bytes call with a non-int where a handle / offset / length / integer value is required,
               a non-number as a float value, a non-string as a string: get_handle / get_int / get_string fail *)

Inductive bres := BOkInt (z : Z) | BOkUnit | BOkWord (w : N) | BOkStr (bs : list byte) | BErr
| BBad.   (* never returned by b_step: the specification's answer to a result it does not allow *)

(* std::str::from_utf8 (Unicode 'well-formed UTF-8 byte sequences', table 3-7) *)
Definition in_rng (lo hi b : N) : bool := (lo <=? b) && (b <=? hi).
Fixpoint utf8_valid (l : list byte) : bool :=
  match l with
  | [] => true
  | b0 :: r =>
      if b0 <? 128 then utf8_valid r else
      match r with
      | [] => false
      | b1 :: r1 =>
          if in_rng 0xC2 0xDF b0 then in_rng 0x80 0xBF b1 && utf8_valid r1 else
          match r1 with
          | [] => false
          | b2 :: r2 =>
              if b0 =? 0xE0 then in_rng 0xA0 0xBF b1 && in_rng 0x80 0xBF b2 && utf8_valid r2
              else if in_rng 0xE1 0xEC b0 || in_rng 0xEE 0xEF b0
                   then in_rng 0x80 0xBF b1 && in_rng 0x80 0xBF b2 && utf8_valid r2
              else if b0 =? 0xED then in_rng 0x80 0x9F b1 && in_rng 0x80 0xBF b2 && utf8_valid r2
              else
              match r2 with
              | [] => false
              | b3 :: r3 =>
                  let tail := in_rng 0x80 0xBF b2 && in_rng 0x80 0xBF b3 && utf8_valid r3 in
                  if b0 =? 0xF0 then in_rng 0x90 0xBF b1 && tail
                  else if in_rng 0xF1 0xF3 b0 then in_rng 0x80 0xBF b1 && tail
                  else if b0 =? 0xF4 then in_rng 0x80 0x8F b1 && tail
                  else false
              end
          end
      end
  end.

(* position of the first occurrence of [x] in [l], counted from [i] *)
Fixpoint find_from (x : byte) (l : list byte) (i : N) : option N :=
  match l with
  | [] => None
  | b :: r => if b =? x then Some i else find_from x r (N.succ i)
  end.

Definition reader_known (w kind : N) (be : bool) : bool :=
  existsb (fun r => let '(w', k', be') := r in (w' =? w) && (k' =? kind) && Bool.eqb be' be) bytes_readers.
Definition writer_range (w : N) (sg be : bool) : option (Z * Z) :=
  match find (fun r => let '(w', sg', be', _, _) := r in (w' =? w) && Bool.eqb sg' sg && Bool.eqb be' be)
             bytes_int_writers with
  | Some (_, _, _, lo, hi) => Some (lo, hi)
  | None => None
  end.
Definition fwriter_known (w : N) (be : bool) : bool :=
  existsb (fun r => let '(w', be') := r in (w' =? w) && Bool.eqb be' be) bytes_float_writers.

Definition set_buf (s : bstate) (h : N) (d : buf) : bstate := upd_N s h (Some d).

Definition write_at (s : bstate) (h off : Z) (bs : list byte) : bstate * bres :=
  if (h <? 0)%Z then (s, BErr) else if (off <? 0)%Z then (s, BErr) else
  match get_buf s (Z.to_N h) with
  | None => (s, BErr)
  | Some d =>
      if in_bounds (N.of_nat (length bs)) (Z.to_N off) (N.of_nat (length d))
      then (set_buf s (Z.to_N h) (splice d (Z.to_N off) bs), BOkUnit)
      else (s, BErr)
  end.

Definition b_step (s : bstate) (o : bop) : bstate * bres :=
  match o with
  | BAlloc n =>
      if (n <=? 0)%Z then (s, BErr) else
      if MAX_ALLOC <? Z.to_N n then (s, BErr) else
      let '(s', h) := store_resource s (repeat 0 (Z.to_nat n)) in (s', BOkInt (Z.of_N h))
  | BFree ANull => (s, BOkUnit)
  | BFree AOther => (s, BErr)
  | BFree (AInt h) =>
      if (h <? 0)%Z then (s, BErr) else
      match get_buf s (Z.to_N h) with
      | Some _ => (upd_N s (Z.to_N h) None, BOkUnit)
      | None => (s, BErr)
      end
  | BSize h =>
      if (h <? 0)%Z then (s, BErr) else
      match get_buf s (Z.to_N h) with
      | Some d => (s, BOkInt (Z.of_nat (length d)))
      | None => (s, BErr)
      end
  | BResize h n =>
      if (h <? 0)%Z then (s, BErr) else
      if (n <=? 0)%Z then (s, BErr) else
      if MAX_ALLOC <? Z.to_N n then (s, BErr) else
      match get_buf s (Z.to_N h) with
      | Some d =>
          let k := Z.to_nat n in
          (set_buf s (Z.to_N h) (firstn k d ++ repeat 0 (k - length d)), BOkUnit)
      | None => (s, BErr)
      end
  | BRead w kind be h off =>
      if negb (reader_known w kind be) then (s, BErr) else
      if (h <? 0)%Z then (s, BErr) else if (off <? 0)%Z then (s, BErr) else
      match get_buf s (Z.to_N h) with
      | None => (s, BErr)
      | Some d =>
          if in_bounds w (Z.to_N off) (N.of_nat (length d)) then
            let u := dec be (slice d (Z.to_N off) w) in
            (s, if kind =? 2
                then BOkWord (v_float (if w =? 8 then u else f32_to_f64 u))     (* Value::float(f64::from_bits(..)) / (f32 as f64) *)
                else BOkWord (v_int (as_i64 w (kind =? 1) u)))              (* Value::int(v as i64) *)
          else (s, BErr)
      end
  | BWrite w sg be h off v =>
      match writer_range w sg be with
      | None => (s, BErr)
      | Some (lo, hi) =>
          if (h <? 0)%Z then (s, BErr) else if (off <? 0)%Z then (s, BErr) else
          if ((v <? lo) || (hi <? v))%Z then (s, BErr) else
          write_at s h off (enc (N.to_nat w) be (to_unsigned w v))
      end
  | BWriteF w be h off bits =>
      if negb (fwriter_known w be) then (s, BErr)
      else if w =? 8 then write_at s h off (enc 8 be bits)
      else write_at s h off (enc 4 be (f64_to_f32 bits))          (* f as f32 *)
  | BCopy sh so dh doff len =>
      if (sh <? 0)%Z then (s, BErr) else if (so <? 0)%Z then (s, BErr) else
      if (dh <? 0)%Z then (s, BErr) else if (doff <? 0)%Z then (s, BErr) else
      if (len <? 0)%Z then (s, BErr) else
      if (len =? 0)%Z then (s, BOkUnit) else                     (* before any handle is looked at *)
      match get_buf s (Z.to_N sh) with
      | None => (s, BErr)
      | Some src =>
          if negb (in_bounds (Z.to_N len) (Z.to_N so) (N.of_nat (length src))) then (s, BErr) else
          match get_buf s (Z.to_N dh) with
          | None => (s, BErr)
          | Some dst =>
              if negb (in_bounds (Z.to_N len) (Z.to_N doff) (N.of_nat (length dst))) then (s, BErr) else
              (* copy_within / to_vec + copy_from_slice: the source bytes are those BEFORE the copy *)
              (set_buf s (Z.to_N dh) (splice dst (Z.to_N doff) (slice src (Z.to_N so) (Z.to_N len))), BOkUnit)
          end
      end
  | BFill h off len v =>
      if (h <? 0)%Z then (s, BErr) else if (off <? 0)%Z then (s, BErr) else
      if (len <? 0)%Z then (s, BErr) else
      if ((v <? FILL_MIN) || (FILL_MAX <? v))%Z then (s, BErr) else
      if (len =? 0)%Z then (s, BOkUnit) else
      match get_buf s (Z.to_N h) with
      | None => (s, BErr)
      | Some d =>
          if in_bounds (Z.to_N len) (Z.to_N off) (N.of_nat (length d))
          then (set_buf s (Z.to_N h) (splice d (Z.to_N off) (repeat (Z.to_N v) (Z.to_nat len))), BOkUnit)
          else (s, BErr)
      end
  | BClone h =>
      if (h <? 0)%Z then (s, BErr) else
      match get_buf s (Z.to_N h) with
      | None => (s, BErr)
      | Some d => let '(s', k) := store_resource s d in (s', BOkInt (Z.of_N k))
      end
  | BEquals h1 h2 =>
      if (h1 <? 0)%Z then (s, BErr) else if (h2 <? 0)%Z then (s, BErr) else
      match get_buf s (Z.to_N h1), get_buf s (Z.to_N h2) with
      | Some d1, Some d2 => (s, BOkWord (v_bool (list_eqb N.eqb d1 d2)))
      | _, _ => (s, BErr)
      end
  | BFromString bs =>
      if MAX_ALLOC <? N.of_nat (length bs) then (s, BErr) else
      let '(s', k) := store_resource s bs in (s', BOkInt (Z.of_N k))       (* an empty string gives an empty buffer *)
  | BDecode h off len =>
      if (h <? 0)%Z then (s, BErr) else if (off <? 0)%Z then (s, BErr) else
      if (len <? 0)%Z then (s, BErr) else
      match get_buf s (Z.to_N h) with
      | None => (s, BErr)
      | Some d =>
          if in_bounds (Z.to_N len) (Z.to_N off) (N.of_nat (length d)) then
            let bs := slice d (Z.to_N off) (Z.to_N len) in
            (s, if utf8_valid bs then BOkStr bs else BErr)
          else (s, BErr)
      end
  | BWriteString h off bs =>
      match write_at s h off bs with
      | (s', BOkUnit) => (s', BOkInt (Z.of_nat (length bs)))
      | (s', r) => (s', r)
      end
  | BFind h start stop needle =>
      if (h <? 0)%Z then (s, BErr) else if (start <? 0)%Z then (s, BErr) else
      if ((needle <? 0) || (255 <? needle))%Z then (s, BErr) else
      match get_buf s (Z.to_N h) with
      | None => (s, BErr)
      | Some d =>
          let len := N.of_nat (length d) in
          let e := if (stop <? 0)%Z then len else N.min (Z.to_N stop) len in
          if e <=? Z.to_N start then (s, BOkInt (-1)) else
          (s, match find_from (Z.to_N needle) (slice d (Z.to_N start) (e - Z.to_N start)) (Z.to_N start) with
              | Some i => BOkInt (Z.of_N i)
              | None => BOkInt (-1)
              end)
      end
  | BReverse h off len =>
      if (h <? 0)%Z then (s, BErr) else if (off <? 0)%Z then (s, BErr) else
      if (len <? 0)%Z then (s, BErr) else
      if (len =? 0)%Z then (s, BOkUnit) else
      match get_buf s (Z.to_N h) with
      | None => (s, BErr)
      | Some d =>
          if in_bounds (Z.to_N len) (Z.to_N off) (N.of_nat (length d))
          then (set_buf s (Z.to_N h) (splice d (Z.to_N off) (rev (slice d (Z.to_N off) (Z.to_N len)))), BOkUnit)
          else (s, BErr)
      end
  | BSwap h i j =>
      if (h <? 0)%Z then (s, BErr) else if (i <? 0)%Z then (s, BErr) else if (j <? 0)%Z then (s, BErr) else
      match get_buf s (Z.to_N h) with
      | None => (s, BErr)
      | Some d =>
          match nth_N d (Z.to_N i), nth_N d (Z.to_N j) with
          | Some x, Some y => (set_buf s (Z.to_N h) (upd_N (upd_N d (Z.to_N i) y) (Z.to_N j) x), BOkUnit)
          | _, _ => (s, BErr)
          end
      end
  | BReadFile content n =>
      (* the open file occupies the first free slot while the buffer is stored, and is closed again *)
      let '(s1, k) := store_resource s [] in
      let '(s2, h) := store_resource s1 (firstn (Z.to_nat n) content) in       (* a short read keeps what was read *)
      (upd_N s2 k None, BOkInt (Z.of_N h))
  | BFsClose _ => (s, BErr)                       (* and must leave the byte buffer (if any) alone *)
  | BNetClose h => (s, if (h <? 0)%Z then BErr else BOkUnit)
  | BNonInt => (s, BErr)
  end.

(* ------------------------------------------------------------------------------------------
   Specification: a finite map  handle -> byte array  of the live buffers (the [smap] of
   Model/ManualHeap.v with bytes as values) with the obvious semantics.  [hint] is the
   implementation's answer; only the operations that create a buffer use it, to learn which fresh
   handle was chosen (any handle that is not live is acceptable; a live one is answered BBad). *)
Definition sp_new (m : smap) (d : buf) (hint : bres) : smap * bres :=
  match hint with
  | BOkInt z =>
      if (z <? 0)%Z then (m, BBad) else
      match sm_get m (Z.to_N z) with
      | None => ((Z.to_N z, d) :: m, BOkInt z)
      | Some _ => (m, BBad)
      end
  | _ => (m, BBad)
  end.

Definition sp_write_at (m : smap) (h off : Z) (bs : list byte) : smap * bres :=
  if (h <? 0)%Z then (m, BErr) else if (off <? 0)%Z then (m, BErr) else
  match sm_get m (Z.to_N h) with
  | None => (m, BErr)
  | Some d =>
      if in_bounds (N.of_nat (length bs)) (Z.to_N off) (N.of_nat (length d))
      then (sm_set m (Z.to_N h) (splice d (Z.to_N off) bs), BOkUnit)
      else (m, BErr)
  end.

Definition bspec_step (m : smap) (o : bop) (hint : bres) : smap * bres :=
  match o with
  | BAlloc n =>
      if (n <=? 0)%Z then (m, BErr) else
      if MAX_ALLOC <? Z.to_N n then (m, BErr) else sp_new m (repeat 0 (Z.to_nat n)) hint
  | BFree ANull => (m, BOkUnit)
  | BFree AOther => (m, BErr)
  | BFree (AInt h) =>
      if (h <? 0)%Z then (m, BErr) else
      match sm_get m (Z.to_N h) with
      | Some _ => (sm_remove m (Z.to_N h), BOkUnit)
      | None => (m, BErr)                                   (* freed twice, or never issued *)
      end
  | BSize h =>
      if (h <? 0)%Z then (m, BErr) else
      match sm_get m (Z.to_N h) with
      | Some d => (m, BOkInt (Z.of_nat (length d)))
      | None => (m, BErr)
      end
  | BResize h n =>
      if (h <? 0)%Z then (m, BErr) else
      if (n <=? 0)%Z then (m, BErr) else
      if MAX_ALLOC <? Z.to_N n then (m, BErr) else
      match sm_get m (Z.to_N h) with
      | Some d =>
          let k := Z.to_nat n in
          (sm_set m (Z.to_N h) (firstn k d ++ repeat 0 (k - length d)), BOkUnit)
      | None => (m, BErr)
      end
  | BRead w kind be h off =>
      if negb (reader_known w kind be) then (m, BErr) else
      if (h <? 0)%Z then (m, BErr) else if (off <? 0)%Z then (m, BErr) else
      match sm_get m (Z.to_N h) with
      | None => (m, BErr)
      | Some d =>
          if in_bounds w (Z.to_N off) (N.of_nat (length d)) then
            let u := dec be (slice d (Z.to_N off) w) in
            (m, if kind =? 2
                then BOkWord (v_float (if w =? 8 then u else f32_to_f64 u))
                else BOkWord (v_int (as_i64 w (kind =? 1) u)))
          else (m, BErr)
      end
  | BWrite w sg be h off v =>
      match writer_range w sg be with
      | None => (m, BErr)
      | Some (lo, hi) =>
          if (h <? 0)%Z then (m, BErr) else if (off <? 0)%Z then (m, BErr) else
          if ((v <? lo) || (hi <? v))%Z then (m, BErr) else
          sp_write_at m h off (enc (N.to_nat w) be (to_unsigned w v))
      end
  | BWriteF w be h off bits =>
      if negb (fwriter_known w be) then (m, BErr)
      else if w =? 8 then sp_write_at m h off (enc 8 be bits)
      else sp_write_at m h off (enc 4 be (f64_to_f32 bits))
  | BCopy sh so dh doff len =>
      if (sh <? 0)%Z then (m, BErr) else if (so <? 0)%Z then (m, BErr) else
      if (dh <? 0)%Z then (m, BErr) else if (doff <? 0)%Z then (m, BErr) else
      if (len <? 0)%Z then (m, BErr) else
      if (len =? 0)%Z then (m, BOkUnit) else
      match sm_get m (Z.to_N sh) with
      | None => (m, BErr)
      | Some src =>
          if negb (in_bounds (Z.to_N len) (Z.to_N so) (N.of_nat (length src))) then (m, BErr) else
          match sm_get m (Z.to_N dh) with
          | None => (m, BErr)
          | Some dst =>
              if negb (in_bounds (Z.to_N len) (Z.to_N doff) (N.of_nat (length dst))) then (m, BErr) else
              (sm_set m (Z.to_N dh) (splice dst (Z.to_N doff) (slice src (Z.to_N so) (Z.to_N len))), BOkUnit)
          end
      end
  | BFill h off len v =>
      if (h <? 0)%Z then (m, BErr) else if (off <? 0)%Z then (m, BErr) else
      if (len <? 0)%Z then (m, BErr) else
      if ((v <? FILL_MIN) || (FILL_MAX <? v))%Z then (m, BErr) else
      if (len =? 0)%Z then (m, BOkUnit) else
      match sm_get m (Z.to_N h) with
      | None => (m, BErr)
      | Some d =>
          if in_bounds (Z.to_N len) (Z.to_N off) (N.of_nat (length d))
          then (sm_set m (Z.to_N h) (splice d (Z.to_N off) (repeat (Z.to_N v) (Z.to_nat len))), BOkUnit)
          else (m, BErr)
      end
  | BClone h =>
      if (h <? 0)%Z then (m, BErr) else
      match sm_get m (Z.to_N h) with
      | None => (m, BErr)
      | Some d => sp_new m d hint
      end
  | BEquals h1 h2 =>
      if (h1 <? 0)%Z then (m, BErr) else if (h2 <? 0)%Z then (m, BErr) else
      match sm_get m (Z.to_N h1), sm_get m (Z.to_N h2) with
      | Some d1, Some d2 => (m, BOkWord (v_bool (list_eqb N.eqb d1 d2)))
      | _, _ => (m, BErr)
      end
  | BFromString bs =>
      if MAX_ALLOC <? N.of_nat (length bs) then (m, BErr) else sp_new m bs hint
  | BDecode h off len =>
      if (h <? 0)%Z then (m, BErr) else if (off <? 0)%Z then (m, BErr) else
      if (len <? 0)%Z then (m, BErr) else
      match sm_get m (Z.to_N h) with
      | None => (m, BErr)
      | Some d =>
          if in_bounds (Z.to_N len) (Z.to_N off) (N.of_nat (length d)) then
            let bs := slice d (Z.to_N off) (Z.to_N len) in
            (m, if utf8_valid bs then BOkStr bs else BErr)
          else (m, BErr)
      end
  | BWriteString h off bs =>
      match sp_write_at m h off bs with
      | (m', BOkUnit) => (m', BOkInt (Z.of_nat (length bs)))
      | (m', r) => (m', r)
      end
  | BFind h start stop needle =>
      if (h <? 0)%Z then (m, BErr) else if (start <? 0)%Z then (m, BErr) else
      if ((needle <? 0) || (255 <? needle))%Z then (m, BErr) else
      match sm_get m (Z.to_N h) with
      | None => (m, BErr)
      | Some d =>
          let len := N.of_nat (length d) in
          let e := if (stop <? 0)%Z then len else N.min (Z.to_N stop) len in
          if e <=? Z.to_N start then (m, BOkInt (-1)) else
          (m, match find_from (Z.to_N needle) (slice d (Z.to_N start) (e - Z.to_N start)) (Z.to_N start) with
              | Some i => BOkInt (Z.of_N i)
              | None => BOkInt (-1)
              end)
      end
  | BReverse h off len =>
      if (h <? 0)%Z then (m, BErr) else if (off <? 0)%Z then (m, BErr) else
      if (len <? 0)%Z then (m, BErr) else
      if (len =? 0)%Z then (m, BOkUnit) else
      match sm_get m (Z.to_N h) with
      | None => (m, BErr)
      | Some d =>
          if in_bounds (Z.to_N len) (Z.to_N off) (N.of_nat (length d))
          then (sm_set m (Z.to_N h) (splice d (Z.to_N off) (rev (slice d (Z.to_N off) (Z.to_N len)))), BOkUnit)
          else (m, BErr)
      end
  | BSwap h i j =>
      if (h <? 0)%Z then (m, BErr) else if (i <? 0)%Z then (m, BErr) else if (j <? 0)%Z then (m, BErr) else
      match sm_get m (Z.to_N h) with
      | None => (m, BErr)
      | Some d =>
          match nth_N d (Z.to_N i), nth_N d (Z.to_N j) with
          | Some x, Some y => (sm_set m (Z.to_N h) (upd_N (upd_N d (Z.to_N i) y) (Z.to_N j) x), BOkUnit)
          | _, _ => (m, BErr)
          end
      end
  | BReadFile content n => sp_new m (firstn (Z.to_nat n) content) hint
  | BFsClose _ => (m, BErr)
  | BNetClose h => (m, if (h <? 0)%Z then BErr else BOkUnit)
  | BNonInt => (m, BErr)
  end.

Fixpoint bspec_run (m : smap) (os : list bop) (hints : list bres) : smap * list bres :=
  match os, hints with
  | o :: r, x :: xs =>
      let '(m1, y) := bspec_step m o x in let '(m2, ys) := bspec_run m1 r xs in (m2, y :: ys)
  | _, _ => (m, [])
  end.

Fixpoint b_run (s : bstate) (os : list bop) : bstate * list bres :=
  match os with
  | [] => (s, [])
  | o :: r => let '(s1, x) := b_step s o in let '(s2, xs) := b_run s1 r in (s2, x :: xs)
  end.
Definition b_exec (s : bstate) (os : list bop) : bstate := fold_left (fun st o => fst (b_step st o)) os s.

(* Since /repo 0d876af every live byte buffer is charged, byte for byte, to the counter that
   ManualHeap::bytes_allocated() reports and the heap limit is checked against (VM::charge_byte_buffer /
   release_byte_buffer around alloc, clone, from_string, resize, free).  The model keeps the counter in
   two parts: [bytes] of the manual heap (8 per live slot) and this derived external part. *)
Fixpoint btotal (s : bstate) : N :=
  match s with
  | [] => 0
  | Some d :: r => N.of_nat (length d) + btotal r
  | None :: r => btotal r
  end.

(* the handles an operation may modify / read *)
Definition bop_writes (o : bop) : option Z :=
  match o with
  | BFree (AInt h) | BResize h _ | BWrite _ _ _ h _ _ | BWriteF _ _ h _ _ | BFill h _ _ _ => Some h
  | BCopy _ _ dh _ _ => Some dh
  | BWriteString h _ _ | BReverse h _ _ | BSwap h _ _ => Some h
  | _ => None
  end.

(* ------------------------------------------------------------------------------------------
   The whole manual-memory state of a VM: the manual heap and the byte buffers, with one
   operation alphabet, and its specification (two finite maps of arrays). *)
Inductive memop := OpM (o : mop) | OpB (o : bop).
Inductive memres := ResM (r : mres) | ResB (r : bres).
Definition memstate := (mheap * bstate)%type.
Definition memspec := (spec * smap)%type.
Definition mem_empty : memstate := (mh_empty, bs_empty).
Definition memspec_empty : memspec := (sp_empty, []).

Definition mem_step (st : memstate) (o : memop) : memstate * memres :=
  match o with
  | OpM o => let '(s', r) := mh_step (fst st) o in ((s', snd st), ResM r)
  | OpB o => let '(b', r) := b_step (snd st) o in ((fst st, b'), ResB r)
  end.

Definition memspec_step (sp : memspec) (o : memop) (hint : memres) : memspec * memres :=
  match o, hint with
  | OpM o, ResM h => let '(sp', r) := spec_step (fst sp) o h in ((sp', snd sp), ResM r)
  | OpB o, ResB h => let '(m', r) := bspec_step (snd sp) o h in ((fst sp, m'), ResB r)
  | _, _ => (sp, ResB BBad)
  end.

(* what VM::manual_heap().bytes_allocated() reports for the whole state *)
Definition mem_charged (st : memstate) : N := bytes (fst st) + btotal (snd st).

Fixpoint mem_run (st : memstate) (os : list memop) : memstate * list memres :=
  match os with
  | [] => (st, [])
  | o :: r => let '(s1, x) := mem_step st o in let '(s2, xs) := mem_run s1 r in (s2, x :: xs)
  end.
Definition mem_exec (st : memstate) (os : list memop) : memstate := fold_left (fun s o => fst (mem_step s o)) os st.

Fixpoint memspec_run (sp : memspec) (os : list memop) (hints : list memres) : memspec * list memres :=
  match os, hints with
  | o :: r, x :: xs =>
      let '(sp1, y) := memspec_step sp o x in let '(sp2, ys) := memspec_run sp1 r xs in (sp2, y :: ys)
  | _, _ => (sp, [])
  end.
