(* C10 -- from command-line flags to the limit that is in force: parse_vm_args [runtime/src/vm/args/parse.rs].
   Definitions only; proofs in Proofs/HeapArgsProofs.v.

   As read from the code: the configuration starts as VmConfig::default() (max_heap_bytes = DEFAULT_MAX_HEAP_BYTES); the arguments
   are processed left to right; `-ae.KEY=V` and `--ae-KEY=V` are the same flag; max-heap parses a size (decimal, optional K/M/G,
   >= MIN_HEAP_BYTES, no overflow) and writes max_heap_bytes; allow-fs / allow-net / allow-exec write one capability; trusted=true
   is remembered; --dev writes allow_hot_reload; --allow-caps= / --deny-caps= add names to the two lists and switch the named
   capabilities; anything else is a program argument.  An invalid flag ends the parse with an error.  After the loop trusted mode
   switches every capability on and clears the lists IN PLACE; then validate() (max_heap_bytes >= MIN_HEAP_BYTES). *)
From Coq Require Import NArith Bool List.
From Aelys Require Import Base.CaseCheck Extracted.HeapConsts.
Import ListNotations.
Local Open Scope N_scope.

Record cfg := mkCfg { c_max : N; c_fs : bool; c_net : bool; c_exec : bool; c_hot : bool; c_allowed : N; c_denied : N }.
(* caps lists are abstracted to their sizes; a caps flag names a subset of {fs, net, exec} (three booleans) and k names *)
Inductive flag :=
  | FMaxHeap (bytes : option N)            (* None: the size does not parse / is below the minimum / overflows -> error *)
  | FAllowFs (b : bool) | FAllowNet (b : bool) | FAllowExec (b : bool) | FTrusted (b : bool)
  | FDev | FAllowCaps (fs net exec : bool) (k : N) | FDenyCaps (fs net exec : bool) (k : N)
  | FBad                                    (* unknown -ae. key, missing `=`, bad boolean *)
  | FProgram.                               (* not a VM flag: handed to the program *)

Definition cfg_default : cfg := mkCfg DEFAULT_MAX_HEAP_BYTES false false false false 0 0.
Definition set_caps (c : cfg) (fs net exec v : bool) : cfg :=
  mkCfg (c_max c) (if fs then v else c_fs c) (if net then v else c_net c) (if exec then v else c_exec c) (c_hot c) (c_allowed c) (c_denied c).
(* one argument: None = the parse fails *)
Definition apply_flag (st : cfg * bool) (f : flag) : option (cfg * bool) :=
  let '(c, tr) := st in
  match f with
  | FMaxHeap (Some b) => if b <? MIN_HEAP_BYTES then None else Some (mkCfg b (c_fs c) (c_net c) (c_exec c) (c_hot c) (c_allowed c) (c_denied c), tr)
  | FMaxHeap None => None
  | FAllowFs v => Some (set_caps c true false false v, tr)
  | FAllowNet v => Some (set_caps c false true false v, tr)
  | FAllowExec v => Some (set_caps c false false true v, tr)
  | FTrusted v => Some (c, tr || v)
  | FDev => Some (mkCfg (c_max c) (c_fs c) (c_net c) (c_exec c) true (c_allowed c) (c_denied c), tr)
  | FAllowCaps fs net exec k => let c1 := set_caps c fs net exec true in
      Some (mkCfg (c_max c1) (c_fs c1) (c_net c1) (c_exec c1) (c_hot c1) (c_allowed c1 + k) (c_denied c1), tr)
  | FDenyCaps fs net exec k => let c1 := set_caps c fs net exec false in
      Some (mkCfg (c_max c1) (c_fs c1) (c_net c1) (c_exec c1) (c_hot c1) (c_allowed c1) (c_denied c1 + k), tr)
  | FBad => None
  | FProgram => Some st
  end.
Fixpoint apply_flags (st : cfg * bool) (l : list flag) : option (cfg * bool) :=
  match l with
  | [] => Some st
  | f :: r => match apply_flag st f with Some st' => apply_flags st' r | None => None end
  end.
(* trusted mode, in place: capabilities on, lists cleared -- nothing else *)
Definition finalize (st : cfg * bool) : cfg :=
  let '(c, tr) := st in if tr then mkCfg (c_max c) true true true (c_hot c) 0 0 else c.
Definition parse_args (l : list flag) : option cfg :=
  match apply_flags (cfg_default, false) l with
  | Some st => let c := finalize st in if c_max c <? MIN_HEAP_BYTES then None else Some c
  | None => None
  end.

(* the limit the flags configure: the last max-heap flag, the default without one *)
Fixpoint last_max (l : list flag) (acc : N) : N :=
  match l with
  | [] => acc
  | FMaxHeap (Some b) :: r => last_max r b
  | _ :: r => last_max r acc
  end.

(* observation for the tie: [ok; max; fs; net; exec; hot] *)
Definition b2n (b : bool) : N := if b then 1 else 0.
Definition args_obs (l : list flag) : list N :=
  match parse_args l with
  | Some c => [1; c_max c; b2n (c_fs c); b2n (c_net c); b2n (c_exec c); b2n (c_hot c)]
  | None => [0; 0; 0; 0; 0; 0]
  end.
Definition args_eqb (m o : list N) : bool := list_eqb N.eqb m o.
