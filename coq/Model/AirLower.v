(* C17 -- model of the CFG construction of air/src/lower.rs on statement / expression skeletons.

   Only what decides the block structure is kept:
     - which constructs allocate block ids, in which order (alloc_block_id),
     - when a block is sealed and with which id (seal_block: pending id if any, else a fresh one),
     - fixup_block_id (rename the LAST sealed block, record an alias old -> new),
     - fixup_block_id_noop (set pending_block_id, silently dropping a previous pending id),
     - last_block_is_terminated (no pending statements and last terminator is not a Goto),
     - finalize_function_body (seal a Return only if statements are pending or no block exists),
     - resolve_block_aliases (first matching alias, at most |aliases| steps),
     - whether current_stmts is empty (the [dirty] flag), which needs the emission behaviour of
       every expression form and the flat, never-popped name table (lookup_local),
     - lower_function saving / restoring everything except loop_stack.
   The code is modelled as it is, including the behaviours that break the property. *)
From Coq Require Import NArith Bool List.
From Aelys Require Import Extracted.LowerFlags.
Import ListNotations.
Local Open Scope N_scope.

Inductive term := TRet | TGoto (t : N) | TBr (a b : N).
Definition block := (N * term)%type.

(* ---- skeletons (explicit mutual lists so that the recursion is structural) *)
(* what an operator-like expression does after its sub-expressions (needed by the locals model;
   the CFG builder only needs to know whether a statement is emitted) *)
Inductive opk :=
| KPass                 (* nothing: returns its last operand / a constant (format string with <= 1 part) *)
| KTmp                  (* one temporary, one statement: binary, unary, member, cast, index, literals, named call ... *)
| KVoid                 (* a statement without result temporary: index assignment, discarded call of type null *)
| KAssign (x : N)       (* assignment to name x: a local (no temporary) or a global (call) *)
| KConcat (n : N)       (* format string with n+1 operands: n temporaries, n statements *)
| KCall (void : bool).  (* call through a function value: the last sub-expression is the callee *)
Definition emits_of (k : opk) : bool := match k with KPass => false | _ => true end.

Inductive sexpr :=
| EAtom                                   (* literal: no statement, no block *)
| EIdent (x : N)                          (* local => nothing, otherwise one emitted global get *)
| EOp (k : opk) (args : sexprs)           (* sub-expressions left to right, then what [k] says *)
| EShort (is_and : bool) (l r : sexpr)    (* and / or *)
| EIfE (c t e : sexpr)                    (* if-expression *)
| ELam (caps params : list N) (body : sstmts)
with sexprs := ENil | ECons (e : sexpr) (r : sexprs)
with sstmt :=
| SExpr (e : sexpr)
| SLet (x : N) (e : sexpr)
| SBlock (b : sstmts)
| SIf (c : sexpr) (t : sstmt)
| SIfElse (c : sexpr) (t e : sstmt)
| SWhile (c : sexpr) (b : sstmt)
| SFor (x : N) (lo hi step : sexpr) (b : sstmt)
| SForEach (x : N) (it : sexpr) (b : sstmt)
| SRet
| SRetE (e : sexpr)
| SBreak
| SContinue
| SFn (caps params : list N) (body : sstmts)
| SNop                                    (* needs / struct declaration *)
with sstmts := SNil | SCons (s : sstmt) (r : sstmts).

(* ---- one lowered function *)
Record fn_out := mkfn { f_blocks : list block }.   (* in Vec order *)

Record st := mk {
  next : N;                       (* next_block_id *)
  blocks : list block;            (* current_blocks, NEWEST FIRST *)
  dirty : bool;                   (* !current_stmts.is_empty() *)
  pending : option N;             (* pending_block_id *)
  aliases : list (N * N);         (* block_aliases in push order *)
  loops : list (N * N);           (* loop_stack, innermost first: (header, exit) *)
  names : list N;                 (* locals_by_name (membership is all that matters) *)
  out : list fn_out }.            (* functions pushed so far, in push order *)

Definition init : st := mk 0 [] false None [] [] [] [].

Definition alloc (s : st) : N * st :=
  (next s, mk (next s + 1) (blocks s) (dirty s) (pending s) (aliases s) (loops s) (names s) (out s)).

Definition seal (t : term) (s : st) : st :=
  match pending s with
  | Some p => mk (next s) ((p, t) :: blocks s) false None (aliases s) (loops s) (names s) (out s)
  | None => mk (next s + 1) ((next s, t) :: blocks s) false None (aliases s) (loops s) (names s) (out s)
  end.

Definition emit (s : st) : st :=
  mk (next s) (blocks s) true (pending s) (aliases s) (loops s) (names s) (out s).

Definition fixup (target : N) (s : st) : st :=
  match blocks s with
  | (old, t) :: r =>
      mk (next s) ((target, t) :: r) (dirty s) (pending s)
         (if old =? target then aliases s else aliases s ++ [(old, target)])
         (loops s) (names s) (out s)
  | [] => s
  end.

(* fixup_block_id_noop: a different id that is still pending is first materialised as an empty
   block falling through to the new target (fix eb19006+5d902b4 era: it used to be overwritten) *)
Definition noop_raw (target : N) (s : st) : st :=
  mk (next s) (blocks s) (dirty s) (Some target) (aliases s) (loops s) (names s) (out s).
Definition noop (target : N) (s : st) : st :=
  noop_raw target
    (match pending s with
     | Some p => if p =? target then s else seal (TGoto target) s
     | None => s
     end).

Definition terminated (s : st) : bool :=
  negb (dirty s) &&
  match blocks s with
  | (_, TGoto _) :: _ => false
  | _ :: _ => true
  | [] => false
  end.

Definition seal_unless_terminated (t : term) (s : st) : st :=
  if terminated s then s else seal t s.

Definition add_name (x : N) (s : st) : st :=
  mk (next s) (blocks s) (dirty s) (pending s) (aliases s) (loops s) (x :: names s) (out s).

Definition memN (x : N) (l : list N) : bool := existsb (N.eqb x) l.

(* locals_by_name.truncate(len): keep the [n] OLDEST entries (the list is newest first) *)
Definition keep_oldest {A} (n : nat) (l : list A) : list A := skipn (length l - n) l.
Definition restore_names (n : nat) (s : st) : st :=
  mk (next s) (blocks s) (dirty s) (pending s) (aliases s) (loops s) (keep_oldest n (names s)) (out s).
(* end of a block statement / of a for or for-each loop: the names declared inside go out of scope
   (whether the code does that is read from the source: Extracted.LowerFlags) *)
Definition scope_block (n : nat) (s : st) : st := if BLOCK_SCOPES_NAMES then restore_names n s else s.
Definition scope_loop (n : nat) (s : st) : st := if LOOP_SCOPES_NAMES then restore_names n s else s.

Definition push_loop (h e : N) (s : st) : st :=
  mk (next s) (blocks s) (dirty s) (pending s) (aliases s) ((h, e) :: loops s) (names s) (out s).
Definition pop_loop (s : st) : st :=
  mk (next s) (blocks s) (dirty s) (pending s) (aliases s) (tl (loops s)) (names s) (out s).

(* resolve_block_aliases *)
Fixpoint resolve_n (fuel : nat) (al : list (N * N)) (cur : N) : N :=
  match fuel with
  | O => cur
  | S k => match find (fun p => fst p =? cur) al with
           | Some (_, to) => resolve_n k al to
           | None => cur
           end
  end.
Definition resolve (al : list (N * N)) (id : N) : N := resolve_n (length al) al id.
Definition resolve_term (al : list (N * N)) (t : term) : term :=
  match t with
  | TRet => TRet
  | TGoto a => TGoto (resolve al a)
  | TBr a b => TBr (resolve al a) (resolve al b)
  end.

Definition finalize (s : st) : st :=
  if (negb (dirty s) && match blocks s with [] => true | _ => false end) || dirty s
     || match pending s with Some _ => true | None => false end
  then seal TRet s else s.

(* lower_function: everything (but the output) is saved, reset, restored *)
Definition fn_enter (caps params : list N) (s : st) : st :=
  mk 0 [] (match caps with [] => false | _ => true end) None [] []
     (rev params ++ rev caps) (out s).

Definition fn_exit (saved body_end : st) : st :=
  let f := finalize body_end in
  let bl := map (fun b => (fst b, resolve_term (aliases f) (snd b))) (rev (blocks f)) in
  mk (next saved) (blocks saved) (dirty saved) (pending saved) (aliases saved) (loops saved)
     (names saved) (out f ++ [mkfn bl]).

Fixpoint lower_expr (e : sexpr) (s : st) : st :=
  match e with
  | EAtom => s
  | EIdent x => if memN x (names s) then s else emit s
  | EOp k args => let s1 := lower_exprs args s in if emits_of k then emit s1 else s1
  | EShort is_and l r =>
      let s1 := emit (lower_expr l s) in
      let '(er, s2) := alloc s1 in
      let '(mg, s3) := alloc s2 in
      let s4 := seal (if is_and then TBr er mg else TBr mg er) s3 in
      let s5 := emit (lower_expr r s4) in
      noop mg (fixup er (seal (TGoto mg) s5))
  | EIfE c t e =>
      let s1 := lower_expr c s in
      let '(th, s2) := alloc s1 in
      let '(el, s3) := alloc s2 in
      let '(mg, s4) := alloc s3 in
      let s5 := seal (TBr th el) s4 in
      let s6 := fixup th (seal (TGoto mg) (emit (lower_expr t s5))) in
      let s7 := fixup el (seal (TGoto mg) (emit (lower_expr e s6))) in
      noop mg s7
  | ELam caps params body =>
      emit (fn_exit s (lower_stmts body (fn_enter caps params s)))
  end
with lower_exprs (es : sexprs) (s : st) : st :=
  match es with
  | ENil => s
  | ECons e r => lower_exprs r (lower_expr e s)
  end
with lower_stmt (x : sstmt) (s : st) : st :=
  match x with
  | SExpr e => lower_expr e s
  | SLet n e => emit (lower_expr e (add_name n s))
  | SBlock b => scope_block (length (names s)) (lower_stmts b s)
  | SIf c t =>
      let s1 := lower_expr c s in
      let '(th, s2) := alloc s1 in
      let '(el, s3) := alloc s2 in
      let '(mg, s4) := alloc s3 in
      let s5 := seal (TBr th mg) s4 in
      let s6 := fixup th (seal_unless_terminated (TGoto mg) (lower_stmt t s5)) in
      noop mg s6
  | SIfElse c t e =>
      let s1 := lower_expr c s in
      let '(th, s2) := alloc s1 in
      let '(el, s3) := alloc s2 in
      let '(mg, s4) := alloc s3 in
      let s5 := seal (TBr th el) s4 in
      let s6 := fixup th (seal_unless_terminated (TGoto mg) (lower_stmt t s5)) in
      let s7 := fixup el (seal_unless_terminated (TGoto mg) (lower_stmt e s6)) in
      noop mg s7
  | SWhile c b =>
      let '(hd, s1) := alloc s in
      let '(bd, s2) := alloc s1 in
      let '(ex, s3) := alloc s2 in
      let s4 := seal (TGoto hd) s3 in
      let s5 := fixup hd (seal (TBr bd ex) (lower_expr c s4)) in
      let s6 := lower_stmt b (push_loop hd ex s5) in
      let s7 := pop_loop (fixup bd (seal_unless_terminated (TGoto hd) s6)) in
      noop ex s7
  | SFor n lo hi step b =>
      let s1 := emit (lower_expr lo (add_name n s)) in
      let s2 := emit (lower_expr hi s1) in
      let '(hd, s3) := alloc s2 in
      let '(bd, s4) := alloc s3 in
      let '(inc, s5) := alloc s4 in
      let '(ex, s6) := alloc s5 in
      let s7 := seal (TGoto hd) s6 in
      let s8 := fixup hd (seal (TBr bd ex) (emit s7)) in
      let s9 := lower_stmt b (push_loop inc ex s8) in
      let s10 := pop_loop (fixup bd (seal_unless_terminated (TGoto inc) s9)) in
      let s11 := emit (lower_expr step s10) in
      scope_loop (length (names s)) (noop ex (fixup inc (seal (TGoto hd) s11)))
  | SForEach n it b =>
      let s1 := add_name n (emit (lower_expr it s)) in
      let '(hd, s3) := alloc s1 in
      let '(bd, s4) := alloc s3 in
      let '(inc, s5) := alloc s4 in
      let '(ex, s6) := alloc s5 in
      let s7 := seal (TGoto hd) s6 in
      let s8 := emit (fixup hd (seal (TBr bd ex) (emit s7))) in
      let s9 := lower_stmt b (push_loop inc ex s8) in
      let s10 := pop_loop (fixup bd (seal_unless_terminated (TGoto inc) s9)) in
      scope_loop (length (names s)) (noop ex (fixup inc (seal (TGoto hd) (emit s10))))
  | SRet => seal TRet s
  | SRetE e => seal TRet (lower_expr e s)
  | SBreak => match loops s with (_, ex) :: _ => seal (TGoto ex) s | [] => s end
  | SContinue => match loops s with (hd, _) :: _ => seal (TGoto hd) s | [] => s end
  | SFn caps params body => fn_exit s (lower_stmts body (fn_enter caps params s))
  | SNop => s
  end
with lower_stmts (b : sstmts) (s : st) : st :=
  match b with
  | SNil => s
  | SCons x r => lower_stmts r (lower_stmt x s)
  end.

(* lower_program: only top-level function statements reach the CFG builder *)
Fixpoint lower_top (p : sstmts) (s : st) : st :=
  match p with
  | SNil => s
  | SCons (SFn caps params body) r => lower_top r (fn_exit s (lower_stmts body (fn_enter caps params s)))
  | SCons _ r => lower_top r s
  end.

Definition lower (p : sstmts) : list fn_out := out (lower_top p init).

(* ---- the structural clauses of the property that concern the CFG *)
Definition targets (t : term) : list N :=
  match t with TRet => [] | TGoto a => [a] | TBr a b => [a; b] end.

Fixpoint nodupb (l : list N) : bool :=
  match l with
  | [] => true
  | x :: r => negb (memN x r) && nodupb r
  end.

Definition has_entry (bl : list block) : bool := match bl with [] => false | _ => true end.
Definition unique_ids (bl : list block) : bool := nodupb (map fst bl).
Definition targets_exist (bl : list block) : bool :=
  forallb (fun b => forallb (fun t => memN t (map fst bl)) (targets (snd b))) bl.

Definition wf_cfg (bl : list block) : bool := has_entry bl && unique_ids bl && targets_exist bl.
Definition wf_fn (f : fn_out) : bool := wf_cfg (f_blocks f).
Definition wf_prog (fs : list fn_out) : bool := forallb wf_fn fs.

(* dangling targets of one function *)
Definition dangling (bl : list block) : list N :=
  filter (fun t => negb (memN t (map fst bl))) (flat_map (fun b => targets (snd b)) bl).

(* ---- canonical observation for the tie: ids renamed by first appearance
        (block id, then its targets, in Vec order) *)
Definition ren (m : list (N * N)) (x : N) : N * list (N * N) :=
  match find (fun p => fst p =? x) m with
  | Some (_, y) => (y, m)
  | None => let y := N.of_nat (length m) in (y, m ++ [(x, y)])
  end.

Fixpoint ren_list (m : list (N * N)) (l : list N) : list N * list (N * N) :=
  match l with
  | [] => ([], m)
  | x :: r => let '(y, m1) := ren m x in let '(ys, m2) := ren_list m1 r in (y :: ys, m2)
  end.

Definition kind (t : term) : N := match t with TRet => 0 | TGoto _ => 1 | TBr _ _ => 2 end.

Fixpoint obs_blocks (m : list (N * N)) (bl : list block) : list (list N) * list (N * N) :=
  match bl with
  | [] => ([], m)
  | (id, t) :: r =>
      let '(ys, m1) := ren_list m (id :: targets t) in
      let '(rest, m2) := obs_blocks m1 r in
      (match ys with y :: ts => (y :: kind t :: ts) | [] => [] end :: rest, m2)
  end.

Definition obs_fn (f : fn_out) : list (list N) := fst (obs_blocks [] (f_blocks f)).
Definition obs (p : sstmts) : list (list (list N)) := map obs_fn (lower p).

Definition nlist_eqb (a b : list N) : bool :=
  (fix go a b := match a, b with
                 | [], [] => true
                 | x :: a', y :: b' => (x =? y) && go a' b'
                 | _, _ => false
                 end) a b.
Fixpoint nlist2_eqb (a b : list (list N)) : bool :=
  match a, b with
  | [], [] => true
  | x :: a', y :: b' => nlist_eqb x y && nlist2_eqb a' b'
  | _, _ => false
  end.
Fixpoint nlist3_eqb (a b : list (list (list N))) : bool :=
  match a, b with
  | [], [] => true
  | x :: a', y :: b' => nlist2_eqb x y && nlist3_eqb a' b'
  | _, _ => false
  end.
