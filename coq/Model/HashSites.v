(* C16 -- every iteration over a HashMap / HashSet on the compile path (list regenerated from the
   Rust source by tools/extractors/c16.py::hash_sites) with the reason why its order cannot reach
   the bytecode file.  A site that is not in this table breaks `every_hash_iteration_is_classified`:
   it has to be read, classified here, and -- when its order can reach the output -- covered by the
   multi-process byte comparison with at least two entries in that table. *)
From Coq Require Import List String Bool.
Import ListNotations.
Local Open Scope string_scope.

Inductive order_class :=
| Indexed          (* every entry is written to the slot given by its stored index: layout_permutation_invariant *)
| KeyedMerge       (* insert-if-absent / insert of entries with distinct keys into another table: merge_if_absent_permutation_invariant *)
| SetBuild         (* only builds a set / map that is later used for lookups *)
| PerEntryUpdate   (* updates each entry on its own *)
| Sorted           (* collected and sorted before use *)
| Diagnostics      (* reaches messages / warnings / inline-blocking of functions that are never inlinable, not the bytecode *)
| NotBytecode      (* AIR or disassembly text: not on the path to the .avbc file *)
| NotHash.         (* at this site the name denotes a slice / Vec *)

Definition site := (string * string * string)%type.

Definition classified : list (site * list order_class) :=
  [ (("air/src/layout.rs", "detect_self_references", "structs#elem"), [NotBytecode]);
    (("air/src/layout.rs", "topological_order", "deps#elem"), [NotBytecode]);
    (("air/src/layout.rs", "topological_order", "structs#kv"), [NotBytecode]);
    (("air/src/mono.rs", "collect_mono_requests", "generic_functions#keys"), [NotBytecode]);
    (("air/src/mono.rs", "collect_requests_from_instances", "generic_functions#keys"), [NotBytecode]);
    (("backend/src/compiler/expr/identifier_helpers.rs", "find_similar_globals", "globals#elem"), [Diagnostics]);
    (("backend/src/compiler/expr/identifier_helpers.rs", "generate_undefined_variable_hint", "globals#elem"), [Diagnostics]);
    (("backend/src/compiler/expr/typed/lambda.rs", "compile_typed_lambda_impl", "global_indices#kv"), [KeyedMerge]);
    (("backend/src/compiler/expr/typed/lambda_stmts.rs", "compile_typed_lambda_with_stmts", "global_indices#kv"), [KeyedMerge]);
    (("backend/src/compiler/functions/typed_finalize.rs", "finalize_typed_function", "global_indices#kv"), [KeyedMerge]);
    (("backend/src/compiler/functions/untyped_finalize.rs", "build_untyped_global_layout", "global_indices#kv"), [Indexed]);
    (("backend/src/compiler/functions/untyped_finalize.rs", "finalize_untyped_function", "global_indices#kv"), [KeyedMerge]);
    (("backend/src/compiler/lambda/finalize.rs", "finalize_lambda", "global_indices#kv"), [Indexed; KeyedMerge]);
    (("backend/src/compiler/liveness/last_use.rs", "compute_last_use_points", "uses#elem"), [SetBuild]);
    (("backend/src/compiler/pipeline.rs", "build_global_layout", "global_indices#kv"), [Indexed]);
    (("bytecode/src/asm/disasm.rs", "collect_jump_targets", "targets#iter"), [Sorted; NotBytecode]);
    (("bytecode/src/heap/merge.rs", "merge", "intern_table#kv"), [KeyedMerge]);
    (("cli/src/cli/commands/compile.rs", "build_native_bundles", "modules#iter"), [Sorted]);
    (("driver/src/modules/loader/compile.rs", "compile_module", "exports#elem"), [SetBuild]);
    (("driver/src/modules/loader/exports.rs", "register_exports", "exports#elem"), [SetBuild]);
    (("driver/src/modules/loader/load.rs", "load_module", "exports#elem"), [SetBuild]);
    (("driver/src/modules/loader/stdlib_loaded.rs", "load_loaded_std_module", "exports#elem"), [SetBuild]);
    (("driver/src/modules/needs.rs", "load_modules_for_program", "exports#elem"), [SetBuild]);
    (("driver/src/modules/needs.rs", "load_modules_with_loader", "exports#elem"), [SetBuild]);
    (* ModuleImports::include_auto_registered (7e2e5a8): HashSet fields extended by the VM's HashSets (set union), and
       HashMap::entry(symbol).or_insert_with over the keys of a HashMap (distinct keys; an existing key wins whatever the order) *)
    (("driver/src/modules/loader/types.rs", "include_auto_registered", "repl_known_globals()#iter"), [SetBuild]);
    (("driver/src/modules/loader/types.rs", "include_auto_registered", "repl_module_aliases()#iter"), [SetBuild]);
    (("driver/src/modules/loader/types.rs", "include_auto_registered", "repl_known_native_globals()#iter"), [SetBuild]);
    (("driver/src/modules/loader/types.rs", "include_auto_registered", "repl_symbol_origins()#kv"), [KeyedMerge]);
    (("modules/src/native/loader.rs", "read_exports", "exports#elem"), [NotHash]);
    (("opt/src/passes/inline/analyze.rs", "analyze", "call_counts#kv"), [PerEntryUpdate]);
    (("opt/src/passes/inline/analyze.rs", "analyze", "functions#kv"), [PerEntryUpdate]);
    (("opt/src/passes/inline/analyze.rs", "find_cycles_dfs", "calls#elem"), [Diagnostics]);
    (("opt/src/passes/inline/analyze.rs", "find_mutual_recursion", "functions#elem"), [Diagnostics]);
    (("sema/src/env/closure.rs", "for_closure", "captures#kv"), [SetBuild]);
    (("sema/src/env/closure.rs", "for_closure", "scope#kv"), [SetBuild]);
    (("sema/src/env/free_vars.rs", "collect_vars", "captures#elem"), [SetBuild]);
    (("sema/src/env/free_vars.rs", "collect_vars", "scope#elem"), [SetBuild]);
    (("sema/src/infer/captures.rs", "collect_captures_from_stmts", "params#iter"), [NotHash]);
    (("sema/src/infer/entry.rs", "infer_program_full", "known_globals#elem"), [SetBuild]);
    (("sema/src/infer/entry.rs", "infer_program_full", "module_aliases#elem"), [SetBuild]);
    (("sema/src/unify/substitution.rs", "compose", "bindings#kv"), [SetBuild; KeyedMerge]) ].

(* a site is matched by file and table name; the enclosing function's name is kept for the reader only,
   so that renaming a private function is not an alarm.  What is counted: per (file, table) the translator
   must not find MORE iterations than are classified here. *)
Definition key_eqb (a b : string * string) : bool := String.eqb (fst a) (fst b) && String.eqb (snd a) (snd b).
Definition site_key (s : site) : string * string := match s with (f, _, n) => (f, n) end.
Definition count_key (k : string * string) (l : list (string * string)) : nat :=
  List.length (filter (key_eqb k) l).
Definition classified_keys : list (string * string) :=
  map (fun c => site_key (fst c)) (filter (fun c => negb (match snd c with [] => true | _ => false end)) classified).
Definition unclassified (sites : list site) : list (string * string) :=
  let ks := map site_key sites in
  filter (fun k => Nat.ltb (count_key k classified_keys) (count_key k ks)) ks.
