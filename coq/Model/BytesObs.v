(* Observation vectors for the std.bytes part of the C09 tie: per step [code; value; bytes_allocated() after the step]. *)
From Coq Require Import NArith ZArith Bool List.
From Aelys Require Import Extracted.ManualMem Model.ManualHeap Model.Bytes.
Import ListNotations.
Local Open Scope Z_scope.

Inductive bq := QBytes (os : list bop).

Definition bres_obs (r : bres) : list Z :=
  match r with
  | BOkInt z => [0; z]
  | BOkUnit => [1; 0]
  | BOkWord w => [2; Z.of_N w]
  | BOkStr bs => [3; Z.of_N (le_val bs + 256 ^ N.of_nat (length bs))]   (* bytes as a base-256 numeral with a leading 1 *)
  | BErr => [9; 0]
  | BBad => [99; 0]
  end.

Fixpoint b_obs (s : bstate) (os : list bop) : list Z :=
  match os with
  | [] => []
  | o :: r => let '(s1, x) := b_step s o in bres_obs x ++ Z.of_N (btotal s1) :: b_obs s1 r   (* result, then bytes_allocated() *)
  end.

Definition bobs (q : bq) : list Z := match q with QBytes os => b_obs bs_empty os end.
