(* C05 -- model of the global-call inline cache protocol, written against
     runtime/src/vm/dispatch/ops/call_global.inc        (opcode 77, CallGlobal)
     runtime/src/vm/dispatch/ops/call_global_mono.inc   (opcode 78, CallGlobalMono)
     runtime/src/vm/dispatch/ops/calls.inc              (opcode 104, CallGlobalNative)
     runtime/src/vm/globals/access.rs                   (set_global* clear call_site_cache)
     bytecode/src/asm/binary.rs:write_function          (78 -> 77, both cache words := 0)
     backend/src/compiler/{emit.rs,constructors.rs}     (slot ids, 104 emitted for known natives)
   Definitions only.  The model is of the code that exists (after the repairs ba4e0b3 and 539f843):
   every cache entry records the callee it was built from; the 78 fast path uses
   call_site_cache[slot] only when that owner is the callee cached at the site and the global still
   denotes it; a 104 site whose global no longer denotes the cached native rewrites itself to 77 and
   is dispatched again.  The flags MONO_FAST_PATH_VALIDATES / NATIVE_SITE_FOLLOWS_REBINDING come from
   the translator: when the source loses those checks the model follows and the proofs break.

   Abstractions: a global is identified by a name id (the per-function index layouts and
   their synchronisation are C14's model); heap objects are identified by their heap index;
   arities are not modelled (the tie only uses unary callables). *)
From Coq Require Import NArith List Bool.
From Aelys Require Import Extracted.CallCacheConsts.
Import ListNotations.
Local Open Scope N_scope.

(* ---- heap objects a global can denote ------------------------------------------------- *)
Inductive okind := KFn | KClo | KNat.
(* o_tag: what the body prints (for a closure: the captured value it prints);
   o_body: the call sites the body executes, in order *)
Record obj := mkObj { o_kind : okind; o_tag : N; o_body : list N }.

Inductive gval := GNull | GOther | GPtr (p : N).

(* ---- call sites ------------------------------------------------------------------------ *)
(* the opcode currently stored at the site plus its first cache word *)
Inductive form :=
| Plain               (* 77, cache word 1 = 0 *)
| Mono (p : N)        (* 78, cached callee heap index p *)
| Native (p : N).     (* 104, cached native heap index p; 0 = not populated *)

Definition opcode_of_form (f : form) : N :=
  match f with Plain => OP_CALL_GLOBAL | Mono _ => OP_CALL_GLOBAL_MONO | Native _ => OP_CALL_GLOBAL_NATIVE end.

(* s_live: the bytecode containing the site can still be executed; s_slot: the slot id in cache
   word 2 (meaningless while the site holds opcode 104) *)
Record site := mkSite { s_live : bool; s_form : form; s_slot : N; s_idx : N }.

(* CallSiteCacheEntry: code pointers of, and `owner` =, object e_code; is_closure *)
Record entry := mkEntry { e_code : N; e_clo : bool }.

Record state := mkState {
  globals : list (N * gval);          (* association list, newest first; absent = null *)
  heap : list (N * option obj);       (* association list, newest first; absent/None = free *)
  cache : list (option entry);        (* call_site_cache; None = default (null) entry *)
  sites : list site }.

Definition init : state := mkState [] [] [] [].

Fixpoint lookup {A} (k : N) (l : list (N * A)) : option A :=
  match l with
  | [] => None
  | (k', v) :: r => if k =? k' then Some v else lookup k r
  end.

Definition gget (st : state) (idx : N) : gval :=
  match lookup idx (globals st) with Some v => v | None => GNull end.
Definition hget (st : state) (p : N) : option obj :=
  match lookup p (heap st) with Some o => o | None => None end.

(* Vec::resize(slot+1, default) followed by vec[slot] = x *)
Fixpoint set_nth {A} (n : nat) (x d : A) (l : list A) : list A :=
  match n, l with
  | O, [] => [x]
  | O, _ :: t => x :: t
  | S k, [] => d :: set_nth k x d []
  | S k, h :: t => h :: set_nth k x d t
  end.

(* slot < len && !entry.bytecode_ptr.is_null() *)
Definition cache_entry (c : list (option entry)) (slot : N) : option entry :=
  match nth_error c (N.to_nat slot) with Some (Some e) => Some e | _ => None end.

Fixpoint upd_nth {A} (n : nat) (f : A -> A) (l : list A) : list A :=
  match n, l with
  | _, [] => []
  | O, h :: t => f h :: t
  | S k, h :: t => h :: upd_nth k f t
  end.

Definition set_form (f : form) (s : site) : site :=
  mkSite (s_live s) f (s_slot s) (s_idx s).

Definition with_site (st : state) (sid : N) (f : site -> site) : state :=
  mkState (globals st) (heap st) (cache st) (upd_nth (N.to_nat sid) f (sites st)).

(* ---- what globals_by_index[idx] denotes right now --------------------------------------- *)
Inductive res := ROk (p : N) (o : obj) | RNull | RNotPtr | RBadRef.
Definition resolve (st : state) (idx : N) : res :=
  match gget st idx with
  | GNull => RNull
  | GOther => RNotPtr
  | GPtr p => match hget st p with Some o => ROk p o | None => RBadRef end
  end.

Inductive err := EUndefined | ENotCallable | EInvalidBytecode.
Inductive outcome :=
| ORan (code self : N)   (* a frame is pushed that runs the code of object [code], with
                            callee_ref = [self] (whose upvalues a closure body reads) *)
| ONative (p : N)
| OErr (e : err)
| OUseAfterFree          (* code pointers of a freed object would be executed *)
| OConfused              (* 78 with a closure entry but a cached pointer that is not a closure: the
                            fast path has already switched globals_by_index to the layout of the
                            cached pointer when it falls through to the miss path, which then reads
                            globals_by_index[idx] under a foreign layout -- outcome not modelled *)
| ODead | ONoSite
| ONone.                 (* events other than Call *)

Definition is_clo (o : obj) : bool := match o_kind o with KClo => true | _ => false end.

(* write call_site_cache[slot], patch the site to 78 with the new pointer *)
Definition fill (st : state) (sid : N) (s : site) (q : N) (clo : bool) : state :=
  mkState (globals st) (heap st)
          (set_nth (N.to_nat (s_slot s)) (Some (mkEntry q clo)) None (cache st))
          (upd_nth (N.to_nat sid) (set_form (Mono q)) (sites st)).

(* opcode 77 *)
Definition op_call_global (st : state) (sid : N) (s : site) : state * outcome :=
  match resolve st (s_idx s) with
  | RNull => (st, OErr EUndefined)
  | RNotPtr => (st, OErr ENotCallable)
  | RBadRef => (st, OErr ENotCallable)
  | ROk q o =>
      match o_kind o with
      | KNat => (with_site st sid (set_form (Native q)), ONative q)
      | _ => if MAX_CALL_SITE_SLOTS <=? s_slot s then (st, OErr EInvalidBytecode)
             else (fill st sid s q (is_clo o), ORan q q)
      end
  end.

(* opcode 78 *)
Definition mono_miss (st : state) (sid : N) (s : site) : state * outcome :=
  match resolve st (s_idx s) with
  | ROk q o =>
      match o_kind o with
      | KNat => (st, ONative q)                       (* called, site not re-patched *)
      | _ => if MAX_CALL_SITE_SLOTS <=? s_slot s then (st, OErr EInvalidBytecode)
             else (fill st sid s q (is_clo o), ORan q q)
      end
  | _ => (st, OErr ENotCallable)
  end.

Definition gval_is (v : gval) (p : N) : bool := match v with GPtr q => q =? p | _ => false end.

Definition op_call_global_mono (st : state) (sid : N) (s : site) (p : N) : state * outcome :=
  if negb (p =? 0) then
    match cache_entry (cache st) (s_slot s) with
    | Some e =>
        (* the entry must have been built from the callee cached at this site, and the global must
           still denote that callee *)
        if negb MONO_FAST_PATH_VALIDATES || ((e_code e =? p) && gval_is (gget st (s_idx s)) p) then
          let use := (st, match hget st (e_code e) with
                          | Some _ => ORan (e_code e) p
                          | None => OUseAfterFree end) in
          if e_clo e then
            match hget st p with                          (* upvalues are fetched from the cached pointer *)
            | Some o => if is_clo o then use else (st, OConfused)
            | None => (st, OConfused)
            end
          else use
        else mono_miss st sid s
    | None => mono_miss st sid s
    end
  else mono_miss st sid s.

(* opcode 104 *)
Definition is_native_at (st : state) (q : N) : bool :=
  match hget st q with Some o => match o_kind o with KNat => true | _ => false end | None => false end.

(* the global no longer denotes the cached native / denotes no native at all *)
Definition despecialise (st : state) (s : site) (p : N) : bool :=
  match gget st (s_idx s) with
  | GPtr q => (negb (p =? 0) && negb (q =? p)) || negb (is_native_at st q)
  | _ => negb (p =? 0)
  end.

Definition native_body (st : state) (sid : N) (s : site) (p : N) : state * outcome :=
  if p =? 0 then
    match resolve st (s_idx s) with
    | ROk q o =>
        match o_kind o with
        | KNat => (with_site st sid (set_form (Native q)), ONative q)
        | _ => (st, OErr ENotCallable)
        end
    | _ => (st, OErr ENotCallable)
    end
  else
    match hget st p with
    | Some o => match o_kind o with KNat => (st, ONative p) | _ => (st, OErr ENotCallable) end
    | None => (st, OErr ENotCallable)
    end.

Definition op_call_global_native (st : state) (sid : N) (s : site) (p : N) : state * outcome :=
  if NATIVE_SITE_FOLLOWS_REBINDING && despecialise st s p then
    (* opcode := 77, both cache words := 0 (slot id 0), dispatched again *)
    let s' := mkSite (s_live s) Plain 0 (s_idx s) in
    op_call_global (with_site st sid (fun _ => s')) sid s'
  else native_body st sid s p.

Definition call (st : state) (sid : N) : state * outcome :=
  match nth_error (sites st) (N.to_nat sid) with
  | None => (st, ONoSite)
  | Some s =>
      if negb (s_live s) then (st, ODead) else
      match s_form s with
      | Plain => op_call_global st sid s
      | Mono p => op_call_global_mono st sid s p
      | Native p => op_call_global_native st sid s p
      end
  end.

(* ---- events ----------------------------------------------------------------------------- *)
(* a call site as the compiler emits it: d_native = CallGlobalNative (no slot id) *)
Record sdecl := mkDecl { d_native : bool; d_slot : N; d_idx : N }.
Definition site_of_decl (base : N) (d : sdecl) : site :=
  mkSite true (if d_native d then Native 0 else Plain) (base + d_slot d) (d_idx d).

Inductive event :=
| Call (sid : N)
| SetGlobal (idx : N) (v : gval)             (* set_global / set_global_by_index *)
| Alloc (p : N) (o : obj)                    (* a function / closure / native object is allocated at heap index p *)
| NewUnit (ds : list sdecl) (slot_base : N)  (* a compilation unit is loaded; its slot ids are slot_base + emitted id *)
| Retire (sids : list N)                     (* the code containing these sites will not run again *)
| SaveReload (sids : list N)                 (* the unit owning these sites goes through serialize/deserialize *)
| Collect (freed : list N).                  (* a collection frees these heap indices *)

Definition memb (x : N) (l : list N) : bool := existsb (N.eqb x) l.

Fixpoint map_sites (f : N -> site -> site) (i : N) (l : list site) : list site :=
  match l with [] => [] | s :: r => f i s :: map_sites f (N.succ i) r end.

(* write_function: 78 -> 77 and both cache words := 0 (so the slot id becomes 0); a site that
   holds opcode 104 is written as it is *)
Definition reload_site (s : site) : site :=
  match s_form s with
  | Native _ => s
  | _ => mkSite (s_live s) Plain 0 (s_idx s)
  end.

Definition step (st : state) (ev : event) : state * outcome :=
  match ev with
  | Call sid => call st sid
  | SetGlobal idx v =>
      (mkState ((idx, v) :: globals st) (heap st)
               (if SET_GLOBAL_CLEARS_CACHE then [] else cache st) (sites st), ONone)
  | Alloc p o => (mkState (globals st) ((p, Some o) :: heap st) (cache st) (sites st), ONone)
  | NewUnit ds base =>
      (mkState (globals st) (heap st) (cache st) (sites st ++ map (site_of_decl base) ds), ONone)
  | Retire sids =>
      (mkState (globals st) (heap st) (cache st)
               (map_sites (fun i s => if memb i sids
                                      then mkSite false (s_form s) (s_slot s) (s_idx s)
                                      else s) 0 (sites st)), ONone)
  | SaveReload sids =>
      (mkState (globals st) (heap st) (cache st)
               (map_sites (fun i s => if memb i sids then reload_site s else s) 0 (sites st)), ONone)
  | Collect freed =>
      (mkState (globals st) (map (fun p => (p, None)) freed ++ heap st) (cache st) (sites st), ONone)
  end.

(* the slot counter a REPL input starts from, as driver/src/api/repl.rs builds its compiler *)
Definition used_slots (st : state) : N :=
  fold_right (fun s m => match s_form s with Native _ => m | _ => N.max m (N.succ (s_slot s)) end) 0 (sites st).
Definition repl_slot_base (st : state) : N :=
  if REPL_SLOT_COUNTER_RESTARTS then 0 else used_slots st.

(* ---- specification ---------------------------------------------------------------------- *)
(* "the function executed is the one bound to that callee at the moment of the call" *)
Definition spec_call (st : state) (sid : N) : outcome :=
  match nth_error (sites st) (N.to_nat sid) with
  | None => ONoSite
  | Some s =>
      if negb (s_live s) then ODead else
      match resolve st (s_idx s) with
      | ROk q o => match o_kind o with KNat => ONative q | _ => ORan q q end
      | _ => OErr ENotCallable
      end
  end.

(* the specification's own state machine: no cache, no patching *)
Definition spec_step (st : state) (ev : event) : state * outcome :=
  match ev with
  | Call sid => (st, spec_call st sid)
  | _ => step st ev
  end.

(* same function body entered (or same native called); any two errors agree *)
Definition same_callee (a b : outcome) : bool :=
  match a, b with
  | ORan c s, ORan c' s' => (c =? c') && (s =? s')
  | ONative p, ONative p' => p =? p'
  | OErr _, OErr _ => true
  | ODead, ODead | ONoSite, ONoSite | ONone, ONone => true
  | _, _ => false
  end.

Fixpoint run (stp : state -> event -> state * outcome) (st : state) (h : list event) : list outcome :=
  match h with
  | [] => []
  | e :: r => let (st', o) := stp st e in o :: run stp st' r
  end.

Fixpoint final (stp : state -> event -> state * outcome) (st : state) (h : list event) : state :=
  match h with [] => st | e :: r => final stp (fst (stp st e)) r end.

(* ---- what a history may assume of its environment (decidable) ------------------------------ *)
Definition bound_somewhere (st : state) (p : N) : bool :=
  existsb (fun kv => gval_is (gget st (fst kv)) p) (globals st).

(* No restriction on definitions, rebindings, sites, units, retiring or reloading.  Only:
   slot ids fit the cache table (the VM refuses larger ones), an allocation uses a free heap
   index, and a collection frees no object that is bound to a global (C03). *)
Definition event_ok (st : state) (ev : event) : bool :=
  match ev with
  | NewUnit ds base => forallb (fun d => base + d_slot d <? MAX_CALL_SITE_SLOTS) ds
  | Alloc p _ => match hget st p with None => true | Some _ => false end
  | Collect freed => forallb (fun p => negb (bound_somewhere st p)) freed
  | _ => true
  end.

Fixpoint env_ok (st : state) (h : list event) : bool :=
  match h with
  | [] => true
  | e :: r => event_ok st e && env_ok (fst (spec_step st e)) r
  end.

(* ---- program level (used by the tie): a call runs the callee's body, which makes calls ---- *)
Inductive status := SOk | SErr | SOverflow | SUaf | SFuel | SConfused.

Definition body_tag (st : state) (code self : N) : option (N * list N) :=
  match hget st code with
  | None => None
  | Some oc =>
      Some (match o_kind oc with
            | KClo => match hget st self with Some os => o_tag os | None => 0 end
            | _ => o_tag oc end, o_body oc)
  end.

Fixpoint exec_call (fuel : nat) (depth : N) (st : state) (sid : N) : state * list N * status :=
  match fuel with
  | O => (st, [], SFuel)
  | S f =>
      let (st1, o) := call st sid in
      match o with
      | ORan code self =>
          if MAX_FRAMES <=? depth then (st1, [], SOverflow)          (* frames.len() >= MAX_FRAMES *)
          else match body_tag st1 code self with
               | None => (st1, [], SUaf)
               | Some (tag, body) =>
                   (fix go (ss : list N) (st : state) (acc : list N) {struct ss} : state * list N * status :=
                      match ss with
                      | [] => (st, acc, SOk)
                      | s :: r =>
                          match exec_call f (depth + 1) st s with
                          | (st2, out, SOk) => go r st2 (acc ++ out)
                          | (st2, out, bad) => (st2, acc ++ out, bad)
                          end
                      end) body st1 [tag]
               end
      | ONative p => (st1, [match hget st1 p with Some o => o_tag o | None => 0 end], SOk)
      | OUseAfterFree => (st1, [], SUaf)
      | OConfused => (st1, [], SConfused)
      | _ => (st1, [], SErr)
      end
  end.

(* one input (REPL input / program): events in order, stopping at the first failure;
   the top-level frame is frame 1 *)
Fixpoint run_input (fuel : nat) (st : state) (evs : list event) (acc : list N) : state * list N * status :=
  match evs with
  | [] => (st, acc, SOk)
  | Call sid :: r =>
      match exec_call fuel 1 st sid with
      | (st1, out, SOk) => run_input fuel st1 r (acc ++ out)
      | (st1, out, bad) => (st1, acc ++ out, bad)
      end
  | e :: r => run_input fuel (fst (step st e)) r acc
  end.

Definition status_code (s : status) : N :=
  match s with SOk => 0 | SErr => 1 | SOverflow => 2 | SUaf => 3 | SFuel => 4 | SConfused => 5 end.

(* observation of one input: status, number of tags printed, the first 24 of them *)
Definition obs_input (r : state * list N * status) : list N :=
  let '(_, out, s) := r in status_code s :: N.of_nat (length out) :: firstn 24 out.

Fixpoint run_session (fuel : nat) (st : state) (inputs : list (list event)) : list (list N) :=
  match inputs with
  | [] => []
  | i :: r => let res := run_input fuel st i [] in
              obs_input res :: run_session fuel (fst (fst res)) r
  end.

(* fuel bounds the call depth only; MAX_FRAMES is reached first *)
Definition session_obs (inputs : list (list event)) : list (list N) :=
  run_session (S (S (N.to_nat MAX_FRAMES))) init inputs.

Definition obs_eqb (a b : list (list N)) : bool :=
  (fix eq2 (a b : list (list N)) : bool :=
     match a, b with
     | [], [] => true
     | x :: a', y :: b' =>
         ((fix eq1 (x y : list N) : bool :=
             match x, y with
             | [], [] => true
             | u :: x', v :: y' => (u =? v) && eq1 x' y'
             | _, _ => false
             end) x y) && eq2 a' b'
     | _, _ => false
     end) a b.
