(* Observation vectors for the C20 contract tie: what hx_utf8 prints, predicted by the model. *)
From Coq Require Import NArith ZArith Bool List.
From Aelys Require Import Model.Utf8 Model.Utf8Natives Model.Utf8Find.
Import ListNotations.
Local Open Scope Z_scope.

Inductive uq :=
| QEnc (c : N)                 (* one scalar through encode_utf8 / len_utf8 / chars().next() *)
| QStr (bytes : list N)        (* a valid string through len / chars / count / nth *)
| QSum (lo hi : N)             (* checksum over all valid scalars in [lo, hi) *)
| QProg (k : sel) (cs : list N)  (* an Aelys program observing the string utf8 cs; k = loop opcode selected *)
| QNat (cs ps : list N)          (* an Aelys program calling the character natives on utf8 cs, pad string utf8 ps *)
| QRecycle (cs : list N)
| QFirst (cs : list N)
| QBody (cs ds pv : list N).    (* for-each bodies with continue / break / nesting / closure / early return / locals, over utf8 cs, inner string utf8 ds, pivot character *)         (* functions whose for-each / range loop body ends in `return`, on utf8 cs and on the empty string *)       (* char_len / for-each / indexing observed three times with other one-character strings produced (and collected) in between *)

Definition zn (n : nat) : Z := Z.of_nat n.
Definition zs (l : list N) : list Z := map Z.of_N l.
Definition framed (it : list N) : list Z := zn (length it) :: zs it.

Definition enc_obs (c : N) : list Z :=
  [zn (len_utf8 c); zn (length (encode c))] ++ zs (encode c)
  ++ [match decode_first (encode c ++ [65; 195; 169]%N) with Some (d, _) => Z.of_N d | None => -1 end].

Fixpoint upto (n : nat) : list nat := match n with O => [] | S k => upto k ++ [k] end.

Definition str_obs (s : list N) : list Z :=
  let cs := chars s in
  [zn (byte_len s); zn (char_len s)] ++ zs cs
  ++ map (fun i => match nth_error cs i with Some c => Z.of_N c | None => -1 end) (upto (length cs + 2)).

Fixpoint pack (l : list N) (k : N) : N :=
  match l with [] => 0%N | x :: r => (N.shiftl x (8 * k) + pack r (k + 1))%N end.

Definition sum_step (st : N * (N * N * N)) : N * (N * N * N) :=
  let '(c, (a, b, d)) := st in
  if valid_scalar c then
    let e := encode c in
    let dec := match decode_first (e ++ [122%N]) with Some (x, _) => x | None => 0%N end in
    (N.succ c, ((a + pack e 0 * (c + 1))%N, (b + N.of_nat (len_utf8 c))%N,
                (d + dec * 3 + N.of_nat (char_len (e ++ [122%N])))%N))
  else (N.succ c, (a, b, d)).
Definition sum_obs (lo hi : N) : list Z :=
  let '(_, (a, b, d)) := N.iter (hi - lo) sum_step (lo, (0, 0, 0)%N) in
  [Z.of_N a; Z.of_N b; Z.of_N d].

Definition load_obs (r : load_result) : list Z :=
  match r with LoadOk it => -7 :: framed it | LoadIndexOutOfBounds => [-1] end.

Fixpoint all_ok (l : list load_result) : option (list (list N)) :=
  match l with
  | [] => Some []
  | LoadOk it :: r => match all_ok r with Some x => Some (it :: x) | None => None end
  | LoadIndexOutOfBounds :: _ => None
  end.

(* main program: len, char_len, the for-each items, then s[0..n-1] (n = number of scalars the
   harness put in); s[-1], s[n], s[n+1] are separate programs.  The "range" index form loops
   to char_len instead of n, the model's char_len is used for the count in both cases (they
   are equal by C20_char_len_is_count; a disagreement of the implementation shows up as a
   different count). *)
Definition prog_obs (k : sel) (cs : list N) : list Z :=
  let s := utf8 cs in
  let n := length cs in
  let r := vm_for_each k s in
  if negb (finished r) then [-99] else
  match all_ok (map (fun i => load_char s (Z.of_nat i)) (upto (char_len s))) with
  | None => [-9; -1]
  | Some idx =>
      [zn (byte_len s); zn (char_len s); zn (length (items r))] ++ concat (map framed (items r))
      ++ load_obs (load_char s (-1))
      ++ [zn (length idx)] ++ concat (map framed idx)
      ++ load_obs (load_char s (zn n)) ++ load_obs (load_char s (zn n + 1))
  end.

(* natives program (hx_utf8 nat_program): fixed order, every result framed *)
Definition sub_params (n : Z) : list (Z * Z) :=
  [(0, n); (1, 2); (n - 1, 5); (n, 1); (n + 1, 1); (0, 0); (-1, 2); (2, -1); (1, n)].
(* needles of the natives program: the middle character, the last two characters, the empty
   string (found at 0), the string followed by `z` (absent) *)
Definition find_needles (cs : list N) : list (list N) :=
  [firstn 1 (skipn (Nat.div2 (length cs)) cs); skipn (length cs - 2) cs; []; cs ++ [122%N]].
Definition nat_obs (cs ps : list N) : list Z :=
  let s := utf8 cs in
  let n := zn (length cs) in
  let bl := zn (length s) in
  let pad := utf8 ps in
  concat (map (fun k => framed (nat_char_at s (zn k - 1))) (upto (length cs + 3)))
  ++ concat (map (fun al => framed (nat_substr s (fst al) (snd al))) (sub_params n))
  ++ framed (nat_reverse s)
  ++ framed (nat_pad_left s (n - 1) pad) ++ framed (nat_pad_left s (n + 2) pad)
  ++ framed (nat_pad_right s (n + 2) pad) ++ framed (nat_pad_right s 0 pad)
  ++ framed (nat_repeat s (-1)) ++ framed (nat_repeat s 0) ++ framed (nat_repeat s 1) ++ framed (nat_repeat s 2)
  ++ framed (nat_chars s) ++ framed (nat_split_empty s)
  ++ framed (nat_concat s pad)
  ++ map (nat_byte_at s) [-1; 0; bl - 1; bl]
  ++ map (fun needle => nat_find s (utf8 needle)) (find_needles cs).

(* one observation round: char_len, the for-each items, s[0 .. char_len-1]; the garbage collector and
   whatever other strings the program makes in between are not inputs of any of the three paths *)
Definition recycle_round (cs : list N) : list Z :=
  let s := utf8 cs in
  let its := items (for_each s) in
  let idx := map (fun i => match load_char s (Z.of_nat i) with LoadOk it => it | LoadIndexOutOfBounds => [] end) (upto (char_len s)) in
  [zn (char_len s); zn (length its)] ++ concat (map framed its) ++ [zn (length idx)] ++ concat (map framed idx).
Definition recycle_obs (cs : list N) : list Z := recycle_round cs ++ recycle_round cs ++ recycle_round cs.

(* first_item / idx_first return the first item or the marker "<none>"; yields_nothing 1 iff no item; count_after the
   number of items: the code after a loop runs exactly when the loop runs out of items *)
Definition none_marker : list N := [60; 110; 111; 110; 101; 62]%N.
Definition first_obs (cs : list N) : list Z :=
  let s := utf8 cs in
  let first := match items (for_each s) with it :: _ => it | [] => none_marker end in
  let ifirst := match load_char s 0 with LoadOk it => if Nat.eqb (char_len s) 0 then none_marker else it | LoadIndexOutOfBounds => none_marker end in
  framed first ++ framed ifirst ++ framed none_marker
  ++ [(if Nat.eqb (length (items (for_each s))) 0 then 1 else 0); 1; zn (length (items (for_each s))); 0].

(* loop bodies that are not straight-line code: what each must compute from the items of the iteration *)
Fixpoint evens {A} (l : list A) : list A := match l with [] => [] | x :: r => x :: match r with [] => [] | _ :: r' => evens r' end end.
Fixpoint take_until (p : N) (l : list N) : list N := match l with [] => [] | x :: r => if N.eqb x p then [] else x :: take_until p r end.
Fixpoint index_of (p : N) (l : list N) (i : Z) : Z := match l with [] => (-1)%Z | x :: r => if N.eqb x p then i else index_of p r (i + 1)%Z end.
Definition count_if {A} (f : A -> bool) (l : list A) : Z := zn (length (filter f l)).
Definition body_obs (cs ds pvl : list N) : list Z :=
  let cc := chars (utf8 cs) in
  let dd := chars (utf8 ds) in
  let p := match pvl with x :: _ => x | [] => 0%N end in
  let narrow := filter (fun a => Nat.leb (len_utf8 a) 2) cc in
  [zn (length cc); count_if (fun c => negb (Nat.eqb (len_utf8 c) 1)) cc;
   zn (length cc)] ++ framed (utf8 (evens cc))
  ++ [zn (length cc); count_if (fun c => negb (N.eqb c p)) cc;
      zn (length (take_until p cc))] ++ framed (utf8 (take_until p cc))
  ++ [fold_right Z.add 0%Z (map (fun a => count_if (fun b => negb (N.eqb b a)) dd) narrow); zn (length narrow)]
  ++ framed (utf8 cc)
  ++ [index_of p cc 0%Z; index_of 0%N cc 0%Z;
      fold_right Z.add 0%Z (map (fun c => 3 * zn (len_utf8 c))%Z cc); zn (byte_len (utf8 cs))].

Definition uobs (q : uq) : list Z :=
  match q with
  | QEnc c => enc_obs c
  | QStr s => str_obs s
  | QSum lo hi => sum_obs lo hi
  | QProg k cs => prog_obs k cs
  | QNat cs ps => nat_obs cs ps
  | QRecycle cs => recycle_obs cs
  | QFirst cs => first_obs cs
  | QBody cs ds pv => body_obs cs ds pv
  end.
