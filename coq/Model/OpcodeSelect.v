(* Model of backend/src/opcode_select.rs: which opcode the backend emits for a binary
   operator given the resolved types of its operands (sema/src/types/resolved_type.rs).
   Generated from the Rust source (Extracted/OpcodeSelectTables.v, tools/extractors/c06.py):
   the BinaryOp and ResolvedType constructors, is_integer / is_float, and the five
   operator -> opcode tables.  Hand-written here: needs_guard / unwrap_uncertain / is_certain
   (one-line matches) and the decision skeleton of select_opcode; the whole function is compared
   with the real `select_opcode` on every run (hx_c06 --select).  Definitions only. *)
From Coq Require Import NArith Bool List String.
From Aelys Require Import Extracted.Opcodes Extracted.OpcodeSelectTables Extracted.DispatchArms Model.VmArith.
Import ListNotations.

Definition needs_guard (t : rtype) : bool :=
  match t with RUncertain _ => true | _ => false end.
Definition unwrap_uncertain (t : rtype) : rtype :=
  match t with RUncertain i => i | o => o end.
(* ResolvedType::is_certain *)
Definition is_certain (t : rtype) : bool :=
  match t with RDynamic | RUncertain _ => false | _ => true end.

Definition select_opcode (op : binop) (l r : rtype) : opcode :=
  let g := needs_guard l || needs_guard r in
  let li := unwrap_uncertain l in
  let ri := unwrap_uncertain r in
  if is_integer li && is_integer ri then
    (if g then select_guarded_int_opcode op else select_typed_int_opcode op)
  else if is_float_ty li && is_float_ty ri then
    (if g then select_guarded_float_opcode op else select_typed_float_opcode op)
  else if (is_integer li && is_float_ty ri) || (is_float_ty li && is_integer ri) then
    select_guarded_float_opcode op
  else select_generic_opcode op.

(* the generic (dynamically checked) opcode of the same operator: the reference semantics *)
Definition generic_sem (op : binop) : binsem :=
  match op with
  | OpAdd => SArith FGen AAdd | OpSub => SArith FGen ASub | OpMul => SArith FGen AMul
  | OpDiv => SArith FGen ADiv | OpMod => SArith FGen AMod
  | OpEq => SCmp FGen CEq | OpNe => SCmp FGen CNe | OpLt => SCmp FGen CLt | OpLe => SCmp FGen CLe
  | OpGt => SCmp FGen CGt | OpGe => SCmp FGen CGe
  | OpShl => SBit FGen BShl | OpShr => SBit FGen BShr | OpBitAnd => SBit FGen BAnd
  | OpBitOr => SBit FGen BOr | OpBitXor => SBit FGen BXor
  end.

(* a type-specialised opcode (II / FF forms): before 7e82908 these read their operands unchecked *)
Definition is_specialised_sem (s : binsem) : bool :=
  match s with
  | SArith FII _ | SArith FFF _ | SCmp FII _ | SCmp FFF _ | SBit FII _ => true
  | _ => false
  end.
Definition is_specialised_opcode (o : opcode) : bool :=
  match binop_sem o with Some s => is_specialised_sem s | None => false end.

Definition base_types : list rtype :=
  [RI8; RI16; RI32; RI64; RU8; RU16; RU32; RU64; RF32; RF64; RBool; RString; RNull; ROther; RDynamic].

(* ------------------------------------------------------------------ dispatch arms (generated)
   Structural facts about the dispatch loop, read off Extracted/DispatchArms.v. *)
Definition in_arm (x : N) (arm : list N * list String.string) : bool := existsb (N.eqb x) (fst arm).
(* every modelled opcode has an arm *)
Definition modelled_opcodes_have_arms : bool :=
  forallb (fun p => existsb (in_arm (snd p)) dispatch_arms) dispatch_numbers.
(* no arm of the arithmetic / comparison / bitwise / control-flow dispatch calls an unchecked accessor *)
Definition is_unchecked_accessor (a : String.string) : bool :=
  (String.eqb a "as_int_unchecked" || String.eqb a "as_float_unchecked")%string.
Definition no_unchecked_accessor_in_dispatch : bool :=
  forallb (fun arm => negb (existsb is_unchecked_accessor (snd arm))) dispatch_arms.
