(* Model of backend/src/opcode_select.rs: which opcode the backend emits for a binary
   operator given the resolved types of its operands (sema/src/types/resolved_type.rs).
   Hand-written; the opcode constructors come from Extracted/Opcodes.v (so a renamed or removed
   OpCode variant breaks the build) and the whole table is compared with the real
   `select_opcode` on every run (hx_c06 --select).  Definitions only. *)
From Coq Require Import NArith Bool List.
From Aelys Require Import Extracted.Opcodes Model.VmArith.
Import ListNotations.

(* ResolvedType; Function/Array/Vec/Tuple/Range/Struct are irrelevant to selection: ROther *)
Inductive rtype :=
| RI8 | RI16 | RI32 | RI64 | RU8 | RU16 | RU32 | RU64 | RF32 | RF64
| RBool | RString | RNull | ROther | RDynamic
| RUncertain (inner : rtype).

Definition is_integer (t : rtype) : bool :=
  match t with RI8 | RI16 | RI32 | RI64 | RU8 | RU16 | RU32 | RU64 => true | _ => false end.
Definition is_float_ty (t : rtype) : bool :=
  match t with RF32 | RF64 => true | _ => false end.
Definition needs_guard (t : rtype) : bool :=
  match t with RUncertain _ => true | _ => false end.
Definition unwrap_uncertain (t : rtype) : rtype :=
  match t with RUncertain i => i | o => o end.
(* ResolvedType::is_certain *)
Definition is_certain (t : rtype) : bool :=
  match t with RDynamic | RUncertain _ => false | _ => true end.

(* syntax::ast::BinaryOp *)
Inductive binop :=
| OpAdd | OpSub | OpMul | OpDiv | OpMod | OpEq | OpNe | OpLt | OpLe | OpGt | OpGe
| OpShl | OpShr | OpBitAnd | OpBitOr | OpBitXor.

Definition select_typed_int_opcode (op : binop) : opcode :=
  match op with
  | OpAdd => O_AddII | OpSub => O_SubII | OpMul => O_MulII | OpDiv => O_DivII | OpMod => O_ModII
  | OpLt => O_LtII | OpLe => O_LeII | OpGt => O_GtII | OpGe => O_GeII | OpEq => O_EqII | OpNe => O_NeII
  | OpShl => O_ShlII | OpShr => O_ShrII | OpBitAnd => O_AndII | OpBitOr => O_OrII | OpBitXor => O_XorII
  end.
Definition select_generic_opcode (op : binop) : opcode :=
  match op with
  | OpAdd => O_Add | OpSub => O_Sub | OpMul => O_Mul | OpDiv => O_Div | OpMod => O_Mod
  | OpLt => O_Lt | OpLe => O_Le | OpGt => O_Gt | OpGe => O_Ge | OpEq => O_Eq | OpNe => O_Ne
  | OpShl => O_Shl | OpShr => O_Shr | OpBitAnd => O_BitAnd | OpBitOr => O_BitOr | OpBitXor => O_BitXor
  end.
Definition select_typed_float_opcode (op : binop) : opcode :=
  match op with
  | OpAdd => O_AddFF | OpSub => O_SubFF | OpMul => O_MulFF | OpDiv => O_DivFF | OpMod => O_ModFF
  | OpLt => O_LtFF | OpLe => O_LeFF | OpGt => O_GtFF | OpGe => O_GeFF | OpEq => O_EqFF | OpNe => O_NeFF
  | o => select_generic_opcode o
  end.
(* there are no guarded shift/bitwise opcodes: the generic ones (which check both tags) are used *)
Definition select_guarded_int_opcode (op : binop) : opcode :=
  match op with
  | OpAdd => O_AddIIG | OpSub => O_SubIIG | OpMul => O_MulIIG | OpDiv => O_DivIIG | OpMod => O_ModIIG
  | OpLt => O_LtIIG | OpLe => O_LeIIG | OpGt => O_GtIIG | OpGe => O_GeIIG | OpEq => O_EqIIG | OpNe => O_NeIIG
  | o => select_generic_opcode o
  end.
Definition select_guarded_float_opcode (op : binop) : opcode :=
  match op with
  | OpAdd => O_AddFFG | OpSub => O_SubFFG | OpMul => O_MulFFG | OpDiv => O_DivFFG | OpMod => O_ModFFG
  | OpLt => O_LtFFG | OpLe => O_LeFFG | OpGt => O_GtFFG | OpGe => O_GeFFG | OpEq => O_EqFFG | OpNe => O_NeFFG
  | o => select_generic_opcode o
  end.

Definition select_opcode (op : binop) (l r : rtype) : opcode :=
  let g := needs_guard l || needs_guard r in
  let li := unwrap_uncertain l in
  let ri := unwrap_uncertain r in
  if is_integer li && is_integer ri then
    (if g then select_guarded_int_opcode op else select_typed_int_opcode op)
  else if is_float_ty li && is_float_ty ri then
    (if g then select_guarded_float_opcode op else select_typed_float_opcode op)
  else if (is_integer li && is_float_ty ri) || (is_float_ty li && is_integer ri) then
    select_guarded_float_opcode op
  else select_generic_opcode op.

(* the generic (dynamically checked) opcode of the same operator: the reference semantics *)
Definition generic_sem (op : binop) : binsem :=
  match op with
  | OpAdd => SArith FGen AAdd | OpSub => SArith FGen ASub | OpMul => SArith FGen AMul
  | OpDiv => SArith FGen ADiv | OpMod => SArith FGen AMod
  | OpEq => SCmp FGen CEq | OpNe => SCmp FGen CNe | OpLt => SCmp FGen CLt | OpLe => SCmp FGen CLe
  | OpGt => SCmp FGen CGt | OpGe => SCmp FGen CGe
  | OpShl => SBit FGen BShl | OpShr => SBit FGen BShr | OpBitAnd => SBit FGen BAnd
  | OpBitOr => SBit FGen BOr | OpBitXor => SBit FGen BXor
  end.

(* an opcode that reads its operands with the unchecked accessors *)
Definition is_unchecked_sem (s : binsem) : bool :=
  match s with
  | SArith FII _ | SArith FFF _ | SCmp FII _ | SCmp FFF _ | SBit FII _ => true
  | _ => false
  end.
Definition is_unchecked_opcode (o : opcode) : bool :=
  match binop_sem o with Some s => is_unchecked_sem s | None => false end.

Definition all_binops : list binop :=
  [OpAdd; OpSub; OpMul; OpDiv; OpMod; OpEq; OpNe; OpLt; OpLe; OpGt; OpGe; OpShl; OpShr; OpBitAnd; OpBitOr; OpBitXor].
Definition base_types : list rtype :=
  [RI8; RI16; RI32; RI64; RU8; RU16; RU32; RU64; RF32; RF64; RBool; RString; RNull; ROther; RDynamic].
