(* C14 -- model of the two views of the globals and of the frame stack across REPL inputs and
   host calls, written against
     runtime/src/vm/execute.rs                (VM::execute: by-name load of globals_by_index)
     runtime/src/vm/globals/access.rs         (set_global_by_index: write + clear the snapshot cache)
     runtime/src/vm/globals/sync.rs           (sync_globals_to_hashmap, sync_current_function_globals)
     runtime/src/vm/globals/layout.rs         (prepare_globals_for_function: snapshot cache)
     runtime/src/vm/dispatch/ops/call_*.inc, calls.inc, run.rs (call: if the callee's id is not 0
                                               and not the LOADED id: copy back what is loaded, load the
                                               callee's layout; Return: the same towards the caller, and
                                               copy back when leaving the run loop; id 0 = runs on
                                               whatever is loaded)
     runtime/src/vm/call_api/{kinds,cached}.rs (host call: prepare callee, push a frame without
                                               clearing the frame stack)
     runtime/src/vm/dispatch/run.rs           (run_fast drops the frames of a failed run)
     driver/src/api/repl.rs                   (clear_frames; compile; update_global_mutability;
                                               execute; sync + known-globals only on success)
   Definitions only; the model is of the code as it is. *)
From Coq Require Import NArith ZArith List Bool.
From Aelys Require Import Extracted.ReplShape.
Import ListNotations.
Local Open Scope N_scope.

Definition val := option Z.                        (* None = null *)
Record layout := mkLayout { l_id : N; l_names : list (option N) }.   (* None = "" (unnamed slot) *)

(* a frame: the layout id of its function, the frame's global_mapping_id field, and whether it is
   the entry frame of a run (pushed by VM::execute or by the call API right before run_fast) *)
Record frame := mkFrame { f_fn : N; f_gmap : N; f_entry : bool }.

Record gstate := mkG {
  gmap : list (N * val);                 (* VM.globals: by name *)
  gidx : list val;                       (* VM.globals_by_index: by index of the current layout *)
  cur : N;                               (* current_global_mapping_id *)
  snap : list (N * list val);            (* globals_by_index_cache: layout id -> snapshot *)
  frames : list frame;                   (* top of stack first *)
  ltab : list (N * list (option N));     (* the layouts of the functions in the heap: id -> names *)
  gmut : list (N * bool) }.              (* global_mutability *)

Definition ginit : gstate := mkG [] [] 0 [] [] [] [].

Fixpoint lookup {A} (k : N) (l : list (N * A)) : option A :=
  match l with [] => None | (k', v) :: r => if k =? k' then Some v else lookup k r end.

Definition glookup (m : list (N * val)) (n : N) : val :=
  match lookup n m with Some v => v | None => None end.
Definition names_of (st : gstate) (id : N) : list (option N) :=
  match lookup id (ltab st) with Some ns => ns | None => [] end.
Definition gnth (g : list val) (i : nat) : val := match nth_error g i with Some v => v | None => None end.

(* `globals.get(name).copied().unwrap_or(null)` for every slot of the layout; "" -> null *)
Definition load_vec (m : list (N * val)) (names : list (option N)) : list val :=
  map (fun nm => match nm with Some n => glookup m n | None => None end) names.

(* Vec::resize(i+1, null) when needed, then v[i] = x *)
Fixpoint set_at (i : nat) (x : val) (l : list val) : list val :=
  match i, l with
  | O, [] => [x]
  | O, _ :: t => x :: t
  | S k, [] => None :: set_at k x []
  | S k, h :: t => h :: set_at k x t
  end.

(* for (idx, name) in names: if name != "" && idx < globals_by_index.len() { globals.insert(name, gbi[idx]) } *)
Fixpoint sync_from (names : list (option N)) (g : list val) (m : list (N * val)) : list (N * val) :=
  match names, g with
  | Some n :: ns, v :: g' => sync_from ns g' ((n, v) :: m)
  | None :: ns, _ :: g' => sync_from ns g' m
  | _, _ => m
  end.

Definition with_gmap st m := mkG m (gidx st) (cur st) (snap st) (frames st) (ltab st) (gmut st).
Definition with_frames st f := mkG (gmap st) (gidx st) (cur st) (snap st) f (ltab st) (gmut st).
Definition register st (L : layout) :=
  mkG (gmap st) (gidx st) (cur st) (snap st) (frames st)
      (match lookup (l_id L) (ltab st) with Some _ => ltab st | None => (l_id L, l_names L) :: ltab st end) (gmut st).

(* VM::execute *)
Definition execute (st : gstate) (L : layout) : gstate :=
  let st := register st L in
  let g := match l_names L with
           | [] => gidx st
           | ns => load_vec (gmap st) ns ++ skipn (length ns) (gidx st)
           end in
  mkG (gmap st) g (l_id L) (snap st) (mkFrame (l_id L) (l_id L) true :: frames st) (ltab st) (gmut st).

(* set_global_by_index *)
Definition set_idx (st : gstate) (i : N) (v : val) : gstate :=
  mkG (gmap st) (set_at (N.to_nat i) v (gidx st)) (cur st) [] (frames st) (ltab st) (gmut st).

(* sync_globals_to_hashmap(names) *)
Definition sync_names (st : gstate) (names : list (option N)) : gstate :=
  with_gmap st (sync_from names (gidx st) (gmap st)).

(* sync_current_function_globals: the layout of the function of the top frame *)
Definition sync_current (st : gstate) : gstate :=
  match frames st with
  | f :: _ => sync_names st (names_of st (f_fn f))
  | [] => st
  end.

(* prepare_globals_for_function *)
Definition prepare (st : gstate) (id : N) : gstate :=
  if id =? cur st then st else
  match names_of st id with
  | [] => mkG (gmap st) [] id ((id, []) :: snap st) (frames st) (ltab st) (gmut st)
  | ns =>
      match lookup id (snap st) with
      | Some vec => mkG (gmap st) vec id (snap st) (frames st) (ltab st) (gmut st)
      | None => let vec := load_vec (gmap st) ns in
                mkG (gmap st) vec id ((id, vec) :: snap st) (frames st) (ltab st) (gmut st)
      end
  end.

(* sync_loaded_globals: copy back under the layout that is actually loaded *)
Definition sync_loaded (st : gstate) : gstate := sync_names st (names_of st (cur st)).

(* Call / CallGlobal / CallGlobalMono / CallCached / CallUpval / TailCallUpval entering a bytecode
   function from bytecode (c90f0cb).  A function whose layout id is 0 uses no globals: it runs on
   whatever layout is loaded.  Otherwise the wanted id is compared with the id of the layout that
   is LOADED (not with the id of the calling frame, which may be 0): what is loaded is copied back
   to the by-name map, then the callee's layout is loaded. *)
Definition call_enter (st : gstate) (L : layout) : gstate :=
  let st := register st L in
  let id := l_id L in
  let st1 := if negb (id =? 0) && negb (id =? cur st)
             then prepare (sync_loaded st) id
             else st in
  with_frames st1 (mkFrame id id false :: frames st1).

(* Return / Return0.  Result: the state and whether the run loop is left (the frame stack is empty).
   The caller gets its layout back unless it has none (id 0) or its layout is the loaded one; the
   loaded layout is copied back before the switch and (a3cbd29) when the Return leaves the run loop. *)
Definition do_return (st : gstate) : gstate * bool :=
  match frames st with
  | [] => (st, true)
  | f :: rest =>
      let caller_gmap := match rest with c :: _ => f_gmap c | [] => 0 end in
      let needs := negb (caller_gmap =? 0) && negb (caller_gmap =? cur st) in
      let leaving := match rest with [] => true | _ => false end in
      let st1 := if needs || (RETURN_SYNCS_WHEN_LEAVING && leaving) then sync_loaded st else st in
      let st2 := with_frames st1 rest in
      match rest with
      | [] => (st2, true)
      | c :: _ => (if needs then prepare st2 (f_fn c) else st2, false)
      end
  end.

(* run_fast on a runtime error (c94595b): the entry frame of the run and everything above it is
   dropped *)
Fixpoint unwind (fs : list frame) : list frame :=
  match fs with
  | [] => []
  | f :: r => if f_entry f then r else unwind r
  end.

(* call_function_kind (cached = false) / call_cached_function (cached = true; bae557e: its frame
   carries the mapping id too) *)
Definition host_enter (st : gstate) (L : layout) (cached : bool) : gstate :=
  let st := register (if HOST_CALL_CLEARS_FRAMES then with_frames st [] else st) L in
  let st1 := prepare st (l_id L) in
  with_frames st1 (mkFrame (l_id L) (if cached && negb CACHED_FRAME_HAS_MAPPING_ID then 0 else l_id L) true :: frames st1).

(* ---- operations and observations ---------------------------------------------------------- *)
Inductive op :=
| OClearFrames
| OExecute (L : layout)
| OSetIdx (i : N) (v : Z)
| OAddIdx (i : N) (k : Z)            (* g = g + k on an int global *)
| OPrintIdx (i : N) (k : Z)          (* observation: globals_by_index[i] + k is printed / returned *)
| OPrintConst (v : Z)
| OCall (L : layout)
| OReturn
| OSyncNames (L : layout)            (* driver: sync_globals_to_hashmap(global_names) after success *)
| OMutability (ns : list (N * bool)) (* driver: update_global_mutability after compile success *)
| OHostCall (L : layout) (cached : bool)
| OFail                              (* a runtime error: run_fast returns Err after dropping the frames of the run *)
| OReadMap (n : N)                   (* observation: vm.get_global(name) *)
| OFrames                            (* observation: frames.len() *)
| OCollect.                          (* a collection clears the snapshot cache *)

Definition zval (v : val) : Z := match v with Some z => z | None => (-1000000007)%Z end.

(* flag raised by a step: 1 = a host call was entered on a non-empty frame stack *)
Record res := mkRes { r_st : gstate; r_obs : list Z; r_flags : list N; r_failed : bool }.

Definition step_op (st : gstate) (o : op) : gstate * list Z * list N * bool :=
  match o with
  | OClearFrames => (if REPL_CLEARS_FRAMES_FIRST then with_frames st [] else st, [], [], false)
  | OExecute L => (execute st L, [], [], false)
  | OSetIdx i v => (set_idx st i (Some v), [], [], false)
  | OAddIdx i k =>
      match gnth (gidx st) (N.to_nat i) with
      | Some z => (set_idx st i (Some (z + k)%Z), [], [], false)
      | None => (if RUN_FAST_UNWINDS_ON_ERROR then with_frames st (unwind (frames st)) else st, [], [], true)
                                                         (* null + int: type error, the run fails *)
      end
  | OPrintIdx i k =>
      match gnth (gidx st) (N.to_nat i) with
      | Some z => (st, [(z + k)%Z], [], false)
      | None => (st, [zval None], [], false)
      end
  | OPrintConst v => (st, [v], [], false)
  | OCall L => (call_enter st L, [], [], false)
  | OReturn =>
      let '(st', lft) := do_return st in
      (st', [], [], false)
  | OSyncNames L => (sync_names st (l_names L), [], [], false)
  | OMutability ns => (mkG (gmap st) (gidx st) (cur st) (snap st) (frames st) (ltab st) (ns ++ gmut st), [], [], false)
  | OHostCall L c => (host_enter st L c, [], (match frames st with [] => [] | _ => [1] end), false)
  | OFail => (if RUN_FAST_UNWINDS_ON_ERROR then with_frames st (unwind (frames st)) else st, [], [], true)
  | OReadMap n => (st, [zval (glookup (gmap st) n)], [], false)
  | OFrames => (st, [Z.of_nat (length (frames st))], [], false)
  | OCollect => (mkG (gmap st) (gidx st) (cur st) [] (frames st) (ltab st) (gmut st), [], [], false)
  end.

(* one step of a session (a REPL input or a host call): operations in order; after a failure only
   observations are still performed (the harness reads the by-name map after every step) *)
Fixpoint run_ops (st : gstate) (ops : list op) (obs : list Z) (fl : list N) (failed : bool) : res :=
  match ops with
  | [] => mkRes st obs fl failed
  | o :: r =>
      let is_obs := match o with OReadMap _ | OFrames => true | _ => false end in
      if failed && negb is_obs then run_ops st r obs fl failed else
      let '(st', ob, f, bad) := step_op st o in
      run_ops st' r (obs ++ ob) (fl ++ f) (failed || bad)
  end.

Fixpoint run_session (st : gstate) (steps : list (list op)) : list (list Z) :=
  match steps with
  | [] => []
  | s :: r => let x := run_ops st s [] [] false in
              ((if r_failed x then 1%Z else 0%Z) :: map Z.of_N (r_flags x) ++ [(-7)%Z] ++ r_obs x) :: run_session (r_st x) r
  end.

(* per step: [failed; flags...; -7; observations...] *)
Definition session_obs (steps : list (list op)) : list (list Z) := run_session ginit steps.

Definition zobs_eqb (a b : list (list Z)) : bool :=
  (fix eq2 (a b : list (list Z)) : bool :=
     match a, b with
     | [], [] => true
     | x :: a', y :: b' =>
         ((fix eq1 (x y : list Z) : bool :=
             match x, y with
             | [], [] => true
             | u :: x', v :: y' => Z.eqb u v && eq1 x' y'
             | _, _ => false
             end) x y) && eq2 a' b'
     | _, _ => false
     end) a b.

(* ---- the driver's REPL entry point as a whole (driver/src/api/repl.rs) ---------------------- *)
(* compiles = false: lexer/parser/type inference/compiler returned Err (everything before
   update_global_mutability); body: the operations the unit's code performs *)
Definition repl_input (st : gstate) (compiles : bool) (L : layout) (muts : list (N * bool)) (body : list op) : res :=
  if compiles
  then let x := run_ops st ([OClearFrames; OMutability muts; OExecute L] ++ body ++ [OReturn]) [] [] false in
       if r_failed x then x else run_ops (r_st x) [OSyncNames L] (r_obs x) (r_flags x) false
  else run_ops st [OClearFrames] [] [] false.

(* ---- host call at the level of the frame stack ------------------------------------------------ *)
(* what the host receives when the callee's body returns v: the run loop is left only when the
   frame stack becomes empty; otherwise the frame beneath is resumed *)
Inductive host_result := HostGets (v : Z) | HostResumes (stale : frame).
(* (the run fails instead: see [unwind]) *)
Definition host_call_result (st : gstate) (L : layout) (cached : bool) (v : Z) : host_result :=
  let st1 := host_enter st L cached in
  match frames (fst (do_return st1)) with
  | [] => HostGets v
  | f :: _ => HostResumes f
  end.

(* the same without the flags: per step [failed; -7; observations...] (what the harness can observe) *)
Fixpoint run_session_noflags (st : gstate) (steps : list (list op)) : list (list Z) :=
  match steps with
  | [] => []
  | s :: r => let x := run_ops st s [] [] false in
              ((if r_failed x then 1%Z else 0%Z) :: (-7)%Z :: r_obs x) :: run_session_noflags (r_st x) r
  end.
Definition session_obs_noflags (steps : list (list op)) : list (list Z) := run_session_noflags ginit steps.
