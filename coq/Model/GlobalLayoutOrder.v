(* C16 -- model of backend/src/compiler/pipeline.rs: the pre-pass of compile_typed that
   assigns global indices in source order, and build_global_layout, which walks the
   HashMap `global_indices` (iteration order random per process) and writes each accessed
   name at its stored index.  The association list `gi` stands for the HashMap in *some*
   iteration order. *)
From Coq Require Import NArith Bool List String.
Import ListNotations.
Local Open Scope string_scope.
Local Open Scope list_scope.

Fixpoint set_nth {A} (k : nat) (v : A) (l : list A) : list A :=
  match k, l with
  | _, [] => []                          (* names[idx] would panic; never reached: idx < len *)
  | O, _ :: r => v :: r
  | S k', x :: r => x :: set_nth k' v r
  end.

(* `let mut names = vec![String::new(); n]; for (name, &idx) in &global_indices {
      if accessed.contains(name) { names[idx] = name.clone() } }` *)
Definition layout_step (accessed : string -> bool) (names : list string) (p : string * nat) : list string :=
  if accessed (fst p) then set_nth (snd p) (fst p) names else names.

Definition build_layout (n : nat) (gi : list (string * nat)) (accessed : string -> bool) : list string :=
  fold_left (layout_step accessed) gi (repeat "" n).

(* the pre-pass: `if !global_indices.contains_key(name) { insert(name, next); next += 1 }`
   for every top-level fn / let in source order *)
Fixpoint has_key (gi : list (string * nat)) (name : string) : bool :=
  match gi with
  | [] => false
  | (k, _) :: r => String.eqb k name || has_key r name
  end.

Fixpoint assign_from (gi : list (string * nat)) (next : nat) (decls : list string) : list (string * nat) * nat :=
  match decls with
  | [] => (gi, next)
  | d :: r => if has_key gi d then assign_from gi next r
              else assign_from (gi ++ [(d, next)]) (S next) r
  end.
Definition assign_indices (decls : list string) : list (string * nat) * nat := assign_from [] 0 decls.

(* the layout of a program whose top-level declarations are `decls` (all declared names are
   accessed: compile_typed_let / finalize insert them into accessed_globals) *)
Definition layout_of_decls (decls : list string) : list string :=
  let '(gi, n) := assign_indices decls in build_layout n gi (fun _ => true).

Fixpoint slist_eqb (a b : list string) : bool :=
  match a, b with
  | [], [] => true
  | x :: a', y :: b' => String.eqb x y && slist_eqb a' b'
  | _, _ => false
  end.

(* the other recurring pattern: a child compiler's table is merged into the parent's with
   `for (name, idx) in &child.global_indices { if !parent.contains_key(name) { parent.insert(name, idx) } }`
   (finalize_typed_function, finalize_untyped_function, finalize_lambda, compile_typed_lambda_*;
   Heap::merge does the same with `entry(hash).or_insert`).  A table is its lookup function. *)
Definition table := string -> option nat.
Definition merge_step (t : table) (e : string * nat) : table :=
  match t (fst e) with
  | Some _ => t
  | None => fun k => if String.eqb k (fst e) then Some (snd e) else t k
  end.
Definition merge_if_absent (parent : table) (child : list (string * nat)) : table :=
  fold_left merge_step child parent.
