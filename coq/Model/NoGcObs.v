(* Observation vectors for the C13 trace tie: what hx_nogc prints per (session, opt, input). *)
From Coq Require Import NArith ZArith Bool List.
From Aelys Require Import Base.CaseCheck Extracted.NoGcConsts Model.NoGc.
Import ListNotations.
Local Open Scope Z_scope.

Definition oc_code (o : oc) : Z :=
  match o with ONormal | OBrk | OCont | ORet => 0 | OErr => 1 | OUnder => 2 | OFuel => 3 end.

(* [class; depth after; safepoints; safepoints at depth>0; collections (forced at every safepoint the
   guard allows); collections at depth>0; safepoints inside a source-level region] *)
Definition obs_of (inl : bool) (P : prog) (n0 : Z) (d0 : N) : list Z :=
  let (o, st) := run_vm return_exit_order inl P n0 d0 in
  let (_, ss) := run_src P n0 in
  [oc_code o; Z.of_N (v_depth st); Z.of_N (v_safes st); Z.of_N (v_pos st);
   Z.of_N (v_safes st) - Z.of_N (v_pos st); 0; Z.of_N (s_flag ss)].

Inductive nq := QRun (may_inline : bool) (P : prog) (n0 : Z) (d0 : N).
Definition nobs (q : nq) : list Z * option (list Z) :=
  match q with
  | QRun mi P n0 d0 => (obs_of false P n0 d0, if mi then Some (obs_of true P n0 d0) else None)
  end.
(* at -O1 and above the optimizer may or may not inline the leaf functions (its heuristics are not part
   of the property): either prediction is accepted, uniformly per program *)
Definition nobs_eqb (m : list Z * option (list Z)) (o : list Z * option (list Z)) : bool :=
  list_eqb Z.eqb (fst m) (fst o) ||
  match snd m with Some b => list_eqb Z.eqb b (fst o) | None => false end.
