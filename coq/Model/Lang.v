(* Core abstract syntax of Aelys programs, mirroring aelys_sema::TypedStmtKind / TypedExprKind
   (types, spans and Grouping dropped).  hx_ast dumps the real typed AST in this syntax. *)
From Coq Require Import ZArith NArith String List.
Import ListNotations.

Inductive binop :=
| BAdd | BSub | BMul | BDiv | BMod | BEq | BNe | BLt | BLe | BGt | BGe
| BShl | BShr | BBitAnd | BBitOr | BBitXor.
Inductive unop := UNeg | UNot | UBitNot.

Inductive expr :=
| EInt (n : Z)
| EFlt (bits : N)
| EBool (b : bool)
| EStr (s : string)
| ENull
| EVar (x : string)
| EBin (op : binop) (a b : expr)
| EUn (op : unop) (a : expr)
| EAnd (a b : expr)
| EOr (a b : expr)
| ECall (f : expr) (args : list expr)
| EAssign (x : string) (e : expr)
| EIf (c a b : expr)
| EFmt (parts : list fpart)
| ELam (params : list (string * bool)) (body : list stmt)
| EMember (o : expr) (m : string)
| EArr (es : list expr)
| EVec (es : list expr)
| EArrSized (n : expr)
| EIdx (a i : expr)
| EIdxSet (a i v : expr)
| EOther (k : string)
with fpart :=
| PLit (s : string)
| PExpr (e : expr)
| PHole
with stmt :=
| SExpr (e : expr)
| SLet (x : string) (mutable : bool) (e : expr)
| SBlock (b : list stmt)
| SIf (c : expr) (t : stmt) (e : option stmt)
| SWhile (c : expr) (b : stmt)
| SFor (x : string) (lo hi : expr) (inclusive : bool) (step : option expr) (b : stmt)
| SForEach (x : string) (e : expr) (b : stmt)
| SRet (e : option expr)
| SBreak
| SCont
| SFun (name : string) (params : list (string * bool)) (body : list stmt) (decorators : list string)
| SOther (k : string).

(* a declaration statement (binds a name for the statements that follow it) *)
Definition declares (s : stmt) : bool :=
  match s with SLet _ _ _ | SFun _ _ _ _ => true | _ => false end.

Definition program := list stmt.

(* strings with non-printable bytes are dumped as byte lists *)
From Coq Require Import Ascii.
Definition sb (l : list nat) : string := fold_right (fun n s => String (ascii_of_nat n) s) EmptyString l.
