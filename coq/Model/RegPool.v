(* Model of the compiler's register pool (backend/src/compiler/scope/registers.rs and
   scope/liveness.rs): a pool is the list of in-use flags, register 0 first.  Definitions only.

   Why it matters for C02: the VM puts a callee's frame right after the call's window
   (dest + 1 for CallGlobal / CallUpval, callee register + 1 for Call; runtime
   ops/call*.inc, vm/calls.rs), so the callee overwrites EVERY caller register above the
   window.  A call is therefore only correct when no register above its window is live. *)
From Coq Require Import List Arith Bool.
Import ListNotations.

Definition pool := list bool.

Definition used (p : pool) (r : nat) : bool := nth r p false.

(* alloc_register: the lowest free register, marked in use *)
Fixpoint first_free (p : pool) : option nat :=
  match p with
  | [] => None
  | false :: _ => Some 0
  | true :: q => option_map S (first_free q)
  end.

Fixpoint set_reg (p : pool) (r : nat) (b : bool) : pool :=
  match p, r with
  | [], _ => []
  | _ :: q, 0 => b :: q
  | x :: q, S r' => x :: set_reg q r' b
  end.

Definition alloc (p : pool) : option (nat * pool) :=
  match first_free p with
  | Some r => Some (r, set_reg p r true)
  | None => None
  end.

(* free_register *)
Definition free (p : pool) (r : nat) : pool := set_reg p r false.

(* alloc_consecutive_registers_for_call n: first fit of n free registers (start only; the
   callers mark the registers themselves) *)
Fixpoint all_free (p : pool) (n : nat) : bool :=
  match n with
  | 0 => true
  | S n' => match p with
            | false :: q => all_free q n'
            | _ => false
            end
  end.

Fixpoint first_fit (p : pool) (n : nat) : option nat :=
  if all_free p n then Some 0
  else match p with
       | [] => None
       | _ :: q => option_map S (first_fit q n)
       end.

(* alloc_consecutive_from start count: all of them free, then marked *)
Fixpoint mark (p : pool) (start n : nat) : pool :=
  match n with
  | 0 => p
  | S n' => mark (set_reg p start true) (S start) n'
  end.

Definition alloc_from (p : pool) (start n : nat) : option pool :=
  if (start + n <=? length p) && all_free (skipn start p) n then Some (mark p start n) else None.

(* one past the highest register in use *)
Fixpoint top (p : pool) : nat :=
  match p with
  | [] => 0
  | b :: q => match top q with
              | 0 => if b then 1 else 0
              | S t => S (S t)
              end
  end.

(* no hole: everything below the top is in use *)
Definition compact (p : pool) : Prop := forall r, r < top p -> used p r = true.

Fixpoint compactb (p : pool) : bool :=
  match p with
  | [] => true
  | true :: q => compactb q
  | false :: q => match top q with 0 => true | _ => false end
  end.

(* free_dead_locals as repaired: release dead, uncaptured locals from the top of the pool
   downwards, stopping at the first register that must stay.  [dead r] = the local living in
   register r is dead, not captured and not yet released. *)
Fixpoint free_dead_top (fuel : nat) (dead : nat -> bool) (p : pool) : pool :=
  match fuel with
  | 0 => p
  | S f => match top p with
           | 0 => p
           | S t => if dead t then free_dead_top f dead (free p t) else p
           end
  end.

(* free_dead_locals as it was (KF-C02-11): every dead local is released wherever it sits *)
Fixpoint free_dead_anywhere (dead : nat -> bool) (p : pool) (r : nat) : pool :=
  match p with
  | [] => []
  | b :: q => (if dead r then false else b) :: free_dead_anywhere dead q (S r)
  end.

(* the condition a frame-pushing call needs: nothing in use above its window *)
Definition window_clear (p : pool) (last : nat) : Prop := forall r, last < r -> used p r = false.
