(* Model of the assembly text format at instruction level: what the disassembler prints for
   one instruction word and what the assembler builds from those operands, both driven by the
   per-opcode table regenerated from disasm.rs / opcodes.rs (Extracted/AasmTable.v).
   Definitions only.

   An instruction is (op, a, b, c), the four bytes of the word; the 16-bit immediate of
   format B is the pair (b, c) read as a signed number.  Operands are tokens, i.e. what the
   .aasm lexer delivers (Register(u8), Int(i64), identifiers such as upval / k3, true / false,
   label references); their spelling is `render`. A jump target is carried as the signed
   offset it denotes: naming labels (L0, L1, ...) and resolving them belongs to the function
   level, not modelled here. *)
From Coq Require Import NArith ZArith Bool List String Ascii DecimalString.
From Aelys Require Import Model.AasmTypes Extracted.AasmTable.
Import ListNotations.
Local Open Scope N_scope.

Record instr := Instr { i_op : N; i_a : N; i_b : N; i_c : N }.

Definition word_of (i : instr) : N := ((i_op i * 256 + i_a i) * 256 + i_b i) * 256 + i_c i.
Definition instr_of (w : N) : instr :=
  Instr ((w / 16777216) mod 256) ((w / 65536) mod 256) ((w / 256) mod 256) (w mod 256).

(* signed reading of the low 16 bits / its inverse (`imm as u16`) *)
Definition imm_of (i : instr) : Z :=
  let u := Z.of_N (i_b i * 256 + i_c i) in if (u <? 32768)%Z then u else (u - 65536)%Z.
Definition u16_of (z : Z) : N := Z.to_N (z mod 65536)%Z.

Inductive otok :=
| TReg (n : N) | TNum (z : Z) | TUpv (n : N) | TKon (n : N) | TBoo (b : bool) | TLab (off : Z).

Definition get_field (f : ofield) (i : instr) : N :=
  match f with FA => i_a i | FB => i_b i | FC => i_c i | FImm => i_b i * 256 + i_c i end.

(* ---- disassemble_instruction *)
Definition print_operand (i : instr) (o : okind * ofield) : otok :=
  let (k, f) := o in
  match k with
  | KReg => TReg (get_field f i)
  | KU8 => TNum (Z.of_N (get_field f i))
  | KI16 => TNum (imm_of i)
  | KUpval => TUpv (get_field f i)
  | KKonst => TKon (get_field f i)
  | KBool => TBoo (negb (get_field f i =? 0))
  | KLabel => TLab (imm_of i)
  end.
Definition print_ops (sh : shape) (i : instr) : list otok := map (print_operand i) sh.

Fixpoint find_op (op : N) (t : list row) : option row :=
  match t with
  | [] => None
  | (Row o _ _ _ _ as r) :: rest => if o =? op then Some r else find_op op rest
  end.
Fixpoint find_name (n : string) (t : list row) : option row :=
  match t with
  | [] => None
  | (Row _ m _ _ _ as r) :: rest => if String.eqb m n then Some r else find_name n rest
  end.

(* mnemonic + operands of one instruction; None = `.word 0x...` (not an opcode) *)
Definition disasm_instr (i : instr) : option (string * list otok) :=
  match find_op (i_op i) aasm_table with
  | Some (Row _ name sh _ _) => Some (name, print_ops sh i)
  | None => None
  end.

(* ---- parse_instruction *)
Definition set_field (f : ofield) (v : N) (i : instr) : instr :=
  match f with
  | FA => Instr (i_op i) v (i_b i) (i_c i)
  | FB => Instr (i_op i) (i_a i) v (i_c i)
  | FC => Instr (i_op i) (i_a i) (i_b i) v
  | FImm => Instr (i_op i) (i_a i) (v / 256) (v mod 256)
  end.
Definition in_u8 (z : Z) : bool := ((0 <=? z) && (z <=? 255))%Z.
Definition in_i16 (z : Z) : bool := ((-32768 <=? z) && (z <=? 32767))%Z.

Definition parse_operand (o : okind * ofield) (t : otok) (i : instr) : option instr :=
  let (k, f) := o in
  match k, t with
  | KReg, TReg n => if n <? 256 then Some (set_field f n i) else None
  | KU8, TNum z => if in_u8 z then Some (set_field f (Z.to_N z) i) else None
  | KI16, TNum z => if in_i16 z then Some (set_field f (u16_of z) i) else None
  | KUpval, TUpv n => if n <? 256 then Some (set_field f n i) else None
  | KKonst, TKon n => if n <? 256 then Some (set_field f n i) else None
  | KKonst, TNum z => if in_u8 z then Some (set_field f (Z.to_N z) i) else None   (* MakeClosure also takes a bare number *)
  | KBool, TBoo b => Some (set_field f (if b then 1 else 0) i)
  | KLabel, TLab z => if in_i16 z then Some (set_field f (u16_of z) i) else None
  | _, _ => None
  end.
Fixpoint parse_ops (sh : shape) (ts : list otok) (i : instr) : option instr :=
  match sh, ts with
  | [], [] => Some i
  | o :: sh', t :: ts' =>
      match parse_operand o t i with Some i' => parse_ops sh' ts' i' | None => None end
  | _, _ => None
  end.

(* words produced for one mnemonic line: the instruction and its zeroed cache words *)
Definition asm_instr (name : string) (ts : list otok) : option (list N) :=
  match find_name name aasm_table with
  | Some (Row _ _ _ _ (Some (Parse op sh cache))) =>
      match parse_ops sh ts (Instr op 0 0 0) with
      | Some i => Some (word_of i :: repeat 0 (N.to_nat cache))
      | None => None
      end
  | _ => None
  end.

(* ---- what a table must satisfy for the two sides to be inverse *)
Definition field_eqb (a b : ofield) : bool :=
  match a, b with FA, FA | FB, FB | FC, FC | FImm, FImm => true | _, _ => false end.
Definition kind_eqb (a b : okind) : bool :=
  match a, b with
  | KReg, KReg | KU8, KU8 | KI16, KI16 | KUpval, KUpval | KKonst, KKonst | KBool, KBool | KLabel, KLabel => true
  | _, _ => false
  end.
Definition overlaps (a b : ofield) : bool :=
  field_eqb a b || (match a, b with FImm, (FB | FC) | (FB | FC), FImm => true | _, _ => false end).
(* 16-bit kinds sit in the immediate, 8-bit kinds in a byte field *)
Definition kind_fits (o : okind * ofield) : bool :=
  match o with
  | ((KI16 | KLabel), FImm) => true
  | ((KReg | KU8 | KUpval | KKonst | KBool), (FA | FB | FC)) => true
  | _ => false
  end.
Fixpoint fields_disjoint (sh : shape) : bool :=
  match sh with
  | [] => true
  | (_, f) :: r => negb (existsb (fun o => overlaps f (snd o)) r) && fields_disjoint r
  end.
Definition shape_ok (sh : shape) : bool := forallb kind_fits sh && fields_disjoint sh.

Fixpoint shape_eqb (a b : shape) : bool :=
  match a, b with
  | [], [] => true
  | (k1, f1) :: a', (k2, f2) :: b' => kind_eqb k1 k2 && field_eqb f1 f2 && shape_eqb a' b'
  | _, _ => false
  end.

(* one row: the assembler knows the mnemonic, encodes the same opcode, reads the operands
   the disassembler prints, in the same order, into the same fields, and appends as many
   cache words as the disassembler skips *)
Definition row_ok (r : row) : bool :=
  match r with
  | Row op _ sh cache (Some (Parse op' sh' cache')) =>
      (op =? op') && shape_eqb sh sh' && (cache =? cache') && shape_ok sh && (op <? 256)
  | Row _ _ _ _ None => false
  end.
Fixpoint names_distinct (t : list row) : bool :=
  match t with
  | [] => true
  | Row _ n _ _ _ :: rest =>
      negb (existsb (fun r => match r with Row _ m _ _ _ => String.eqb m n end) rest) && names_distinct rest
  end.
Fixpoint ops_distinct (t : list row) : bool :=
  match t with
  | [] => true
  | Row o _ _ _ _ :: rest =>
      negb (existsb (fun r => match r with Row p _ _ _ _ => p =? o end) rest) && ops_distinct rest
  end.
Definition table_ok (t : list row) : bool := forallb row_ok t && names_distinct t && ops_distinct t.

(* fields an opcode does not show must be zero, booleans 0/1: otherwise the text cannot carry them *)
Definition shown (sh : shape) (f : ofield) : bool := existsb (fun o => overlaps f (snd o)) sh.
Definition bool_fields_ok (sh : shape) (i : instr) : bool :=
  forallb (fun o => match o with (KBool, f) => get_field f i <? 2 | _ => true end) sh.
Definition canonical (sh : shape) (i : instr) : bool :=
  (i_a i <? 256) && (i_b i <? 256) && (i_c i <? 256)
  && (shown sh FA || (i_a i =? 0)) && (shown sh FB || (i_b i =? 0)) && (shown sh FC || (i_c i =? 0))
  && bool_fields_ok sh i.

(* ---- spelling (for the tie with the real disassembler's text) *)
Definition dec (n : N) : string := NilZero.string_of_uint (N.to_uint n).
Definition decz (z : Z) : string := NilZero.string_of_int (Z.to_int z).
Definition render_tok (t : otok) : string :=
  match t with
  | TReg n => "r" ++ dec n
  | TNum z => decz z
  | TUpv n => "upval[" ++ dec n ++ "]"
  | TKon n => "k" ++ dec n
  | TBoo b => if b then "true" else "false"
  | TLab _ => "L0"                (* a single instruction has a single jump target *)
  end%string.
Fixpoint join (l : list string) : string :=
  match l with [] => "" | [x] => x | x :: r => x ++ ", " ++ join r end%string.
Definition render_line (w : N) : string :=
  match disasm_instr (instr_of w) with
  | Some (name, []) => name
  | Some (name, ops) => (name ++ " " ++ join (map render_tok ops))%string
  | None => ".word"%string
  end.
(* assemble (disassemble [w]) as the model sees it *)
Definition reassemble (w : N) : option (list N) :=
  match disasm_instr (instr_of w) with
  | Some (name, ops) => asm_instr name ops
  | None => None
  end.
