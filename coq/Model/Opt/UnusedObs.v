(* Fidelity code for the tie of Model/Opt/Unused.v to the real UnusedVarEliminator:
   0 = the model pass produces exactly the real pass's output and deletes something,
   2 = exactly the real output, nothing deleted, 1 = it differs. *)
From Coq Require Import ZArith NArith String List Bool.
From Aelys Require Import Model.Lang Model.LangEq Model.Opt.Unused.
Definition unused_fid (p_in p_out : program) : N :=
  if program_eqb (unused_program p_in) p_out
  then (if program_eqb p_in p_out then 2%N else 0%N)
  else 1%N.
Definition unused_open_fid (p_in p_out : program) : N :=
  if program_eqb (unused_session_unit p_in) p_out
  then (if program_eqb p_in p_out then 2%N else 0%N)
  else 1%N.
