(* Model of opt/src/passes/unused_vars (analysis.rs, eliminate.rs, mod.rs) for a whole program
   (top_level_open = false): the set of names that are READ anywhere in the program, the
   `has_side_effects` gate, and the removal of every non-last `let` of a block whose name is in
   no read position and whose initializer passes the gate.  The pass rewrites statements only:
   it never enters an expression (lambda bodies keep their unused lets).
   Not represented in Model/Lang.v and therefore not here: `pub` lets (always kept by the pass;
   the tie skips programs that contain one) and the capture lists of functions / lambdas (the
   pass adds them to the used set; a capture is a name the body reads, so they add nothing -
   the exact-output tie would show it if they did).  Definitions only. *)
From Coq Require Import ZArith NArith String List Bool.
From Aelys Require Import Model.Lang.
Import ListNotations.

Definition mem (x : string) (l : list string) : bool := existsb (String.eqb x) l.

(* collect_uses_in_expr / collect_uses_in_stmt: every name in a read (or assigned) position *)
Fixpoint uses_expr (e : expr) : list string :=
  match e with
  | EVar x => [x]
  | EOther k => [k]
  | EBin _ a b | EAnd a b | EOr a b | EIdx a b => uses_expr a ++ uses_expr b
  | EUn _ a | EMember a _ | EArrSized a => uses_expr a
  | ECall f args => uses_expr f ++ flat_map uses_expr args
  | EAssign x a => x :: uses_expr a
  | EIf c a b | EIdxSet c a b => uses_expr c ++ uses_expr a ++ uses_expr b
  | ELam _ body => flat_map uses_stmt body
  | EFmt parts => flat_map (fun p => match p with PExpr a => uses_expr a | _ => [] end) parts
  | EArr es | EVec es => flat_map uses_expr es
  | EInt _ | EFlt _ | EBool _ | EStr _ | ENull => []
  end
with uses_stmt (s : stmt) : list string :=
  match s with
  | SExpr e => uses_expr e
  | SLet _ _ e => uses_expr e
  | SBlock b => flat_map uses_stmt b
  | SIf c t e => uses_expr c ++ uses_stmt t ++ match e with Some e' => uses_stmt e' | None => [] end
  | SWhile c b => uses_expr c ++ uses_stmt b
  | SFor x lo hi _ step b =>
      uses_expr lo ++ uses_expr hi ++ match step with Some k => uses_expr k | None => [] end
      ++ uses_stmt b ++ [x]
  | SForEach x e b => uses_expr e ++ uses_stmt b ++ [x]
  | SRet (Some e) => uses_expr e
  | SFun _ _ body _ => flat_map uses_stmt body
  | SRet None | SBreak | SCont | SOther _ => []
  end.

Definition uses_block (l : list stmt) : list string := flat_map uses_stmt l.

(* has_side_effects *)
Fixpoint hse (e : expr) : bool :=
  match e with
  | ECall _ _ | EAssign _ _ | EIdxSet _ _ _ => true
  | EBin _ a b | EAnd a b | EOr a b | EIdx a b => hse a || hse b
  | EUn _ a | EMember a _ | EArrSized a => hse a
  | EIf c a b => hse c || hse a || hse b
  | ELam _ _ => false
  | EArr es | EVec es => existsb hse es
  | EFmt parts => existsb (fun p => match p with PExpr a => hse a | _ => false end) parts
  | EInt _ | EFlt _ | EBool _ | EStr _ | ENull | EVar _ | EOther _ => false
  end.

(* the `retain` closure: may this (non-last) statement be deleted? *)
Definition removable (used : list string) (s : stmt) : bool :=
  match s with
  | SLet x _ e => negb (mem x used) && negb (hse e)
  | _ => false
  end.

(* stmts.retain(..): the last statement of a block always stays *)
Fixpoint retain (used : list string) (l : list stmt) : list stmt :=
  match l with
  | [] => []
  | [s] => [s]
  | s :: r => if removable used s then retain used r else s :: retain used r
  end.

(* eliminate_unused_in_stmt / _in_block / _in_function *)
Fixpoint un_stmt (used : list string) (s : stmt) : stmt :=
  match s with
  | SBlock b => SBlock (retain used (map (un_stmt used) b))
  | SIf c t e => SIf c (un_stmt used t) (option_map (un_stmt used) e)
  | SWhile c b => SWhile c (un_stmt used b)
  | SFor x lo hi incl step b => SFor x lo hi incl step (un_stmt used b)
  | SForEach x e b => SForEach x e (un_stmt used b)
  | SFun n ps body d =>
      let lu := used ++ uses_block body ++ map fst ps in
      SFun n ps (retain lu (map (un_stmt lu) body)) d
  | SExpr _ | SLet _ _ _ | SRet _ | SBreak | SCont | SOther _ => s
  end.

Definition un_block (used : list string) (l : list stmt) : list stmt :=
  retain used (map (un_stmt used) l).

Definition unused_program (p : program) : program := un_block (uses_block p) p.

(* the model cannot speak about a program whose dump lost subexpressions *)
Definition opaque_kind (k : string) : bool :=
  mem k ["range"; "slice"; "struct"; "cast"]%string.

(* a session unit (top_level_open = true: REPL input, host-API unit): a top-level `let` is a
   global that a later unit may read, so the top-level list itself is not filtered; locals of
   its functions and blocks still are *)
Definition unused_session_unit (p : program) : program := map (un_stmt (uses_block p)) p.
