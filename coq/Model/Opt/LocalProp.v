(* Model of opt/src/passes/local_const_prop (propagator.rs, scope.rs): a single walk over the
   program that threads a stack of scopes (name -> known literal, or "bound here to something
   that is no constant").  Every binder - `let`, parameter, loop variable, lambda parameter,
   function name - enters the innermost scope, as a constant only for an immutable `let` whose
   (propagated, then folded) initializer is a literal and, at top level, whose name is bound
   exactly once in the program; an assignment and every loop over a body that assigns invalidate;
   blocks, branches, loop bodies, function and lambda bodies open a scope.  In a session unit a
   use inside a function or lambda body ignores the outermost (top-level) scope.
   The folder applied to `let` initializers is Model/Opt/Fold.v (floats are not folded there; the
   tie skips programs with a float literal).  Definitions only. *)
From Coq Require Import ZArith NArith String List Bool Arith.
From Aelys Require Import Model.Lang Model.Opt.Fold Model.Opt.GlobalProp.
Import ListNotations.

Definition scope := list (string * option expr).
Definition scopes := list scope.       (* innermost first; never empty *)

Fixpoint sc_find (x : string) (s : scope) : option (option expr) :=
  match s with
  | [] => None
  | (y, v) :: r => if String.eqb x y then Some v else sc_find x r
  end.
Fixpoint sc_set (x : string) (v : option expr) (s : scope) : scope :=
  match s with
  | [] => [(x, v)]
  | (y, w) :: r => if String.eqb x y then (y, v) :: r else (y, w) :: sc_set x v r
  end.

(* ScopeStack::insert / shadow: into the innermost scope *)
Definition ss_put (x : string) (v : option expr) (ss : scopes) : scopes :=
  match ss with
  | [] => [[(x, v)]]
  | s :: r => sc_set x v s :: r
  end.
(* ScopeStack::get: the first scope, from the innermost, that has an entry decides *)
Fixpoint ss_get (x : string) (ss : scopes) : option expr :=
  match ss with
  | [] => None
  | s :: r => match sc_find x s with Some v => v | None => ss_get x r end
  end.
(* get_above_top_level: the same, ignoring the outermost scope *)
Definition ss_get_above (x : string) (ss : scopes) : option expr := ss_get x (removelast ss).
(* ScopeStack::invalidate: the innermost scope that has an entry *)
Fixpoint ss_inval (x : string) (ss : scopes) : scopes :=
  match ss with
  | [] => []
  | s :: r => match sc_find x s with Some _ => sc_set x None s :: r | None => s :: ss_inval x r end
  end.
Definition ss_push (ss : scopes) : scopes := [] :: ss.
Definition ss_pop (ss : scopes) : scopes := match ss with _ :: (_ :: _) as r => r | _ => ss end.

(* collect_assigned_vars / collect_assigned_vars_expr *)
Fixpoint asg_expr (e : expr) : list string :=
  match e with
  | EAssign x a => x :: asg_expr a
  | EBin _ a b | EAnd a b | EOr a b | EIdx a b => asg_expr a ++ asg_expr b
  | ECall f args => asg_expr f ++ flat_map asg_expr args
  | EUn _ a | EMember a _ | EArrSized a => asg_expr a
  | EIf c a b | EIdxSet c a b => asg_expr c ++ asg_expr a ++ asg_expr b
  | EArr es | EVec es => flat_map asg_expr es
  | EFmt parts => flat_map (fun p => match p with PExpr a => asg_expr a | _ => [] end) parts
  | ELam _ body => flat_map asg_stmt body
  | EInt _ | EFlt _ | EBool _ | EStr _ | ENull | EVar _ | EOther _ => []
  end
with asg_stmt (s : stmt) : list string :=
  match s with
  | SExpr e => asg_expr e
  | SBlock b => flat_map asg_stmt b
  | SIf c t e => asg_expr c ++ asg_stmt t ++ match e with Some e' => asg_stmt e' | None => [] end
  | SWhile c b => asg_expr c ++ asg_stmt b
  | SFor _ _ _ _ _ b => asg_stmt b
  | SForEach _ _ b => asg_stmt b
  | SRet (Some e) => asg_expr e
  | SLet _ _ _ | SFun _ _ _ _ | SRet None | SBreak | SCont | SOther _ => []
  end.

Definition is_simple_constant (e : expr) : bool :=
  match e with EInt _ | EFlt _ | EBool _ | EStr _ | ENull => true | _ => false end.

(* [open]: session unit; [bs]: binder census of the whole program *)
Definition known (open : bool) (deferred : bool) (ss : scopes) (x : string) : option expr :=
  if open && deferred then ss_get_above x ss else ss_get x ss.

Fixpoint lp_expr (open : bool) (bs : list string) (deferred : bool) (ss : scopes) (e : expr) {struct e} : expr * scopes :=
  match e with
  | EVar x => (match known open deferred ss x with Some k => k | None => e end, ss)
  | EBin op a b =>
      let '(a', s1) := lp_expr open bs deferred ss a in
      let '(b', s2) := lp_expr open bs deferred s1 b in (EBin op a' b', s2)
  | EUn op a => let '(a', s1) := lp_expr open bs deferred ss a in (EUn op a', s1)
  | EAnd a b =>
      let '(a', s1) := lp_expr open bs deferred ss a in
      let '(b', s2) := lp_expr open bs deferred s1 b in (EAnd a' b', s2)
  | EOr a b =>
      let '(a', s1) := lp_expr open bs deferred ss a in
      let '(b', s2) := lp_expr open bs deferred s1 b in (EOr a' b', s2)
  | ECall f args =>
      let '(f', s1) := lp_expr open bs deferred ss f in
      let '(args', s2) :=
        (fix go (l : list expr) (s : scopes) : list expr * scopes :=
           match l with
           | [] => ([], s)
           | x :: r => let '(x', sa) := lp_expr open bs deferred s x in
                       let '(r', sb) := go r sa in (x' :: r', sb)
           end) args s1 in
      (ECall f' args', s2)
  | EAssign x a =>
      let '(a', s1) := lp_expr open bs deferred ss a in (EAssign x a', ss_inval x s1)
  | EIf c a b =>
      let '(c', s1) := lp_expr open bs deferred ss c in
      let '(a', s2) := lp_expr open bs deferred s1 a in
      let '(b', s3) := lp_expr open bs deferred s2 b in (EIf c' a' b', s3)
  | ELam ps body =>
      let s0 := fold_left (fun s p => ss_put (fst p) None s) ps (ss_push ss) in
      let '(body', s1) :=
        (fix go (l : list stmt) (s : scopes) : list stmt * scopes :=
           match l with
           | [] => ([], s)
           | x :: r => let '(x', sa) := lp_stmt open bs true s x in
                       let '(r', sb) := go r sa in (x' :: r', sb)
           end) body s0 in
      (ELam ps body', ss_pop s1)
  | EMember o m => let '(o', s1) := lp_expr open bs deferred ss o in (EMember o' m, s1)
  | EArr es =>
      let '(es', s1) :=
        (fix go (l : list expr) (s : scopes) : list expr * scopes :=
           match l with
           | [] => ([], s)
           | x :: r => let '(x', sa) := lp_expr open bs deferred s x in
                       let '(r', sb) := go r sa in (x' :: r', sb)
           end) es ss in
      (EArr es', s1)
  | EVec es =>
      let '(es', s1) :=
        (fix go (l : list expr) (s : scopes) : list expr * scopes :=
           match l with
           | [] => ([], s)
           | x :: r => let '(x', sa) := lp_expr open bs deferred s x in
                       let '(r', sb) := go r sa in (x' :: r', sb)
           end) es ss in
      (EVec es', s1)
  | EArrSized n => let '(n', s1) := lp_expr open bs deferred ss n in (EArrSized n', s1)
  | EIdx a i =>
      let '(a', s1) := lp_expr open bs deferred ss a in
      let '(i', s2) := lp_expr open bs deferred s1 i in (EIdx a' i', s2)
  | EIdxSet a i v =>
      let '(a', s1) := lp_expr open bs deferred ss a in
      let '(i', s2) := lp_expr open bs deferred s1 i in
      let '(v', s3) := lp_expr open bs deferred s2 v in (EIdxSet a' i' v', s3)
  | EFmt parts =>
      let '(parts', s1) :=
        (fix go (l : list fpart) (s : scopes) : list fpart * scopes :=
           match l with
           | [] => ([], s)
           | PExpr x :: r => let '(x', sa) := lp_expr open bs deferred s x in
                             let '(r', sb) := go r sa in (PExpr x' :: r', sb)
           | q :: r => let '(r', sb) := go r s in (q :: r', sb)
           end) parts ss in
      (EFmt parts', s1)
  | EInt _ | EFlt _ | EBool _ | EStr _ | ENull | EOther _ => (e, ss)
  end
with lp_stmt (open : bool) (bs : list string) (deferred : bool) (ss : scopes) (s : stmt) {struct s} : stmt * scopes :=
  match s with
  | SLet x m e =>
      let '(e1, s1) := lp_expr open bs deferred ss e in
      let e2 := fold_expr e1 in
      let rebindable := Nat.eqb (length s1) 1 && negb (bound_once bs x) in
      if negb m && is_simple_constant e2 && negb rebindable
      then (SLet x m e2, ss_put x (Some e2) s1)
      else (SLet x m e2, ss_put x None s1)
  | SExpr e => let '(e', s1) := lp_expr open bs deferred ss e in (SExpr e', s1)
  | SBlock b =>
      let '(b', s1) :=
        (fix go (l : list stmt) (s : scopes) : list stmt * scopes :=
           match l with
           | [] => ([], s)
           | x :: r => let '(x', sa) := lp_stmt open bs deferred s x in
                       let '(r', sb) := go r sa in (x' :: r', sb)
           end) b (ss_push ss) in
      (SBlock b', ss_pop s1)
  | SIf c t e =>
      let '(c', s1) := lp_expr open bs deferred ss c in
      let '(t', s2) := lp_stmt open bs deferred (ss_push s1) t in
      let s2' := ss_pop s2 in
      match e with
      | Some el => let '(el', s3) := lp_stmt open bs deferred (ss_push s2') el in (SIf c' t' (Some el'), ss_pop s3)
      | None => (SIf c' t' None, s2')
      end
  | SWhile c b =>
      let s0 := fold_left (fun s x => ss_inval x s) (asg_stmt b) ss in
      let '(c', s1) := lp_expr open bs deferred s0 c in
      let '(b', s2) := lp_stmt open bs deferred (ss_push s1) b in
      (SWhile c' b', ss_pop s2)
  | SFor x lo hi incl step b =>
      let '(lo', s1) := lp_expr open bs deferred ss lo in
      let '(hi', s2) := lp_expr open bs deferred s1 hi in
      let '(step', s3) :=
        match step with
        | Some k => let '(k', sk) := lp_expr open bs deferred s2 k in (Some k', sk)
        | None => (None, s2)
        end in
      let s4 := fold_left (fun s y => ss_inval y s) (asg_stmt b) s3 in
      let '(b', s5) := lp_stmt open bs deferred (ss_put x None (ss_push s4)) b in
      (SFor x lo' hi' incl step' b', ss_pop s5)
  | SForEach x e b =>
      let '(e', s1) := lp_expr open bs deferred ss e in
      let s2 := fold_left (fun s y => ss_inval y s) (asg_stmt b) s1 in
      let '(b', s3) := lp_stmt open bs deferred (ss_put x None (ss_push s2)) b in
      (SForEach x e' b', ss_pop s3)
  | SRet (Some e) => let '(e', s1) := lp_expr open bs deferred ss e in (SRet (Some e'), s1)
  | SFun n ps body d =>
      let s0 := fold_left (fun s p => ss_put (fst p) None s) ps (ss_push (ss_put n None ss)) in
      let '(body', s1) :=
        (fix go (l : list stmt) (s : scopes) : list stmt * scopes :=
           match l with
           | [] => ([], s)
           | x :: r => let '(x', sa) := lp_stmt open bs true s x in
                       let '(r', sb) := go r sa in (x' :: r', sb)
           end) body s0 in
      (SFun n ps body' d, ss_pop s1)
  | SRet None | SBreak | SCont | SOther _ => (s, ss)
  end.

Fixpoint lp_top (open : bool) (bs : list string) (ss : scopes) (l : list stmt) : list stmt :=
  match l with
  | [] => []
  | s :: r => let '(s', s1) := lp_stmt open bs false ss s in s' :: lp_top open bs s1 r
  end.

Definition lprop_program (open : bool) (p : program) : program :=
  lp_top open (binders_block p) [[]] p.
