(* Model of opt/src/passes/global_const_prop (mod.rs, collect.rs, substitute.rs) and of the part of
   opt/src/passes/binders.rs it uses: the table of immutable top-level `let`s whose initializer is
   a constant expression (built in up to ten rounds so that chains resolve), the rule that a name
   bound more than once anywhere in the program is no constant, and the substitution of uses -
   only where the use cannot run before the constant's `let` has executed (`may_substitute`:
   the `let` is an earlier top-level statement, or the use sits in a function body and the `let`
   is among the program's leading quiet declarations; never inside a function or lambda body of
   a session unit).  Types are not represented in Model/Lang.v, so the pass's choice of the
   literal's integer type is outside the model.  Definitions only. *)
From Coq Require Import ZArith NArith String List Bool Arith.
From Aelys Require Import Model.Lang.
Import ListNotations.

(* ------------------------------------------------------------------ binders.rs *)
Fixpoint binders_expr (e : expr) : list string :=
  match e with
  | ELam ps body => map fst ps ++ flat_map binders_stmt body
  | EBin _ a b | EAnd a b | EOr a b | EIdx a b => binders_expr a ++ binders_expr b
  | EUn _ a | EAssign _ a | EMember a _ | EArrSized a => binders_expr a
  | ECall f args => binders_expr f ++ flat_map binders_expr args
  | EIf c a b | EIdxSet c a b => binders_expr c ++ binders_expr a ++ binders_expr b
  | EArr es | EVec es => flat_map binders_expr es
  | EFmt parts => flat_map (fun p => match p with PExpr a => binders_expr a | _ => [] end) parts
  | EInt _ | EFlt _ | EBool _ | EStr _ | ENull | EVar _ | EOther _ => []
  end
with binders_stmt (s : stmt) : list string :=
  match s with
  | SExpr e => binders_expr e
  | SLet x _ e => x :: binders_expr e
  | SBlock b => flat_map binders_stmt b
  | SIf c t e => binders_expr c ++ binders_stmt t ++ match e with Some e' => binders_stmt e' | None => [] end
  | SWhile c b => binders_expr c ++ binders_stmt b
  | SFor x lo hi _ step b =>
      x :: binders_expr lo ++ binders_expr hi ++ match step with Some k => binders_expr k | None => [] end
      ++ binders_stmt b
  | SForEach x e b => x :: binders_expr e ++ binders_stmt b
  | SRet (Some e) => binders_expr e
  | SFun n ps body _ => n :: map fst ps ++ flat_map binders_stmt body
  | SRet None | SBreak | SCont | SOther _ => []
  end.

Definition binders_block (l : list stmt) : list string := flat_map binders_stmt l.
Definition count_of (x : string) (l : list string) : nat := length (filter (String.eqb x) l).
Definition bound_once (bs : list string) (x : string) : bool := Nat.eqb (count_of x bs) 1.

(* ------------------------------------------------------------------ collect.rs *)
Fixpoint quiet_expr (e : expr) : bool :=
  match e with
  | EInt _ | EFlt _ | EBool _ | EStr _ | ENull | EVar _ => true
  | EBin _ a b | EAnd a b | EOr a b => quiet_expr a && quiet_expr b
  | EUn _ a => quiet_expr a
  | _ => false
  end.
Definition quiet_stmt (s : stmt) : bool :=
  match s with
  | SFun _ _ _ _ | SOther _ => true
  | SLet _ _ e => quiet_expr e
  | _ => false
  end.
Fixpoint first_effect (l : list stmt) : nat :=
  match l with
  | [] => 0
  | s :: r => if quiet_stmt s then S (first_effect r) else 0
  end.

(* name -> (resolved constant expression, index of the defining top-level statement) *)
Definition tbl := list (string * (expr * nat)).
Fixpoint tlookup (x : string) (t : tbl) : option (expr * nat) :=
  match t with
  | [] => None
  | (y, v) :: r => if String.eqb x y then Some v else tlookup x r
  end.

Fixpoint is_const (t : tbl) (before : nat) (e : expr) : bool :=
  match e with
  | EInt _ | EFlt _ | EBool _ | EStr _ | ENull => true
  | EVar x => match tlookup x t with Some (_, p) => Nat.ltb p before | None => false end
  | EBin _ a b | EAnd a b | EOr a b => is_const t before a && is_const t before b
  | EUn _ a => is_const t before a
  | EIf c a b => is_const t before c && is_const t before a && is_const t before b
  | _ => false
  end.

(* substitute_in_expr_for_collection *)
Fixpoint resolve (t : tbl) (e : expr) : expr :=
  match e with
  | EVar x => match tlookup x t with Some (c, _) => c | None => e end
  | EBin op a b => EBin op (resolve t a) (resolve t b)
  | EUn op a => EUn op (resolve t a)
  | EAnd a b => EAnd (resolve t a) (resolve t b)
  | EOr a b => EOr (resolve t a) (resolve t b)
  | EIf c a b => EIf (resolve t c) (resolve t a) (resolve t b)
  | _ => e
  end.

Definition collect_stmt (bs : list string) (idx : nat) (s : stmt) (t : tbl) : tbl :=
  match s with
  | SLet x false e =>
      match tlookup x t with
      | Some _ => t
      | None => if bound_once bs x && is_const t idx e then t ++ [(x, (resolve t e, idx))] else t
      end
  | _ => t
  end.

Fixpoint collect_round (bs : list string) (idx : nat) (l : list stmt) (t : tbl) : tbl :=
  match l with
  | [] => t
  | s :: r => collect_round bs (S idx) r (collect_stmt bs idx s t)
  end.

Fixpoint collect_rounds (n : nat) (bs : list string) (l : list stmt) (t : tbl) : tbl :=
  match n with
  | O => t
  | S k =>
      let t' := collect_round bs 0 l t in
      if Nat.eqb (length t') (length t) then t' else collect_rounds k bs l t'
  end.

Definition collect (p : program) : tbl := collect_rounds 10 (binders_block p) p [].

(* ------------------------------------------------------------------ substitute.rs *)
Record sctx := mkCtx { cursor : nat; in_fn : bool; deferred : bool }.

Section Subst.
Variable open : bool.        (* session unit *)
Variable fe : nat.           (* first_effect *)
Variable t : tbl.

Definition may_subst (c : sctx) (x : string) : option expr :=
  if open && deferred c then None
  else match tlookup x t with
       | Some (k, pos) => if Nat.ltb pos (cursor c) || (in_fn c && Nat.ltb pos fe) then Some k else None
       | None => None
       end.

Fixpoint gp_expr (c : sctx) (e : expr) : expr :=
  match e with
  | EVar x => match may_subst c x with Some k => k | None => e end
  | EBin op a b => EBin op (gp_expr c a) (gp_expr c b)
  | EUn op a => EUn op (gp_expr c a)
  | EAnd a b => EAnd (gp_expr c a) (gp_expr c b)
  | EOr a b => EOr (gp_expr c a) (gp_expr c b)
  | ECall f args => ECall (gp_expr c f) (map (gp_expr c) args)
  | EAssign x a => EAssign x (gp_expr c a)
  | EIf k a b => EIf (gp_expr c k) (gp_expr c a) (gp_expr c b)
  | ELam ps body => ELam ps (map (gp_stmt (mkCtx (cursor c) (in_fn c) true)) body)
  | EMember o m => EMember (gp_expr c o) m
  | EArr es => EArr (map (gp_expr c) es)
  | EVec es => EVec (map (gp_expr c) es)
  | EArrSized n => EArrSized (gp_expr c n)
  | EIdx a i => EIdx (gp_expr c a) (gp_expr c i)
  | EIdxSet a i v => EIdxSet (gp_expr c a) (gp_expr c i) (gp_expr c v)
  | EFmt parts => EFmt (map (fun p => match p with PExpr a => PExpr (gp_expr c a) | q => q end) parts)
  | EInt _ | EFlt _ | EBool _ | EStr _ | ENull | EOther _ => e
  end
with gp_stmt (c : sctx) (s : stmt) : stmt :=
  match s with
  | SExpr e => SExpr (gp_expr c e)
  | SLet x m e => SLet x m (gp_expr c e)
  | SBlock b => SBlock (map (gp_stmt c) b)
  | SIf k th el => SIf (gp_expr c k) (gp_stmt c th) (option_map (gp_stmt c) el)
  | SWhile k b => SWhile (gp_expr c k) (gp_stmt c b)
  | SFor x lo hi incl step b =>
      SFor x (gp_expr c lo) (gp_expr c hi) incl (option_map (gp_expr c) step) (gp_stmt c b)
  | SForEach x e b => SForEach x (gp_expr c e) (gp_stmt c b)
  | SRet e => SRet (option_map (gp_expr c) e)
  | SFun n ps body d => SFun n ps (map (gp_stmt (mkCtx (cursor c) true true)) body) d
  | SBreak | SCont | SOther _ => s
  end.

Fixpoint gp_top (idx : nat) (l : list stmt) : list stmt :=
  match l with
  | [] => []
  | s :: r => gp_stmt (mkCtx idx false false) s :: gp_top (S idx) r
  end.
End Subst.

Definition gprop_program (open : bool) (p : program) : program :=
  gp_top open (first_effect p) (collect p) 0 p.
