(* Model of opt/src/passes/constant_fold: the literal-folding kernel (fold_int_binary,
   fold_bool_comparison, fold_string_concat, try_fold_unary, try_fold_and/or) and the
   bottom-up traversal optimize_expr / optimize_stmt.  Definitions only.
   INT_MIN / INT_MAX / MAX_FOLDED_STRING_LEN come from the translator. *)
From Coq Require Import ZArith NArith String List Bool.
From Aelys Require Import Model.Lang Model.Eval Extracted.OptConsts.
Import ListNotations.
Local Open Scope Z_scope.

Definition in_vm_range (v : Z) : bool := (FOLD_INT_MIN <=? v) && (v <=? FOLD_INT_MAX).
Definition is_i64 (v : Z) : bool := (-9223372036854775808 <=? v) && (v <? 9223372036854775808).

(* i64 checked arithmetic: None on overflow *)
Definition checked (v : Z) : option Z := if is_i64 v then Some v else None.

Definition fold_int_binary (op : binop) (a b : Z) : option expr :=
  if negb (in_vm_range a && in_vm_range b) then None
  else
    let int_result (v : Z) := Some (EInt v) in
    let ranged (o : option Z) :=
      match o with
      | Some v => if in_vm_range v then Some (EInt v) else None
      | None => None
      end in
    match op with
    | BLt => Some (EBool (a <? b))
    | BLe => Some (EBool (a <=? b))
    | BGt => Some (EBool (b <? a))
    | BGe => Some (EBool (b <=? a))
    | BEq => Some (EBool (a =? b))
    | BNe => Some (EBool (negb (a =? b)))
    | BBitAnd => int_result (Z.land a b)
    | BBitOr => int_result (Z.lor a b)
    | BBitXor => int_result (Z.lxor a b)
    | BShl =>
        if (0 <=? b) && (b <=? 63)
        then ranged (Some (wrap64 (Z.shiftl a b)))      (* i64 checked_shl only checks the count *)
        else None
    | BShr => if (0 <=? b) && (b <=? 63) then int_result (Z.shiftr a b) else None
    | BAdd => ranged (checked (a + b))
    | BSub => ranged (checked (a - b))
    | BMul => ranged (checked (a * b))
    | BDiv => if b =? 0 then None else ranged (checked (Z.quot a b))
    | BMod => if b =? 0 then None else ranged (checked (Z.rem a b))
    end.

Definition fold_bool_comparison (op : binop) (a b : bool) : option expr :=
  match op with
  | BEq => Some (EBool (Bool.eqb a b))
  | BNe => Some (EBool (negb (Bool.eqb a b)))
  | _ => None
  end.

Definition fold_string_concat (a b : string) : option expr :=
  if (Z.of_nat (String.length a + String.length b) <=? MAX_FOLDED_STRING_LEN) then Some (EStr (a ++ b)) else None.

(* one node, children already literals or not *)
Definition fold_binary_node (op : binop) (l r : expr) : option expr :=
  match l, r with
  | EInt a, EInt b => fold_int_binary op a b
  | EStr a, EStr b => match op with BAdd => fold_string_concat a b | _ => None end
  | EBool a, EBool b => fold_bool_comparison op a b
  | _, _ => None          (* float folding: outside the modelled fragment *)
  end.

Definition fold_unary_node (op : unop) (a : expr) : option expr :=
  match op, a with
  | UNeg, EInt n =>
      if in_vm_range n then
        match checked (- n) with
        | Some r => if in_vm_range r then Some (EInt r) else None
        | None => None
        end
      else None
  | UNot, EBool b => Some (EBool (negb b))
  | UBitNot, EInt n => if in_vm_range n then Some (EInt (- n - 1)) else None
  | _, _ => None
  end.

Definition fold_and_node (l r : expr) : option expr :=
  match l with
  | EBool false => Some (EBool false)
  | EBool true => Some r
  | _ => None
  end.
Definition fold_or_node (l r : expr) : option expr :=
  match l with
  | EBool true => Some (EBool true)
  | EBool false => Some r
  | _ => None
  end.

(* does the model contain a float literal operand (then the real folder may fold where the
   model does not: reported as fidelity, never as an alarm) *)
Definition node_has_float (l r : expr) : bool :=
  match l, r with
  | EFlt _, _ | _, EFlt _ => true
  | _, _ => false
  end.

(* bottom-up traversal (optimize_expr followed by try_fold at the node) *)
Fixpoint fold_expr (e : expr) : expr :=
  match e with
  | EBin op a b =>
      let a' := fold_expr a in let b' := fold_expr b in
      match fold_binary_node op a' b' with Some r => r | None => EBin op a' b' end
  | EUn op a =>
      let a' := fold_expr a in
      match fold_unary_node op a' with Some r => r | None => EUn op a' end
  | EAnd a b =>
      let a' := fold_expr a in let b' := fold_expr b in
      match fold_and_node a' b' with Some r => r | None => EAnd a' b' end
  | EOr a b =>
      let a' := fold_expr a in let b' := fold_expr b in
      match fold_or_node a' b' with Some r => r | None => EOr a' b' end
  | ECall f args => ECall (fold_expr f) (map fold_expr args)
  | EAssign x a => EAssign x (fold_expr a)
  | EIf c a b => EIf (fold_expr c) (fold_expr a) (fold_expr b)
  | EFmt parts =>
      EFmt (map (fun p => match p with PExpr a => PExpr (fold_expr a) | q => q end) parts)
  | ELam ps body => ELam ps (map fold_stmt body)
  | EMember o m => EMember (fold_expr o) m
  | EArr es => EArr (map fold_expr es)
  | EVec es => EVec (map fold_expr es)
  | EArrSized n => EArrSized (fold_expr n)
  | EIdx a i => EIdx (fold_expr a) (fold_expr i)
  | EIdxSet a i v => EIdxSet (fold_expr a) (fold_expr i) (fold_expr v)
  | EInt _ | EFlt _ | EBool _ | EStr _ | ENull | EVar _ | EOther _ => e
  end
with fold_stmt (s : stmt) : stmt :=
  match s with
  | SExpr e => SExpr (fold_expr e)
  | SLet x m e => SLet x m (fold_expr e)
  | SBlock b => SBlock (map fold_stmt b)
  | SIf c t e => SIf (fold_expr c) (fold_stmt t) (option_map fold_stmt e)
  | SWhile c b => SWhile (fold_expr c) (fold_stmt b)
  | SFor x lo hi incl step b => SFor x (fold_expr lo) (fold_expr hi) incl (option_map fold_expr step) (fold_stmt b)
  | SForEach x e b => SForEach x (fold_expr e) (fold_stmt b)
  | SRet e => SRet (option_map fold_expr e)
  | SFun n ps body d => SFun n ps (map fold_stmt body) d
  | SBreak | SCont | SOther _ => s
  end.

Definition fold_program (p : program) : program := map fold_stmt p.
