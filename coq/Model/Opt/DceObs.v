(* Fidelity codes for the ties of the DCE and fold models to the real passes:
   0 = the model pass produces exactly the real pass's output on this input, 1 = it differs. *)
From Coq Require Import ZArith NArith String List Bool.
From Aelys Require Import Model.Lang Model.LangEq Model.Opt.Dce Model.Opt.Fold.
(* 0: the implemented pass's model gives the real output and coincides with the proved variant (proc = has_lam) on
      this input (the preservation theorem applies); 2: gives the real output, but the proved
      variant differs (theorem does not apply to this input); 1: the model differs from the real pass *)
Definition dce_fid (p_in p_out : program) : N :=
  if program_eqb (dce_program (fun _ => false) p_in) p_out
  then (if program_eqb (dce_program (fun _ => false) p_in) (dce_program has_lam p_in) then 0%N else 2%N)
  else 1%N.
Definition fold_fid (p_in p_out : program) : N := if program_eqb (fold_program p_in) p_out then 0%N else 1%N.
