(* Fidelity codes for the tie of Model/Opt/GlobalProp.v to the real GlobalConstantPropagator:
   0 = exactly the real pass's output and something was substituted, 2 = exactly the real output,
   nothing substituted, 1 = differs. *)
From Coq Require Import ZArith NArith String List Bool.
From Aelys Require Import Model.Lang Model.LangEq Model.Opt.GlobalProp.
Definition gprop_fid (p_in p_out : program) : N :=
  if program_eqb (gprop_program false p_in) p_out
  then (if program_eqb p_in p_out then 2%N else 0%N)
  else 1%N.
Definition gprop_open_fid (p_in p_out : program) : N :=
  if program_eqb (gprop_program true p_in) p_out
  then (if program_eqb p_in p_out then 2%N else 0%N)
  else 1%N.
