(* Model of opt/src/passes/dead_code (stmt.rs, expr.rs) as repaired: constant `if` / ternary
   selection, `while false` removal, cutting a block after its first terminator, dropping empty
   blocks, with the rule that the LAST statement of a block keeps its shape (it decides the
   block's value), its branches included (`else if` arms).  Definitions only. *)
From Coq Require Import ZArith NArith String List Bool.
From Aelys Require Import Model.Lang.
Import ListNotations.

(* terminators: return, break, continue (nothing after them runs) *)
Fixpoint is_terminator (s : stmt) : bool :=
  match s with
  | SRet _ | SBreak | SCont => true
  | SBlock b =>
      (fix last_term (l : list stmt) : bool :=
         match l with
         | [] => false
         | [x] => is_terminator x
         | _ :: r => last_term r
         end) b
  | SIf _ t (Some e) => is_terminator t && is_terminator e
  | _ => false
  end.

Fixpoint last_term (l : list stmt) : bool :=
  match l with
  | [] => false
  | [x] => is_terminator x
  | _ :: r => last_term r
  end.

Definition const_bool (e : expr) : option bool :=
  match e with EBool b => Some b | _ => None end.

(* `*stmt = inner[0]` for a single non-declaring statement, else the (block) branch itself *)
Definition unwrap (branch : stmt) : stmt :=
  match branch with
  | SBlock [s] => if declares s then branch else s
  | _ => branch
  end.

(* cut off everything after a terminator *)
Fixpoint cut (l : list stmt) : list stmt :=
  match l with
  | [] => []
  | s :: r => if is_terminator s then [s] else s :: cut r
  end.

Definition is_empty_block (s : stmt) : bool :=
  match s with SBlock [] => true | _ => false end.

(* remove empty blocks, except in last position *)
Fixpoint drop_empty (l : list stmt) : list stmt :=
  match l with
  | [] => []
  | [s] => [s]
  | s :: r => if is_empty_block s then drop_empty r else s :: drop_empty r
  end.

Definition post (l : list stmt) : list stmt := drop_empty (cut l).

(* The pass as implemented leaves some expression positions alone: conditions of statement-level
   if / while, for bounds and steps, for-each iterables, return expressions.  [proc e] says
   whether such a position is rewritten after all: [fun _ => false] is the implemented pass,
   [fun _ => true] the idealised one, [has_lam] the variant the preservation proof is about (it
   rewrites such a position only when it contains a lambda, whose body must then be rewritten
   like every other closure body).  Wherever those positions contain nothing to rewrite, all
   variants are the same function. *)
Fixpoint has_lam (e : expr) : bool :=
  match e with
  | ELam _ _ => true
  | EBin _ a b | EAnd a b | EOr a b | EIdx a b => has_lam a || has_lam b
  | EUn _ a | EAssign _ a | EArrSized a | EMember a _ => has_lam a
  | EIf c a b | EIdxSet c a b => has_lam c || has_lam a || has_lam b
  | ECall f args => has_lam f || existsb has_lam args
  | EFmt parts => existsb (fun p => match p with PExpr a => has_lam a | _ => false end) parts
  | EArr es | EVec es => existsb has_lam es
  | EInt _ | EFlt _ | EBool _ | EStr _ | ENull | EVar _ | EOther _ => false
  end.

Section Dce.
Variable proc : expr -> bool.

Fixpoint dce_expr (e : expr) : expr :=
  match e with
  | EIf c a b =>
      match const_bool c with
      | Some true => dce_expr a
      | Some false => dce_expr b
      | None => EIf (dce_expr c) (dce_expr a) (dce_expr b)
      end
  | EBin op a b => EBin op (dce_expr a) (dce_expr b)
  | EUn op a => EUn op (dce_expr a)
  | EAnd a b => EAnd (dce_expr a) (dce_expr b)
  | EOr a b => EOr (dce_expr a) (dce_expr b)
  | ECall f args => ECall (dce_expr f) (map dce_expr args)
  | EAssign x a => EAssign x (dce_expr a)
  | EFmt parts => EFmt (map (fun p => match p with PExpr a => PExpr (dce_expr a) | q => q end) parts)
  | ELam ps body =>
      ELam ps (post ((fix go (l : list stmt) : list stmt :=
                        match l with
                        | [] => []
                        | [s] => [dce_tail s]
                        | s :: r => dce_stmt s :: go r
                        end) body))
  | EMember o m => EMember (dce_expr o) m
  | EArr es => EArr (map dce_expr es)
  | EVec es => EVec (map dce_expr es)
  | EArrSized n => EArrSized (dce_expr n)
  | EIdx a i => EIdx (dce_expr a) (dce_expr i)
  | EIdxSet a i v => EIdxSet (dce_expr a) (dce_expr i) (dce_expr v)
  | EInt _ | EFlt _ | EBool _ | EStr _ | ENull | EVar _ | EOther _ => e
  end

(* a statement that is not the last of its block *)
with dce_stmt (s : stmt) : stmt :=
  match s with
  | SBlock b =>
      SBlock (post ((fix go (l : list stmt) : list stmt :=
                       match l with
                       | [] => []
                       | [x] => [dce_tail x]
                       | x :: r => dce_stmt x :: go r
                       end) b))
  | SIf c t e =>
      match const_bool c with
      | Some true => unwrap (dce_stmt t)
      | Some false =>
          match e with
          | Some e' => unwrap (dce_stmt e')
          | None => SBlock []
          end
      | None => SIf (if proc c then dce_expr c else c) (dce_stmt t) (option_map dce_stmt e)
      end
  | SWhile c b =>
      match const_bool c with
      | Some false => SBlock []
      | _ => SWhile (if proc c then dce_expr c else c) (dce_stmt b)
      end
  | SFor x lo hi incl step b =>
      SFor x (if proc lo then dce_expr lo else lo) (if proc hi then dce_expr hi else hi) incl
           (option_map (fun x => if proc x then dce_expr x else x) step) (dce_stmt b)
  | SForEach x e b => SForEach x (if proc e then dce_expr e else e) (dce_stmt b)
  | SFun n ps body d =>
      SFun n ps (post ((fix go (l : list stmt) : list stmt :=
                          match l with
                          | [] => []
                          | [x] => [dce_tail x]
                          | x :: r => dce_stmt x :: go r
                          end) body)) d
  | SExpr e => SExpr (dce_expr e)
  | SLet x m e => SLet x m (dce_expr e)
  | SRet e => SRet (option_map (fun x => if proc x then dce_expr x else x) e)
  | SBreak | SCont | SOther _ => s
  end

(* the last statement of a block: only its children are rewritten *)
with dce_tail (s : stmt) : stmt :=
  match s with
  | SIf c t e => SIf (if proc c then dce_expr c else c) (dce_tail t) (option_map dce_tail e)
  | SWhile c b => SWhile (if proc c then dce_expr c else c) (dce_stmt b)
  | SBlock b =>
      SBlock (post ((fix go (l : list stmt) : list stmt :=
                       match l with
                       | [] => []
                       | [x] => [dce_tail x]
                       | x :: r => dce_stmt x :: go r
                       end) b))
  | SFor x lo hi incl step b =>
      SFor x (if proc lo then dce_expr lo else lo) (if proc hi then dce_expr hi else hi) incl
           (option_map (fun x => if proc x then dce_expr x else x) step) (dce_stmt b)
  | SForEach x e b => SForEach x (if proc e then dce_expr e else e) (dce_stmt b)
  | SFun n ps body d =>
      SFun n ps (post ((fix go (l : list stmt) : list stmt :=
                          match l with
                          | [] => []
                          | [x] => [dce_tail x]
                          | x :: r => dce_stmt x :: go r
                          end) body)) d
  | SExpr e => SExpr (dce_expr e)
  | SLet x m e => SLet x m (dce_expr e)
  | SRet e => SRet (option_map (fun x => if proc x then dce_expr x else x) e)
  | SBreak | SCont | SOther _ => s
  end.

Fixpoint dce_list (l : list stmt) : list stmt :=
  match l with
  | [] => []
  | [s] => [dce_tail s]
  | s :: r => dce_stmt s :: dce_list r
  end.

(* eliminate_in_block *)
Definition dce_block (l : list stmt) : list stmt := post (dce_list l).

Definition dce_program (p : program) : program := dce_block p.
End Dce.
