(* Fidelity codes for the tie of Model/Opt/LocalProp.v to the real LocalConstantPropagator:
   0 = exactly the real pass's output and something changed, 2 = exactly the real output, nothing
   changed, 1 = differs. *)
From Coq Require Import ZArith NArith String List Bool.
From Aelys Require Import Model.Lang Model.LangEq Model.Opt.LocalProp Model.Opt.Fold.
Definition lprop_fid (p_in p_out : program) : N :=
  if program_eqb (lprop_program false p_in) p_out
  then (if program_eqb p_in p_out then 2%N else 0%N)
  else 1%N.
Definition lprop_open_fid (p_in p_out : program) : N :=
  if program_eqb (lprop_program true p_in) p_out
  then (if program_eqb p_in p_out then 2%N else 0%N)
  else 1%N.
Definition foldpass_fid (p_in p_out : program) : N :=
  if program_eqb (fold_program p_in) p_out
  then (if program_eqb p_in p_out then 2%N else 0%N)
  else 1%N.
