(* Codes for the C01 folder-kernel tie (tools/props/c01.py). *)
From Coq Require Import ZArith NArith String List Bool.
From Aelys Require Import Model.Lang Model.Eval Extracted.OptConsts Model.Opt.Fold.
Import ListNotations.
Local Open Scope Z_scope.

(* what the real folder produced on `lit a op lit b`: Some literal | None (left alone) *)
Definition lit_eqb (x y : expr) : bool :=
  match x, y with
  | EInt a, EInt b => a =? b
  | EBool a, EBool b => Bool.eqb a b
  | EStr a, EStr b => String.eqb a b
  | _, _ => false
  end.

Definition value_of_lit (e : expr) : option value :=
  match e with
  | EInt n => Some (VInt (wrap48 n)) | EBool b => Some (VBool b) | EStr s => Some (VStr s) | _ => None
  end.
Definition value_eqb' (a b : value) : bool :=
  match a, b with
  | VInt x, VInt y => x =? y
  | VBool x, VBool y => Bool.eqb x y
  | VStr x, VStr y => String.eqb x y
  | _, _ => false
  end.

(* soundness code: 0 = folder left the node alone, or its literal equals what the evaluator
   computes and is representable exactly; 1 = UNSOUND fold.
   fidelity (second digit): 0 = same decision as the model folder, 1 = different. *)
Definition fold_bin_code (op : binop) (a b : Z) (real : option expr) : N :=
  let model := fold_int_binary op a b in
  let fid : N := match real, model with
                 | None, None => 0%N
                 | Some x, Some y => if lit_eqb x y then 0%N else 1%N
                 | _, _ => 1%N
                 end in
  let sound : N :=
    match real with
    | None => 0%N
    | Some lit =>
        match value_of_lit lit, int_binop op (wrap48 a) (wrap48 b) with
        | Some v, ROk w =>
            (* operands must be exactly representable too: a literal outside the 48-bit range
               wraps at run time, so folding on the unwrapped value is unsound unless equal *)
            if value_eqb' v w && (match lit with EInt n => wrap48 n =? n | _ => true end) then 0%N else 1%N
        | _, _ => 1%N
        end
    end in
  (sound * 10 + fid)%N.

Definition fold_un_code (op : unop) (a : Z) (real : option expr) : N :=
  let model := fold_unary_node op (EInt a) in
  let fid : N := match real, model with
                 | None, None => 0%N
                 | Some x, Some y => if lit_eqb x y then 0%N else 1%N
                 | _, _ => 1%N
                 end in
  let sound : N :=
    match real with
    | None => 0%N
    | Some lit =>
        match value_of_lit lit, eval_unop op (VInt (wrap48 a)) with
        | Some v, ROk w => if value_eqb' v w && (match lit with EInt n => wrap48 n =? n | _ => true end) then 0%N else 1%N
        | _, _ => 1%N
        end
    end in
  (sound * 10 + fid)%N.
