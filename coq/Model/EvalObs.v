(* Observation of evaluator outcomes for the C01/C02 ties. *)
From Coq Require Import ZArith NArith String List Bool.
From Aelys Require Import Model.Lang Model.Eval.
Import ListNotations.
Local Open Scope N_scope.

(* class codes shared with tools/props/c02.py *)
Definition err_code (k : errkind) : N :=
  match k with
  | EDivZero => 1 | EType => 2 | EIndex => 3 | EUndefined => 4 | ENotCallable => 5
  | EArity => 6 | EStackOverflow => 7 | EUnsupported => 100
  end.
Definition class_code (c : outcome_class) : N :=
  match c with OcOk => 0 | OcErr k => err_code k | OcFuel => 101 end.

Definition obs := (N * string * string)%type.
Definition obs_of (o : outcome) : obs :=
  (class_code (oc_class o), oc_output o, match oc_class o with OcOk => oc_value o | _ => EmptyString end).
Definition obs_eqb (a b : obs) : bool :=
  let '(ca, oa, va) := a in let '(cb, ob, vb) := b in
  (* a float final value is not rendered by the model (no shortest-round-trip printer): the
     value is then not compared *)
  (ca =? cb) && String.eqb oa ob && (String.eqb va vb || String.eqb va "<float>" || String.eqb vb "<float>").

Definition FUEL : nat := N.to_nat 6000.

(* 0 agree, 1 differ, 2 model out of fuel, 3 program outside the modelled fragment *)
Definition c02_code (p : program) (impl : obs) : N :=
  let o := obs_of (run_program FUEL p) in
  match fst (fst o) with
  | 101 => 2
  | 100 => 3
  | _ => if obs_eqb o impl then 0 else 1
  end.

(* one model run against the implementation's observations at several levels: decimal digits,
   most significant first, one digit per level *)
Definition c02_codes (p : program) (impls : list obs) : N :=
  let o := obs_of (run_program FUEL p) in
  let one impl :=
    match fst (fst o) with
    | 101 => 2
    | 100 => 3
    | _ => if obs_eqb o impl then 0 else 1
    end in
  fold_left (fun acc impl => acc * 10 + one impl) impls 1.

(* C01 (observational, on the model's semantics): the optimised AST against the original.
   0 equivalent, 1 different, 2 fuel, 3 outside fragment,
   4 allowed relaxation: the unoptimised run failed, the optimised run's output extends it *)
Definition prefixb (a b : string) : bool := String.prefix a b.
Definition c01_code (p0 pL : program) : N :=
  let o0 := obs_of (run_program FUEL p0) in
  let oL := obs_of (run_program FUEL pL) in
  let c0 := fst (fst o0) in let cL := fst (fst oL) in
  if (c0 =? 101) || (cL =? 101) then 2
  else if (c0 =? 100) || (cL =? 100) then 3
  else if obs_eqb o0 oL then 0
  else if negb (c0 =? 0) && prefixb (snd (fst o0)) (snd (fst oL)) then 4
  else 1.
