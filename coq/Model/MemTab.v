(* The program-facing surfaces once more, this time DRIVEN BY THE TABLES the translator regenerates
   from builtins.rs / memory.inc on every run (Extracted/MemChecks.v): which operand is checked for
   what, in which order, with which error.  Proofs/ManualHeapProofs.v shows that this table-driven
   step is the hand-written [vm_step] for all inputs, so a change of a guard, of the order of two
   checks or of an error kind in the source breaks a proof (and not only the end-to-end tie). *)
From Coq Require Import NArith ZArith Bool List.
From Aelys Require Import Extracted.ManualMem Extracted.MemChecks Model.ManualHeap.
Import ListNotations.
Local Open Scope N_scope.

Definition ekind_of_code (c : N) : option ekind :=
  match c with
  | 10 => Some EInvalidSize | 11 => Some EInvalidHandle | 12 => Some EDoubleFree | 13 => Some EUseAfterFree
  | 14 => Some EOutOfBounds | 15 => Some ENegativeIndex | 16 => Some ETypeError | 17 => Some EOutOfMemory
  | _ => None
  end.

Inductive chk_out := CPass | CErr (e : ekind) | CRet | CBadTable.

Definition cerr (c : N) : chk_out := match ekind_of_code c with Some e => CErr e | None => CBadTable end.

Definition run_check (kind code : N) (a : varg) : chk_out :=
  match kind, a with
  | 0, AInt _ => CPass
  | 0, _ => cerr code
  | 1, AInt z => if (z <? 0)%Z then cerr code else CPass
  | 2, AInt z => if (z <=? 0)%Z then cerr code else CPass
  | 3, ANull => CRet
  | 3, _ => CPass
  | 4, AInt z => if (z <? 0)%Z then cerr code else CPass
  | 4, _ => cerr code
  | 5, AInt z => if (z <? 0)%Z then CRet else CPass
  | 5, ANull => CRet
  | 5, AOther => cerr code
  | 6, AInt z => if (z <? 0)%Z then cerr code else CPass
  | 6, ANull => CRet
  | 6, AOther => cerr code
  | 7, AInt z => if (z <? 0)%Z then CRet else CPass
  | 7, _ => CRet
  | 8, AInt _ => CPass
  | 8, _ => cerr code
  | _, _ => CBadTable          (* a comparison on an operand that was never converted to an int, unknown kind *)
  end.

Fixpoint run_checks (cs : list (N * N * N)) (args : list varg) : chk_out :=
  match cs with
  | [] => CPass
  | (i, k, c) :: r =>
      match nth_error args (N.to_nat i) with
      | None => CBadTable
      | Some a => match run_check k c a with CPass => run_checks r args | out => out end
      end
  end.

Definition opnum (o : vop) : N := match o with VAlloc _ => 0 | VFree _ => 1 | VLoad _ _ => 2 | VStore _ _ _ => 3 end.
Definition args_of (o : vop) : list varg :=
  match o with VAlloc a | VFree a => [a] | VLoad h off => [h; off] | VStore h off _ => [h; off] end.

Fixpoint assoc_N {A} (l : list (N * A)) (k : N) : option A :=
  match l with [] => None | (x, v) :: r => if x =? k then Some v else assoc_N r k end.

(* the general (register-operand) form of each operation: Alloc 28, Free 29, LoadMem 30, StoreMem 32 *)
Definition general_opcode (op : N) : N := match op with 0 => 28 | 1 => 29 | 2 => 30 | _ => 32 end.

Definition checks_for (sf : surface) (op : N) : option (list (N * N * N)) :=
  match sf with
  | SBuiltin => assoc_N builtin_checks op
  | SOpcode =>
      match assoc_N (map (fun t => let '(n, o, cs) := t in (n, (o, cs))) opcode_checks) (general_opcode op) with
      | Some (o, cs) => if o =? op then Some cs else None
      | None => None
      end
  end.

Definition vm_step_tab (sf : surface) (maxh gc : N) (s : mheap) (o : vop) : mheap * mres :=
  match checks_for sf (opnum o) with
  | None => (s, RPanic)
  | Some cs =>
      match run_checks cs (args_of o) with
      | CErr e => (s, RErr e)
      | CRet => (s, ROkUnit)
      | CBadTable => (s, RPanic)
      | CPass =>
          match o with
          | VAlloc (AInt z) => vm_manual_alloc maxh gc s (Z.to_N z)
          | VFree (AInt z) => mh_free s (Z.to_N z)
          | VLoad (AInt h) (AInt off) => (s, mh_load s (Z.to_N h) (Z.to_N off))
          | VStore (AInt h) (AInt off) v => mh_store s (Z.to_N h) (Z.to_N off) v
          | _ => (s, RPanic)
          end
      end
  end.

(* the immediate-offset forms (LoadMemI 31, StoreMemI 33) check the handle exactly as the general forms do;
   VM::manual_heap_error maps every ManualHeapError to the RuntimeErrorKind of the same name *)
Definition source_tables_ok : bool :=
  match assoc_N (map (fun t => let '(n, o, cs) := t in (n, (o, cs))) opcode_checks) 30,
        assoc_N (map (fun t => let '(n, o, cs) := t in (n, (o, cs))) opcode_checks) 31,
        assoc_N (map (fun t => let '(n, o, cs) := t in (n, (o, cs))) opcode_checks) 32,
        assoc_N (map (fun t => let '(n, o, cs) := t in (n, (o, cs))) opcode_checks) 33 with
  | Some (2, c30), Some (2, c31), Some (3, c32), Some (3, c33) =>
      let eqc := fun a b : N * N * N => let '(i, k, e) := a in let '(i', k', e') := b in (i =? i') && (k =? k') && (e =? e') in
      match c30, c31, c32, c33 with
      | x :: _, [y], z :: _, [w] => eqc x y && eqc z w
      | _, _, _, _ => false
      end
  | _, _, _, _ => false
  end
  && forallb (fun p => fst p =? snd p) heap_error_map
  && (N.of_nat (length heap_error_map) =? 5).
