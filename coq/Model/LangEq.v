(* Boolean equality on the abstract syntax (used by the fidelity ties: model pass output vs the
   real pass output on the same input). *)
From Coq Require Import ZArith NArith String List Bool.
From Aelys Require Import Model.Lang.
Import ListNotations.

Definition binop_tag (o : binop) : N :=
  match o with
  | BAdd => 0 | BSub => 1 | BMul => 2 | BDiv => 3 | BMod => 4 | BEq => 5 | BNe => 6 | BLt => 7
  | BLe => 8 | BGt => 9 | BGe => 10 | BShl => 11 | BShr => 12 | BBitAnd => 13 | BBitOr => 14 | BBitXor => 15
  end%N.
Definition unop_tag (o : unop) : N := match o with UNeg => 0 | UNot => 1 | UBitNot => 2 end%N.

Definition param_eqb (a b : string * bool) : bool := String.eqb (fst a) (fst b) && Bool.eqb (snd a) (snd b).

Fixpoint list_eqb {A} (eq : A -> A -> bool) (l1 l2 : list A) : bool :=
  match l1, l2 with
  | [], [] => true
  | x :: r1, y :: r2 => eq x y && list_eqb eq r1 r2
  | _, _ => false
  end.

Fixpoint expr_eqb (a b : expr) {struct a} : bool :=
  match a, b with
  | EInt x, EInt y => Z.eqb x y
  | EFlt x, EFlt y => N.eqb x y
  | EBool x, EBool y => Bool.eqb x y
  | EStr x, EStr y => String.eqb x y
  | ENull, ENull => true
  | EVar x, EVar y => String.eqb x y
  | EBin o1 a1 b1, EBin o2 a2 b2 => N.eqb (binop_tag o1) (binop_tag o2) && expr_eqb a1 a2 && expr_eqb b1 b2
  | EUn o1 a1, EUn o2 a2 => N.eqb (unop_tag o1) (unop_tag o2) && expr_eqb a1 a2
  | EAnd a1 b1, EAnd a2 b2 => expr_eqb a1 a2 && expr_eqb b1 b2
  | EOr a1 b1, EOr a2 b2 => expr_eqb a1 a2 && expr_eqb b1 b2
  | ECall f1 as1, ECall f2 as2 =>
      expr_eqb f1 f2 &&
      (fix go (l1 l2 : list expr) : bool :=
         match l1, l2 with
         | [], [] => true
         | x :: r1, y :: r2 => expr_eqb x y && go r1 r2
         | _, _ => false
         end) as1 as2
  | EAssign x1 a1, EAssign x2 a2 => String.eqb x1 x2 && expr_eqb a1 a2
  | EIf c1 a1 b1, EIf c2 a2 b2 => expr_eqb c1 c2 && expr_eqb a1 a2 && expr_eqb b1 b2
  | EFmt p1, EFmt p2 =>
      (fix go (l1 l2 : list fpart) : bool :=
         match l1, l2 with
         | [], [] => true
         | PLit s1 :: r1, PLit s2 :: r2 => String.eqb s1 s2 && go r1 r2
         | PExpr e1 :: r1, PExpr e2 :: r2 => expr_eqb e1 e2 && go r1 r2
         | PHole :: r1, PHole :: r2 => go r1 r2
         | _, _ => false
         end) p1 p2
  | ELam ps1 b1, ELam ps2 b2 =>
      list_eqb param_eqb ps1 ps2 &&
      (fix go (l1 l2 : list stmt) : bool :=
         match l1, l2 with
         | [], [] => true
         | x :: r1, y :: r2 => stmt_eqb x y && go r1 r2
         | _, _ => false
         end) b1 b2
  | EMember o1 m1, EMember o2 m2 => expr_eqb o1 o2 && String.eqb m1 m2
  | EArr l1, EArr l2 | EVec l1, EVec l2 =>
      (fix go (l1 l2 : list expr) : bool :=
         match l1, l2 with
         | [], [] => true
         | x :: r1, y :: r2 => expr_eqb x y && go r1 r2
         | _, _ => false
         end) l1 l2
  | EArrSized n1, EArrSized n2 => expr_eqb n1 n2
  | EIdx a1 i1, EIdx a2 i2 => expr_eqb a1 a2 && expr_eqb i1 i2
  | EIdxSet a1 i1 v1, EIdxSet a2 i2 v2 => expr_eqb a1 a2 && expr_eqb i1 i2 && expr_eqb v1 v2
  | EOther k1, EOther k2 => String.eqb k1 k2
  | _, _ => false
  end
with stmt_eqb (a b : stmt) {struct a} : bool :=
  match a, b with
  | SExpr e1, SExpr e2 => expr_eqb e1 e2
  | SLet x1 m1 e1, SLet x2 m2 e2 => String.eqb x1 x2 && Bool.eqb m1 m2 && expr_eqb e1 e2
  | SBlock b1, SBlock b2 =>
      (fix go (l1 l2 : list stmt) : bool :=
         match l1, l2 with
         | [], [] => true
         | x :: r1, y :: r2 => stmt_eqb x y && go r1 r2
         | _, _ => false
         end) b1 b2
  | SIf c1 t1 e1, SIf c2 t2 e2 =>
      expr_eqb c1 c2 && stmt_eqb t1 t2 &&
      match e1, e2 with
      | None, None => true
      | Some x, Some y => stmt_eqb x y
      | _, _ => false
      end
  | SWhile c1 b1, SWhile c2 b2 => expr_eqb c1 c2 && stmt_eqb b1 b2
  | SFor x1 lo1 hi1 i1 s1 b1, SFor x2 lo2 hi2 i2 s2 b2 =>
      String.eqb x1 x2 && expr_eqb lo1 lo2 && expr_eqb hi1 hi2 && Bool.eqb i1 i2 &&
      match s1, s2 with
      | None, None => true
      | Some x, Some y => expr_eqb x y
      | _, _ => false
      end && stmt_eqb b1 b2
  | SForEach x1 e1 b1, SForEach x2 e2 b2 => String.eqb x1 x2 && expr_eqb e1 e2 && stmt_eqb b1 b2
  | SRet None, SRet None => true
  | SRet (Some e1), SRet (Some e2) => expr_eqb e1 e2
  | SBreak, SBreak | SCont, SCont => true
  | SFun n1 p1 b1 d1, SFun n2 p2 b2 d2 =>
      String.eqb n1 n2 && list_eqb param_eqb p1 p2 &&
      (fix go (l1 l2 : list stmt) : bool :=
         match l1, l2 with
         | [], [] => true
         | x :: r1, y :: r2 => stmt_eqb x y && go r1 r2
         | _, _ => false
         end) b1 b2 && list_eqb String.eqb d1 d2
  | SOther k1, SOther k2 => String.eqb k1 k2
  | _, _ => false
  end.

Fixpoint program_eqb (p q : list stmt) : bool :=
  match p, q with
  | [], [] => true
  | x :: r1, y :: r2 => stmt_eqb x y && program_eqb r1 r2
  | _, _ => false
  end.
