(* C03 -- model of the mark/sweep collector of aelys_bytecode::Heap (bytecode/src/heap/gc.rs,
   alloc.rs) and of the root loop of VM::collect (runtime/src/vm/gc.rs).

   The heap is the slot vector `objects : Vec<Option<GcObject>>` plus the free list.  An object
   is its kind with exactly the fields that hold heap references, and a digest standing for the
   rest of its contents.  The mark bit is not part of the object: it is the set `m` threaded
   through `mark_loop` (all bits are clear outside a collection; the tie checks that).

   Two edge functions:
     edges_code o  -- the references Heap::mark pushes on its worklist for o (one match arm each);
                      since /repo ad6fcd1 the Function arm walks nested_functions recursively
     edges_spec o  -- every heap reference stored in o, including the constants of nested,
                      not yet instantiated functions at any depth (what Function::remap_constants
                      rewrites, what verify_constants/LoadK/MakeClosure later dereference).
     edges_old o   -- HISTORICAL: Heap::mark before ad6fcd1 (Function arm: own constants only);
                      kept so that the defect the repair removed stays documented and checked.
   Only the SET of edges of an object matters for every statement and for the tie (survivors,
   free list); the order in which the Rust loop pushes them is not claimed. *)
From Coq Require Import NArith Bool List.
Import ListNotations.
Local Open Scope N_scope.

(* constant-pool pointers of a bytecode function and of its nested functions *)
Inductive fnc := FnC (own : list N) (nested : list fnc).

Inductive obj :=
| OString (d : N)
| OFunction (d : N) (f : fnc)
| ONative (d : N)
| OUpvalue (d : N) (closed : option N)      (* Some p: Closed(v) with v a pointer *)
| OClosure (d : N) (fn : N) (upvals : list N)
| OArray (d : N) (elems : list N)           (* pointer elements of Objects storage *)
| OVec (d : N) (elems : list N).

Definition fnc_own (f : fnc) : list N := match f with FnC own _ => own end.
Fixpoint fnc_all (f : fnc) : list N :=
  match f with FnC own ns => own ++ flat_map fnc_all ns end.

(* Heap::mark, `match &obj.kind` *)
Definition edges_code (o : obj) : list N :=
  match o with
  | OFunction _ f => fnc_all f
  | OClosure _ fn ups => fn :: ups
  | OUpvalue _ (Some p) => [p]
  | OUpvalue _ None => []
  | OString _ | ONative _ => []
  | OArray _ es => es
  | OVec _ es => es
  end.

Definition edges_spec (o : obj) : list N :=
  match o with
  | OFunction _ f => fnc_all f
  | OClosure _ fn ups => fn :: ups
  | OUpvalue _ (Some p) => [p]
  | OUpvalue _ None => []
  | OString _ | ONative _ => []
  | OArray _ es => es
  | OVec _ es => es
  end.

(* HISTORICAL: Heap::mark before /repo ad6fcd1 *)
Definition edges_old (o : obj) : list N :=
  match o with
  | OFunction _ f => fnc_own f
  | _ => edges_code o
  end.

Record heap := mkHeap { slots : list (option obj); free : list N (* head = next to be reused *) }.

(* Heap::get *)
Definition get (h : heap) (i : N) : option obj :=
  match nth_error (slots h) (N.to_nat i) with
  | Some (Some o) => Some o
  | _ => None
  end.

Definition mem (i : N) (m : list N) : bool := existsb (N.eqb i) m.

(* Heap::mark: pop; skip dead/out-of-range/already marked; else mark and push the edges.
   The Rust worklist is a Vec used as a stack (head of this list = its last element).
   None = out of fuel. *)
Fixpoint mark_loop (E : obj -> list N) (fuel : nat) (h : heap) (m wl : list N) : option (list N) :=
  match wl with
  | [] => Some m
  | r :: wl' =>
      match fuel with
      | O => None
      | S k =>
          match get h r with
          | None => mark_loop E k h m wl'
          | Some o =>
              if mem r m then mark_loop E k h m wl'
              else mark_loop E k h (r :: m) (rev (E o) ++ wl')
          end
      end
  end.

(* VM::collect: one Heap::mark per root, marks accumulate *)
Fixpoint mark_roots (E : obj -> list N) (fuel : nat) (h : heap) (m roots : list N) : option (list N) :=
  match roots with
  | [] => Some m
  | r :: rs =>
      match mark_loop E fuel h m [r] with
      | Some m' => mark_roots E fuel h m' rs
      | None => None
      end
  end.

Definition slot_edges (E : obj -> list N) (s : option obj) : nat :=
  match s with Some o => length (E o) | None => 0%nat end.
Definition total_edges (E : obj -> list N) (h : heap) : nat :=
  fold_right (fun s a => (slot_edges E s + a)%nat) 0%nat (slots h).

(* #objects + #edges (+1 for the root itself) *)
Definition fuel_bound (E : obj -> list N) (h : heap) : nat :=
  S (length (slots h) + total_edges E h).

(* Heap::sweep: unmarked objects are dropped, their indices pushed on the free list in
   ascending order (so the last one is reused first) *)
Fixpoint sweep_slots (s : list (option obj)) (i : N) (m : list N) : list (option obj) :=
  match s with
  | [] => []
  | x :: t =>
      (match x with
       | Some o => if mem i m then Some o else None
       | None => None
       end) :: sweep_slots t (N.succ i) m
  end.

Fixpoint freed_slots (s : list (option obj)) (i : N) (m : list N) : list N :=
  match s with
  | [] => []
  | x :: t =>
      match x with
      | Some _ => if mem i m then freed_slots t (N.succ i) m else i :: freed_slots t (N.succ i) m
      | None => freed_slots t (N.succ i) m
      end
  end.

Definition sweep (h : heap) (m : list N) : heap :=
  mkHeap (sweep_slots (slots h) 0 m) (rev (freed_slots (slots h) 0 m) ++ free h).

Definition collect_with (E : obj -> list N) (h : heap) (roots : list N) : option heap :=
  match mark_roots E (fuel_bound E h) h [] roots with
  | Some m => Some (sweep h m)
  | None => None
  end.

(* the collector as it is *)
Definition mark (h : heap) (roots : list N) : option (list N) :=
  mark_roots edges_code (fuel_bound edges_code h) h [] roots.
Definition collect (h : heap) (roots : list N) : option heap := collect_with edges_code h roots.

(* Heap::alloc: reuse the most recently freed slot, else grow *)
Fixpoint set_slot (s : list (option obj)) (n : nat) (o : obj) : list (option obj) :=
  match s, n with
  | [], _ => []
  | _ :: t, O => Some o :: t
  | x :: t, S k => x :: set_slot t k o
  end.

Definition alloc (h : heap) (o : obj) : heap * N :=
  match free h with
  | i :: rest => (mkHeap (set_slot (slots h) (N.to_nat i) o) rest, i)
  | [] => (mkHeap (slots h ++ [Some o]) [], N.of_nat (length (slots h)))
  end.

(* ---- specification side -------------------------------------------------------------- *)
(* live objects reachable from the roots along E-edges (reflexive-transitive closure) *)
Inductive reach (E : obj -> list N) (h : heap) (roots : list N) : N -> Prop :=
| reach_root : forall r o, In r roots -> get h r = Some o -> reach E h roots r
| reach_step : forall i o j o', reach E h roots i -> get h i = Some o -> In j (E o) ->
                                get h j = Some o' -> reach E h roots j.

Definition reachable_spec := reach edges_spec.
Definition reachable_code := reach edges_code.

(* ---- observation for the heap-graph tie ---------------------------------------------- *)
Fixpoint live_from (s : list (option obj)) (i : N) : list N :=
  match s with
  | [] => []
  | Some _ :: t => i :: live_from t (N.succ i)
  | None :: t => live_from t (N.succ i)
  end.
Definition live (h : heap) : list N := live_from (slots h) 0.

Fixpoint insert_sorted (x : N) (l : list N) : list N :=
  match l with
  | [] => [x]
  | y :: t => if x <=? y then x :: l else y :: insert_sorted x t
  end.
Definition sort (l : list N) : list N := fold_right insert_sorted [] l.

Inductive gcq := QCollect (h : heap) (roots : list N).

(* [survivors ascending; free list after, next-to-reuse first; objects reachable per the
   specification's edges, ascending]; [[0];[0];[0]]-free marker list for "out of fuel" *)
Definition gc_obs (q : gcq) : list (list N) :=
  match q with
  | QCollect h roots =>
      match collect h roots, mark_roots edges_spec (fuel_bound edges_spec h) h [] roots with
      | Some h', Some ms => [live h'; free h'; sort ms]
      | _, _ => []
      end
  end.

Definition nlist_eqb (a b : list N) : bool :=
  (fix go a b := match a, b with
                 | [], [] => true
                 | x :: a', y :: b' => N.eqb x y && go a' b'
                 | _, _ => false
                 end) a b.
Definition obs_eqb (a b : list (list N)) : bool :=
  (fix go a b := match a, b with
                 | [], [] => true
                 | x :: a', y :: b' => nlist_eqb x y && go a' b'
                 | _, _ => false
                 end) a b.
