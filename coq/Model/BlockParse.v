(* C15 (parser half): Parser::block_expression (frontend/src/parser/expr/atom.rs), the parser of a
   value block `{ ... }` of an if-expression, over the block's content abstracted to a list of
   items up to the closing `}`:
     BExpr k   one complete expression whose first token has kind k
     BSemi     a TSemicolon token (written, or inserted by the lexer for a newline)
     BTerm     one complete statement that is not an expression and ends with consume_semicolon
               (let / return / break / continue), without its terminator
     BBlock    one complete statement that ends with its own `}` (while / for)
   The loop, as it is after b7be80a and 2fc971b:
     while not `}`:
       if is_expression_start():  e = expression()
            if `}` follows           -> EXIT with value e
            consume_semicolon()      (`;` is consumed; `}` is accepted; anything else is an error)
            skip further `;`; if `}` follows -> EXIT with value e
            else e is pushed as an expression statement
       else if `;`: skip it
       else declaration() is pushed   (an expression whose first kind is not listed ends up here)
     `}` reached -> EXIT with null
   At every EXIT reject_statements_before_value: if any statement was pushed the block is
   rejected ("expected a single expression in the block of an if-expression") -- the block of an
   if-expression is a single expression, there is no node that could carry statements.
   Not modelled: two items written next to each other without a `;` where the second could
   continue the first as one expression (`a (b)` is a call, `a - b` a subtraction); the model
   answers ParseError for every missing separator, the tie does not generate those texts. *)
From Coq Require Import Bool List Arith.
From Aelys Require Import Extracted.AsiTokens Extracted.ParserSets.
Import ListNotations.

Inductive bitem := BExpr (k : tkind) | BSemi | BTerm | BBlock.
Inductive bresult := Value (nth_expression : nat) | Null | ParseError.

(* last = the expression item that is the block's value if only `;` follow (not yet pushed);
   need_sep = the previous item still needs its `;` (or the closing `}`); i = expression items
   seen so far; pushed = statements pushed so far *)
Definition pending_stmt (last : option nat) : nat := match last with Some _ => 1 | None => 0 end.
Fixpoint block_go (l : list bitem) (last : option nat) (need_sep : bool) (i pushed : nat) : bresult :=
  match l with
  | [] => if Nat.eqb pushed 0
          then match last with Some j => Value j | None => Null end
          else ParseError
  | BSemi :: r => block_go r last false i pushed
  | BExpr k :: r =>
      if need_sep then ParseError
      else if expr_start_listed k then block_go r (Some i) true (S i) (pushed + pending_stmt last)
      else block_go r None true (S i) (S (pushed + pending_stmt last))
  | BTerm :: r => if need_sep then ParseError else block_go r None true i (S (pushed + pending_stmt last))
  | BBlock :: r => if need_sep then ParseError else block_go r None false i (S (pushed + pending_stmt last))
  end.
Definition block_value (l : list bitem) : bresult := block_go l None false 0 0.

Definition is_semi (b : bitem) : bool := match b with BSemi => true | _ => false end.
Definition is_stmt_item (b : bitem) : bool := match b with BTerm | BBlock => true | _ => false end.

(* ---- statement sequences: Parser::parse (top level) and Parser::block_statements ({ ... } of
   functions, loops, if statements, lambdas):
        while not at the end (`}` / end of input):  if `;`: skip it;  else declaration()
   A declaration that does not end with its own `}` finishes with consume_semicolon, which
   consumes a `;`, accepts a `}` without consuming it, and rejects anything else -- the end of
   input included (the lexer always adds a `;` there after a statement-ending token).
     SSemi   a TSemicolon      STerm  a statement ending with consume_semicolon (expression
     statement, let, return, break, continue)      SBlock  a statement ending with its own `}`
   Result: the number of statements, or None when the text is rejected.  (As for value blocks,
   two items written next to each other that could merge into one expression are not modelled.) *)
Inductive sitem := SSemi | STerm | SBlock.
Fixpoint seq_go (top : bool) (l : list sitem) (need_sep : bool) (n : nat) : option nat :=
  match l with
  | [] => if need_sep && top then None else Some n
  | SSemi :: r => seq_go top r false n
  | STerm :: r => if need_sep then None else seq_go top r true (S n)
  | SBlock :: r => if need_sep then None else seq_go top r false (S n)
  end.
Definition parse_sequence (top : bool) (l : list sitem) : option nat := seq_go top l false 0.
