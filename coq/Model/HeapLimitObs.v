(* Observation model for the C10 tie: what hx_heaplimit prints per case. *)
From Coq Require Import NArith ZArith Bool List.
From Aelys Require Import Base.CaseCheck Extracted.HeapConsts Model.HeapLimit.
Import ListNotations.
Local Open Scope Z_scope.

Definition res_code (r : res) : Z :=
  match r with ROk => 0 | ROom => 1 | RInvalidSize => 2 | RTypeErr => 3 | RPanic => 5 | RAbort => 6 end.

Inductive hop := OArray (esz : N) | OVecPush (esz : N) | OVecReserve (esz : N) | OManual | OManualReuse | OBytes
               | ORepeat (slen : N) | OPad (schars sbytes pb : N)
               | OConcatDouble (slen : N).

(* a = alloc(n); free(a); b = alloc(n); c = alloc(n): the second allocation reuses the freed slot of the first *)
Definition manual_reuse (m : mem) (n : Z) : res * mem :=
  match op_manual m n with
  | (ROk, m1, _) =>
      let m2 := op_manual_free m1 (Z.to_N n * SZ_VALUE) in
      match op_manual m2 n with
      | (ROk, m3, _) => let '(r, m4, _) := op_manual m3 n in (r, m4)
      | (r, m3, _) => (r, m3)
      end
  | (r, m1, _) => (r, m1)
  end.
(* n pushes with the count in N (up to a few million for Vec<Bool> near the limit): positive-recursion iterator *)
Definition push_many_n (n : N) (cap : N) (m : mem) (v : vecst) : res * mem * vecst :=
  N.iter n (fun st => let '(r, m', v') := st in
                      match r with
                      | ROk => let '(r2, m2, v2, _) := op_vec_push cap m' v' in (r2, m2, v2)
                      | _ => st
                      end) (ROk, m, v).

(* one case: operation, size argument, limit, host capacity, heap + manual bytes in use when the operation starts.
   Result: [kind; bytes charged by the operation] *)
Definition hl_run1 (cap : N) (o : hop) (n : Z) (limit used0 : N) : list Z :=
  let m := mkMem used0 0 limit in
  let out (r : res) (m' : mem) := [res_code r; Z.of_N (held m') - Z.of_N (held m)] in
  match o with
  | OArray e => let '(r, m', _) := op_array cap e m n in out r m'
  | OVecPush e => let '(r, m', _) := push_many_n (Z.to_N n) cap m (mkVec 1 1 (SZ_VEC + e) e) in out r m'
  | OVecReserve e => let '(r, m', _, _) := op_vec_reserve cap m (mkVec 1 1 (SZ_VEC + e) e) n in out r m'
  | OManual => let '(r, m', _) := op_manual m n in out r m'
  | OManualReuse => let '(r, m') := manual_reuse m n in out r m'
  | OBytes => let '(r, m', _) := op_bytes cap m n in out r m'
  | ORepeat sl => if n =? 1 then [0; 0] else let '(r, m', _) := op_repeat cap m sl n in out r m'
  | OPad sc sb pb => let '(r, m', _) := op_pad cap m sc sb pb n in out r m'
  | OConcatDouble sl => let '(r, m') := concat_double (Z.to_nat n) m sl in out r m'
  end.

Inductive hq := QOp (o : hop) (n : Z) (limit cap_lo cap_hi used0 : N).
(* the host's real capacity lies somewhere in [cap_lo, cap_hi] (address-space limit minus what the
   process already maps): both predictions are acceptable *)
Definition hl_obs (q : hq) : list Z * list Z :=
  match q with QOp o n limit lo hi used0 => (hl_run1 lo o n limit used0, hl_run1 hi o n limit used0) end.
Definition hl_eqb (m o : list Z * list Z) : bool :=
  list_eqb Z.eqb (fst m) (fst o) || list_eqb Z.eqb (snd m) (fst o).
