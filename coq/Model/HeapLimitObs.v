(* Observation model for the C10 tie: what hx_heaplimit prints per case. *)
From Coq Require Import NArith ZArith Bool List.
From Aelys Require Import Base.CaseCheck Extracted.HeapConsts Model.HeapLimit.
Import ListNotations.
Local Open Scope Z_scope.

Definition res_code (r : res) : Z :=
  match r with ROk => 0 | ROom => 1 | RInvalidSize => 2 | RTypeErr => 3 | RPanic => 5 | RAbort => 6 end.

Inductive hop := OArray (esz : N) | OVecPush (esz : N) | OVecReserve (esz : N) | OVecFill (esz : N) (r : Z)
               | OManual | OManualReuse | OBytes
               | ORepeat (slen : N) | OPad (schars sbytes pb : N)
               | OProductSq (unit : N)       (* a = u.repeat(n) (unit bytes each); b = "b".repeat(n); r of n * n bytes *)
               | OLiteral (cfn : N)          (* a string constant of n bytes: merge_heap (check, charge), then the function object of the input *)
               | OConcatDouble (slen : N)
               | OLoop (allocs : list (N * bool))
               | OChurn (allocs : list (N * bool)) (rsv : Z)    (* n closures created and dropped, then two Array<Int>(rsv) *)
               | OChurnOver (allocs : list (N * bool)) (rsv : Z)
               | OFsRead (flen : N)     (* fs.read_bytes(f, n) on a file of flen bytes: n checked and charged first, the unread part given back *)
               | OBytesMany (sz : Z) | OBytesClone | OBytesResize (init : Z) | OBytesCycle (sz : Z).   (* byte buffers: n kept; one + two clones; resize; alloc / free *)   (* one Array<Int>(rsv) first, then the same *)

(* a = alloc(n); free(a); b = alloc(n); c = alloc(n): the second allocation reuses the freed slot of the first *)
Definition manual_reuse (m : mem) (n : Z) : res * mem :=
  match op_manual m n with
  | (ROk, m1, _) =>
      let m2 := op_manual_free m1 (Z.to_N n * SZ_VALUE) in
      match op_manual m2 n with
      | (ROk, m3, _) => let '(r, m4, _) := op_manual m3 n in (r, m4)
      | (r, m3, _) => (r, m3)
      end
  | (r, m1, _) => (r, m1)
  end.

(* three results whose lengths are checked before they are built: unit*n, n, n*n bytes (string.replace / string.join
   on two strings of n pieces); n <= 0: the empty string; n = 1: every result is a string that already exists *)
Definition product_sq (cap : N) (m : mem) (unit : N) (n : Z) : res * mem :=
  if (n <=? 0)%Z then let '(r, m', _) := op_string m 0 in (r, m')
  else if (n =? 1)%Z then (ROk, m)
  else let k := Z.to_N n in
       match op_string_checked cap m (unit * k) with
       | (ROk, m1, _) =>
           match op_string_checked cap m1 k with
           | (ROk, m2, _) => let '(r, m3, _) := op_string_checked cap m2 (k * k) in (r, m3)
           | (r, m2, _) => (r, m2)
           end
       | (r, m1, _) => (r, m1)
       end.

(* ---- n pushes.  push_many_n replays every push (the definition the theorems talk about); push_fast jumps over
   the pushes that fit the current capacity and is proved equal to it (Proofs: push_fast_correct) *)
Definition push_step (cap : N) (st : res * mem * vecst) : res * mem * vecst :=
  let '(r, m', v') := st in
  match r with
  | ROk => let '(r2, m2, v2, _) := op_vec_push cap m' v' in (r2, m2, v2)
  | _ => st
  end.
Definition push_many_n (n : N) (cap : N) (m : mem) (v : vecst) : res * mem * vecst :=
  N.iter n (push_step cap) (ROk, m, v).
Definition push_jump (v : vecst) (k : N) : vecst := mkVec (vlen v + k) (vcap v) (vcharged v) (velem v).
Definition fast_step (cap : N) (st : N * (res * mem * vecst)) : N * (res * mem * vecst) :=
  let '(n, (r, m, v)) := st in
  match r with
  | ROk =>
      if (n =? 0)%N then st
      else if (vlen v <? vcap v)%N then let k := N.min n (vcap v - vlen v) in ((n - k)%N, (ROk, m, push_jump v k))
      else ((n - 1)%N, push_step cap (ROk, m, v))
  | _ => (0%N, (r, m, v))
  end.
(* bound = number of jumps / growth steps allowed; the first component of the result is what is left to push *)
Definition push_fast (bound n cap : N) (m : mem) (v : vecst) : N * (res * mem * vecst) :=
  N.iter bound (fast_step cap) (n, (ROk, m, v)).

(* ---- loops of guarded allocations that keep everything they allocate (closures, vec literals): per iteration
   the listed requests (ensure; charge unless marked as a second check) in order, then one push on the 8-byte `keep` vec.  The collector may run
   at the safepoints inside, but everything is live: collection does not change the accounting. *)
(* a request is (bytes, charged): alloc_vec / alloc_array consult the limit twice (their own check and alloc_object's)
   but charge once *)
Fixpoint alloc_seq (m : mem) (l : list (N * bool)) : res * mem :=
  match l with
  | [] => (ROk, m)
  | (a, charged) :: r => if ensure m a then alloc_seq (if charged then add_heap m a else m) r else (ROom, m)
  end.
Definition loop_step (cap : N) (allocs : list (N * bool)) (st : res * mem * vecst) : res * mem * vecst :=
  let '(r, m, v) := st in
  match r with
  | ROk => match alloc_seq m allocs with
           | (ROk, m1) => push_step cap (ROk, m1, v)
           | (r1, m1) => (r1, m1, v)
           end
  | _ => st
  end.
Definition loop_run (n cap : N) (allocs : list (N * bool)) (m : mem) (v : vecst) : res * mem * vecst :=
  N.iter n (loop_step cap allocs) (ROk, m, v).

(* ---- s = s + s, n times, WITH the collector: string `+` is a safepoint; maybe_collect runs a collection when the
   managed heap has reached next_gc, which frees the strings that are no longer referenced (the earlier values
   of s) and sets next_gc := max (2 * heap, INITIAL_GC_THRESHOLD).  State: memory, garbage bytes, size of the
   string s currently refers to (0 while it still is the permanent global), next_gc, length of s. *)
Record cst := mkC { c_mem : mem; c_garbage : N; c_cur : N; c_next : N; c_len : N }.
Definition concat_step (st : res * cst) : res * cst :=
  let '(r, c) := st in
  match r with
  | ROk =>
      let m := c_mem c in
      (* maybe_collect *)
      let '(m1, g1, nx1) :=
        if (c_next c <=? heap m)%N
        then let h := (heap m - c_garbage c)%N in (mkMem h (manual m) (maxb m), 0%N, N.max (GC_GROWTH_FACTOR * h) INITIAL_GC_THRESHOLD)
        else (m, c_garbage c, c_next c) in
      let size := (SZ_STRING + 2 * c_len c)%N in
      if ensure m1 size then (ROk, mkC (add_heap m1 size) (g1 + c_cur c) size nx1 (2 * c_len c))
      else (ROom, mkC m1 g1 (c_cur c) nx1 (c_len c))
  | _ => st
  end.
Definition concat_gc (n : N) (m : mem) (slen : N) : res * cst :=
  N.iter n concat_step (ROk, mkC m 0 0 INITIAL_GC_THRESHOLD slen).

(* ---- churn: `let c = mk(i); t = t + c(1)` n times, WITH the collector, then two arrays of rsv ints.  One safepoint
   per iteration (MakeClosure, before the function object is copied); a collection frees everything the earlier
   iterations allocated except what the previous iteration left in `c`, and what it subtracts is what those objects
   were charged (Proofs.HeapAccountProofs).  The arrays come last: they fit only if the counter went back down. *)
Record chst := mkCh { h_mem : mem; h_garbage : N; h_last : N; h_next : N }.
Definition churn_step (allocs : list (N * bool)) (st : res * chst) : res * chst :=
  let '(r, c) := st in
  match r with
  | ROk =>
      let m := h_mem c in
      let '(m1, g1, nx1) :=
        if (h_next c <=? heap m)%N
        then let h := (heap m - h_garbage c)%N in (mkMem h (manual m) (maxb m), 0%N, N.max (GC_GROWTH_FACTOR * h) INITIAL_GC_THRESHOLD)
        else (m, h_garbage c, h_next c) in
      match alloc_seq m1 allocs with
      | (ROk, m2) => (ROk, mkCh m2 (g1 + h_last c) (heap m2 - heap m1) nx1)
      | (r', m2) => (r', mkCh m2 (g1 + h_last c) (heap m2 - heap m1) nx1)
      end
  | _ => st
  end.
Definition churn_run (n : N) (allocs : list (N * bool)) (m : mem) : res * chst :=
  N.iter n (churn_step allocs) (ROk, mkCh m 0 0 INITIAL_GC_THRESHOLD).

(* ---- byte buffers (std.bytes) *)
Definition bytes_seq_step (cap : N) (sz : Z) (st : res * mem) : res * mem :=
  match st with
  | (ROk, m) => let '(r, m', _) := op_bytes cap m sz in (r, m')
  | _ => st
  end.
Definition bytes_many (cap : N) (sz : Z) (k : N) (m : mem) : res * mem := N.iter k (bytes_seq_step cap sz) (ROk, m).
(* bytes.resize(b, n) of a buffer of `old` bytes: growth is checked and charged, shrinking gives the difference back *)
Definition bytes_resize (m : mem) (old : N) (n : Z) : res * mem :=
  if (n <=? 0)%Z then (RTypeErr, m)
  else if (MAX_ALLOC <? Z.to_N n)%N then (RTypeErr, m)
  else if negb BYTES_CHARGED then (ROk, m)
  else if (old <? Z.to_N n)%N then (if ensure m (Z.to_N n - old)%N then (ROk, add_manual m (Z.to_N n - old)%N) else (ROom, m))
  else (ROk, mkMem (heap m) (manual m - (old - Z.to_N n))%N (maxb m)).

(* ---- what the host was asked for: 1 = some request of at least 2 * HOST_T bytes is in the trace, 0 = every request
   is at most HOST_T / 2, 2 = in between / not modelled (the tie then accepts either) *)
Definition HOST_T : N := 65536.
Fixpoint max_host (t : list evt) : N :=
  match t with [] => 0%N | EHost n :: r => N.max n (max_host r) | _ :: r => max_host r end.
Definition host_class (t : list evt) : Z :=
  if (2 * HOST_T <=? max_host t)%N then 1 else if (max_host t <=? HOST_T / 2)%N then 0 else 2.

(* one case: operation, size argument, limit, host capacity, heap + manual bytes in use when the operation starts.
   Result: [kind; bytes charged by the operation; host class] *)
Definition hl_run1 (cap : N) (o : hop) (n : Z) (limit used0 : N) : list Z :=
  let m := mkMem used0 0 limit in
  let out (r : res) (m' : mem) (hc : Z) := [res_code r; Z.of_N (held m') - Z.of_N (held m); hc] in
  let lit (e : N) := mkVec 1 1 (SZ_VEC + e) e in
  let pushes (k : N) (m0 : mem) (v0 : vecst) :=
    match push_fast (k + 1) k cap m0 v0 with      (* every step consumes at least one push: k + 1 steps always suffice *)
    | (0%N, (r, m', _)) => out r m' 2
    | _ => [99; 0; 2]                                  (* bound exhausted: never equal to an observation *)
    end in
  let churn_then (allocs : list (N * bool)) (rsv : Z) (m0 : mem) :=
    match churn_run (Z.to_N n) allocs m0 with
    | (ROk, c) =>
        match op_array cap 8 (h_mem c) rsv with
        | (ROk, m1, _) => let '(r, m2, _) := op_array cap 8 m1 rsv in out r m2 2
        | (r, m1, _) => out r m1 2
        end
    | (r, c) => out r (h_mem c) 2
    end in
  match o with
  | OArray e => let '(r, m', t) := op_array cap e m n in out r m' (host_class t)
  | OVecPush e => pushes (Z.to_N n) m (lit e)
  | OVecReserve e => let '(r, m', _, t) := op_vec_reserve cap m (lit e) n in out r m' 2
  | OVecFill e rsv =>
      match op_vec_reserve cap m (lit e) rsv with
      | (ROk, m1, v1, _) => pushes (Z.to_N n) m1 v1
      | (r, m1, _, _) => out r m1 2
      end
  | OManual => let '(r, m', t) := op_manual m n in out r m' (host_class t)
  | OManualReuse => let '(r, m') := manual_reuse m n in out r m' 2
  | OBytes => let '(r, m', t) := op_bytes cap m n in out r m' (host_class t)
  | ORepeat sl => if n =? 1 then [0; 0; 0] else let '(r, m', t) := op_repeat cap m sl n in out r m' (host_class t)
  | OPad sc sb pb => let '(r, m', t) := op_pad cap m sc sb pb n in out r m' (host_class t)
  | OProductSq u => let '(r, m') := product_sq cap m u n in out r m' 2
  | OLiteral cfn =>
      match op_object m (SZ_STRING + Z.to_N n) with
      | (ROk, m1, _) => let '(r, m2, _) := op_object m1 cfn in out r m2 2
      | (r, m1, _) => out r m1 2
      end
  | OConcatDouble sl => let '(r, c) := concat_gc (Z.to_N n) m sl in out r (c_mem c) 2
  | OLoop allocs => let '(r, m', _) := loop_run (Z.to_N n) cap allocs m (lit 8%N) in out r m' 2
  | OFsRead flen =>
      let b := Z.to_N n in
      if (n <? 0)%Z || (FS_MAX_BUF <? b)%N then out RTypeErr m 0
      else if ensure m b then [res_code ROk; Z.of_N (N.min b flen); (if (2 * HOST_T <=? b)%N then 1 else if (b <=? HOST_T / 2)%N then 0 else 2)]
      else out ROom m 0
  | OBytesMany sz => let '(r, m') := bytes_many cap sz (Z.to_N n) m in out r m' 2
  | OBytesClone => let '(r, m') := bytes_many cap n 3 m in out r m' 2
  | OBytesResize init =>
      match op_bytes cap m init with
      | (ROk, m1, _) => let '(r, m2) := bytes_resize m1 (Z.to_N init) n in out r m2 2
      | (r, m1, _) => out r m1 2
      end
  | OBytesCycle sz => if (n <=? 0)%Z then out ROk m 2 else let '(r, _, _) := op_bytes cap m sz in out r m 2
  | OChurn allocs rsv => churn_then allocs rsv m
  | OChurnOver allocs rsv =>
      match op_array cap 8 m rsv with
      | (ROk, m0, _) => churn_then allocs rsv m0
      | (r, m0, _) => out r m0 2
      end
  end.

Inductive hq := QOp (o : hop) (n : Z) (limit cap_lo cap_hi used0 : N).
(* the host's real capacity lies somewhere in [cap_lo, cap_hi] (address-space limit minus what the
   process already maps): both predictions are acceptable *)
Definition hl_obs (q : hq) : list Z * list Z :=
  match q with QOp o n limit lo hi used0 => (hl_run1 lo o n limit used0, hl_run1 hi o n limit used0) end.
(* kind and charge exactly; host class exactly unless the model says 2 *)
Definition obs3_eqb (m o : list Z) : bool :=
  match m, o with
  | [k; c; h], [k'; c'; h'] => Z.eqb k k' && Z.eqb c c' && (Z.eqb h 2 || Z.eqb h h')
  | _, _ => false
  end.
Definition hl_eqb (m o : list Z * list Z) : bool := obs3_eqb (fst m) (fst o) || obs3_eqb (snd m) (fst o).
