(* Observation model for the C10 tie: what hx_heaplimit prints per case. *)
From Coq Require Import NArith ZArith Bool List.
From Aelys Require Import Base.CaseCheck Extracted.HeapConsts Model.HeapLimit.
Import ListNotations.
Local Open Scope Z_scope.

Definition res_code (r : res) : Z :=
  match r with ROk => 0 | ROom => 1 | RInvalidSize => 2 | RTypeErr => 3 | RPanic => 5 | RAbort => 6 end.

Inductive hop := OArray (esz : N) | OVecPush | OVecReserve | OManual | OBytes | ORepeat (slen : N) | OPad (slen : N)
               | OConcatDouble (slen : N).

(* one case: operation, size argument, limit, host capacity, heap + manual bytes in use when the operation starts.
   Result: [kind; bytes charged by the operation] *)
Definition hl_run1 (cap : N) (o : hop) (n : Z) (limit used0 : N) : list Z :=
  let m := mkMem used0 0 limit in
  let out (r : res) (m' : mem) := [res_code r; Z.of_N (held m') - Z.of_N (held m)] in
  match o with
  | OArray e => let '(r, m', _) := op_array cap e m n in out r m'
  | OVecPush => let '(r, m', _) := push_many (Z.to_nat n) cap m (mkVec 1 1 (SZ_VEC + 8)) in out r m'
  | OVecReserve => let '(r, m', _, _) := op_vec_reserve cap m (mkVec 1 1 (SZ_VEC + 8)) n in out r m'
  | OManual => let '(r, m', _) := op_manual m n in out r m'
  | OBytes => let '(r, m', _) := op_bytes cap m n in out r m'
  | ORepeat sl => if n =? 1 then [0; 0] else let '(r, m', _) := op_repeat cap m sl n in out r m'
  | OPad sl => let '(r, m', _) := op_pad cap m sl n in out r m'
  | OConcatDouble sl => let '(r, m') := concat_double (Z.to_nat n) m sl in out r m'
  end.

Inductive hq := QOp (o : hop) (n : Z) (limit cap_lo cap_hi used0 : N).
(* the host's real capacity lies somewhere in [cap_lo, cap_hi] (address-space limit minus what the
   process already maps): both predictions are acceptable *)
Definition hl_obs (q : hq) : list Z * list Z :=
  match q with QOp o n limit lo hi used0 => (hl_run1 lo o n limit used0, hl_run1 hi o n limit used0) end.
Definition hl_eqb (m o : list Z * list Z) : bool :=
  list_eqb Z.eqb (fst m) (fst o) || list_eqb Z.eqb (snd m) (fst o).
