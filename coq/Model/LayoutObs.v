(* Queries and canonical observations for the C18 contract tie (hx_layout). *)
From Coq Require Import NArith Bool List.
From Aelys Require Import Base.CaseCheck Extracted.LayoutTable Model.Layout Model.SysV.
Import ListNotations.
Local Open Scope N_scope.

Inductive query : Set :=
  | QCompute (E : list sdef)                   (* compute_layouts on a program with these structs *)
  | QLayoutOf (t : ty)                         (* layout_of *)
  | QSpec (E : list sdef).                     (* the SysV specification (validated against clang) *)

Inductive obs : Set :=
  | OLaid (offs : list (option (list N)))      (* per struct in declaration order: field offsets ... *)
          (sa : list (option (N * N)))         (* ... and the (size, align) the toolchain reports for it
                                                  (print::struct_size_align, the `[size=, align=]` line) *)
  | OSpec (l : list (option (list N)))         (* specification: offsets ++ [size; align] *)
  | OSizeAlign (s a : N)
  | ODiag                                      (* by-value recursion diagnosed (either message) *)
  | OUnresolved
  | OTooLarge                                  (* LayoutError::TooLarge *)
  | OOverflow                                  (* arithmetic-overflow panic: the model never produces it *)
  | ODirty                                     (* rejected, but offsets were written: never produced either *)
  | OPrintPanic                                (* laid out, but printing the program panics: never produced *)
  | OTypeMismatch                              (* source path: a lowered field type is not the declared one *)
  | ONeedsContext
  | OOther.

Definition obs_of_err (e : err) : obs :=
  match e with
  | ESelfRef | ECycle => ODiag
  | EUnresolved => OUnresolved
  | ETooLarge => OTooLarge
  | ENeedsContext => ONeedsContext
  | EInternal => OOther
  end.

(* spec observation: per struct offsets ++ [size; align]; None where the spec is undefined *)
Definition spec_obs (E : list sdef) : list (option (list N)) :=
  map (fun d => match c_struct (S (length E)) E (sfields d) with
                | Some (offs, s, a) => Some (offs ++ [s; a])
                | None => None end) E.

Definition run (q : query) : obs :=
  match q with
  | QCompute E => match compute_layouts E with
                  | Ok (offs, m) => OLaid offs (map (fun d => rlookup m (sname d)) E)
                  | Fail e => obs_of_err e end
  | QLayoutOf t => match layout_of t with Ok (s, a) => OSizeAlign s a | Fail e => obs_of_err e end
  | QSpec E => OSpec (spec_obs E)
  end.

Definition oeqb {A} (f : A -> A -> bool) (a b : option A) : bool :=
  match a, b with Some x, Some y => f x y | None, None => true | _, _ => false end.

Definition obs_eqb (a b : obs) : bool :=
  match a, b with
  | OLaid x sx, OLaid y sy => list_eqb (oeqb (list_eqb N.eqb)) x y
                              && list_eqb (oeqb (fun a b => (fst a =? fst b) && (snd a =? snd b))) sx sy
  | OSpec x, OSpec y => list_eqb (oeqb (list_eqb N.eqb)) x y
  | OSizeAlign s a, OSizeAlign s' a' => (s =? s') && (a =? a')
  | ODiag, ODiag | OUnresolved, OUnresolved | OOverflow, OOverflow | OTooLarge, OTooLarge | ODirty, ODirty
  | OPrintPanic, OPrintPanic | OTypeMismatch, OTypeMismatch
  | ONeedsContext, ONeedsContext | OOther, OOther => true
  | _, _ => false
  end.
