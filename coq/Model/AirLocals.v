(* C17 -- model of how air/src/lower.rs allocates, declares and mentions locals, on the same
   skeletons as Model/AirLower.v (it does not depend on the block structure):
     - alloc_local_id is a per-function counter (saved / reset / restored by lower_function),
     - alloc_temp and alloc_named_local declare the new id in current_locals; parameters are named
       locals (declared) and are listed in params with the same type; the closure environment
       parameter gets an id but is listed in params only,
     - locals_by_name is a flat list searched from the newest entry, emptied for a nested function,
     - every operand / place of every emitted statement and terminator is "mentioned".
   An operand is [Some id] (Copy id) or [None] (a constant). *)
From Coq Require Import NArith Bool List.
From Aelys Require Import Extracted.LowerFlags Model.AirLower.
Import ListNotations.
Local Open Scope N_scope.

Record lfn_out := mklf {
  lf_params : list N;        (* ids listed in AirFunction.params *)
  lf_locals : list N;        (* ids declared in AirFunction.locals, in order *)
  lf_mentioned : list N }.   (* ids used by statements and terminators, in emission order *)

Record lst := mkl {
  l_next : N;                (* next_local_id *)
  l_locals : list N;         (* current_locals, NEWEST FIRST *)
  l_ment : list N;           (* mentioned so far, newest first *)
  l_names : list (N * N);    (* locals_by_name, newest first: (name, id) *)
  l_out : list lfn_out }.

Definition linit : lst := mkl 0 [] [] [] [].

Definition alloc_temp (s : lst) : N * lst :=
  (l_next s, mkl (l_next s + 1) (l_next s :: l_locals s) (l_ment s) (l_names s) (l_out s)).
Definition alloc_named (x : N) (s : lst) : N * lst :=
  (l_next s, mkl (l_next s + 1) (l_next s :: l_locals s) (l_ment s) ((x, l_next s) :: l_names s) (l_out s)).
(* alloc_local_id alone: the closure environment parameter *)
Definition alloc_undeclared (s : lst) : N * lst :=
  (l_next s, mkl (l_next s + 1) (l_locals s) (l_ment s) (l_names s) (l_out s)).

Definition lrestore_names (n : nat) (s : lst) : lst :=
  mkl (l_next s) (l_locals s) (l_ment s) (keep_oldest n (l_names s)) (l_out s).
Definition lscope_block (n : nat) (s : lst) : lst := if BLOCK_SCOPES_NAMES then lrestore_names n s else s.
Definition lscope_loop (n : nat) (s : lst) : lst := if LOOP_SCOPES_NAMES then lrestore_names n s else s.

Definition lookup (x : N) (s : lst) : option N :=
  match find (fun p => fst p =? x) (l_names s) with Some (_, id) => Some id | None => None end.

Definition mention (ids : list N) (s : lst) : lst :=
  mkl (l_next s) (l_locals s) (rev ids ++ l_ment s) (l_names s) (l_out s).
Definition opl (o : option N) : list N := match o with Some i => [i] | None => [] end.
Definition opsl (l : list (option N)) : list N := flat_map opl l.

(* n temporaries of a string concatenation chain: acc = concat(acc, part) *)
Fixpoint concat_temps (n : nat) (acc : option N) (s : lst) : option N * lst :=
  match n with
  | O => (acc, s)
  | S k => let '(t, s1) := alloc_temp s in concat_temps k (Some t) (mention (t :: opl acc) s1)
  end.

Fixpoint alloc_named_list (xs : list N) (s : lst) : list N * lst :=
  match xs with
  | [] => ([], s)
  | x :: r => let '(i, s1) := alloc_named x s in let '(is, s2) := alloc_named_list r s1 in (i :: is, s2)
  end.

(* captures of a closure: one named local each, assigned from the environment parameter *)
Fixpoint alloc_captures (env : N) (xs : list N) (s : lst) : lst :=
  match xs with
  | [] => s
  | x :: r => let '(i, s1) := alloc_named x s in alloc_captures env r (mention [i; env] s1)
  end.

(* lower_function / lower_closure: prologue and epilogue *)
Definition lfn_enter (caps params : list N) (s : lst) : list N * lst :=
  let s0 := mkl 0 [] [] [] (l_out s) in
  match caps with
  | [] => let '(ps, s1) := alloc_named_list params s0 in (ps, s1)
  | _ => let '(env, s1) := alloc_undeclared s0 in
         let s2 := alloc_captures env caps s1 in
         let '(ps, s3) := alloc_named_list params s2 in (env :: ps, s3)
  end.
Definition lfn_exit (saved : lst) (ps : list N) (body_end : lst) : lst :=
  mkl (l_next saved) (l_locals saved) (l_ment saved) (l_names saved)
      (l_out body_end ++ [mklf ps (rev (l_locals body_end)) (rev (l_ment body_end))]).

Fixpoint llower_expr (e : sexpr) (s : lst) : option N * lst :=
  match e with
  | EAtom => (None, s)
  | EIdent x =>
      match lookup x s with
      | Some i => (Some i, s)
      | None => let '(t, s1) := alloc_temp s in (Some t, mention [t] s1)      (* global get *)
      end
  | EOp k args =>
      let '(ops, s1) := llower_exprs args s in
      match k with
      | KPass => (last ops None, s1)
      | KTmp => let '(t, s2) := alloc_temp s1 in (Some t, mention (t :: opsl ops) s2)
      | KVoid => (None, mention (opsl ops) s1)
      | KAssign x =>
          match lookup x s1 with
          | Some i => (Some i, mention (i :: opsl ops) s1)
          | None => (None, mention (opsl ops) s1)
          end
      | KConcat n =>
          (* the first operand is the accumulator; every operand id ends up mentioned *)
          let '(acc, s2) := concat_temps (N.to_nat n) (hd None ops) (mention (opsl ops) s1) in (acc, s2)
      | KCall void =>
          (* callee = last operand; a constant callee is first copied into a temporary *)
          let s2 := match last ops None with
                    | Some _ => s1
                    | None => let '(t, s') := alloc_temp s1 in mention [t] s'
                    end in
          if void then (None, mention (opsl ops) s2)
          else let '(t, s3) := alloc_temp s2 in (Some t, mention (t :: opsl ops) s3)
      end
  | EShort _ l r =>
      let '(res, s1) := alloc_temp s in
      let '(lo, s2) := llower_expr l s1 in
      let s3 := mention (res :: opl lo ++ [res]) s2 in            (* assign, branch condition *)
      let '(ro, s4) := llower_expr r s3 in
      (Some res, mention (res :: opl ro) s4)
  | EIfE c t e =>
      let '(res, s1) := alloc_temp s in
      let '(co, s2) := llower_expr c s1 in
      let '(to, s3) := llower_expr t (mention (opl co) s2) in
      let '(eo, s4) := llower_expr e (mention (res :: opl to) s3) in
      (Some res, mention (res :: opl eo) s4)
  | ELam caps params body =>
      let '(ps, s0) := lfn_enter caps params s in
      let s1 := lfn_exit s ps (llower_stmts body s0) in
      let '(t, s2) := alloc_temp s1 in (Some t, mention [t] s2)
  end
with llower_exprs (es : sexprs) (s : lst) : list (option N) * lst :=
  match es with
  | ENil => ([], s)
  | ECons e r => let '(o, s1) := llower_expr e s in let '(os, s2) := llower_exprs r s1 in (o :: os, s2)
  end
with llower_stmt (x : sstmt) (s : lst) : lst :=
  match x with
  | SExpr e => snd (llower_expr e s)
  | SLet n e =>
      let '(i, s1) := alloc_named n s in
      let '(o, s2) := llower_expr e s1 in mention (i :: opl o) s2
  | SBlock b => lscope_block (length (l_names s)) (llower_stmts b s)
  | SIf c t => let '(o, s1) := llower_expr c s in llower_stmt t (mention (opl o) s1)
  | SIfElse c t e =>
      let '(o, s1) := llower_expr c s in llower_stmt e (llower_stmt t (mention (opl o) s1))
  | SWhile c b => let '(o, s1) := llower_expr c s in llower_stmt b (mention (opl o) s1)
  | SFor n lo hi step b =>
      let '(it, s1) := alloc_named n s in
      let '(lo_o, s2) := llower_expr lo s1 in
      let '(en, s3) := alloc_temp (mention (it :: opl lo_o) s2) in
      let '(hi_o, s4) := llower_expr hi s3 in
      let '(cd, s5) := alloc_temp (mention (en :: opl hi_o) s4) in
      let s6 := llower_stmt b (mention [cd; it; en; cd] s5) in
      let '(st_o, s7) := llower_expr step s6 in
      lscope_loop (length (l_names s)) (mention (it :: it :: opl st_o) s7)
  | SForEach n itb b =>
      let '(o, s1) := llower_expr itb s in
      let '(col, s2) := alloc_temp s1 in
      let '(idx, s3) := alloc_temp (mention (col :: opl o) s2) in
      let '(len, s4) := alloc_temp (mention [idx] s3) in
      let '(el, s5) := alloc_named n (mention [len; col] s4) in
      let '(cd, s6) := alloc_temp s5 in
      let s7 := llower_stmt b (mention [cd; idx; len; cd; el; col; idx] s6) in
      lscope_loop (length (l_names s)) (mention [idx; idx] s7)
  | SRet => s
  | SRetE e => let '(o, s1) := llower_expr e s in mention (opl o) s1
  | SBreak | SContinue | SNop => s
  | SFn caps params body =>
      let '(ps, s0) := lfn_enter caps params s in lfn_exit s ps (llower_stmts body s0)
  end
with llower_stmts (b : sstmts) (s : lst) : lst :=
  match b with
  | SNil => s
  | SCons x r => llower_stmts r (llower_stmt x s)
  end.

Fixpoint llower_top (p : sstmts) (s : lst) : lst :=
  match p with
  | SNil => s
  | SCons (SFn caps params body) r =>
      let '(ps, s0) := lfn_enter caps params s in llower_top r (lfn_exit s ps (llower_stmts body s0))
  | SCons _ r => llower_top r s
  end.

Definition llower (p : sstmts) : list lfn_out := l_out (llower_top p linit).

(* ---- the clauses: every id is declared once; a parameter is declared (the environment parameter
   of a closure only in params); every mentioned id is declared or a parameter *)
Definition locals_ok (f : lfn_out) : bool :=
  nodupb (lf_locals f) && nodupb (lf_params f)
  && forallb (fun i => memN i (lf_locals f) || memN i (lf_params f)) (lf_mentioned f).
Definition locals_wf (fs : list lfn_out) : bool := forallb locals_ok fs.

(* observation for the tie: counts, so that a harmless change of the allocation order is no alarm *)
Fixpoint dedup (l : list N) : list N :=
  match l with [] => [] | x :: r => if memN x r then dedup r else x :: dedup r end.
Definition lobs_fn (f : lfn_out) : list N :=
  [N.of_nat (length (lf_params f)); N.of_nat (length (lf_locals f));
   N.of_nat (length (dedup (lf_mentioned f)));
   N.of_nat (length (filter (fun i => negb (memN i (lf_locals f) || memN i (lf_params f))) (dedup (lf_mentioned f))))].
Definition lobs (p : sstmts) : list (list N) := map lobs_fn (llower p).
