(* C04 -- lifetime of the raw code pointers kept in the call-site cache (runtime/src/vm/core.rs
   CallSiteCacheEntry; filled by call_global.inc / call_global_mono.inc; used by the CallGlobalMono fast path).

   The entry holds raw pointers into the bytecode / constant buffers of the callee's function object and is
   not a GC root.  What keeps them valid is a protocol, whose four ingredients the translator reads off the
   source (Extracted.DispatchSites): a NEW value enters the global tables only through set_global /
   set_global_by_index, which clear the cache (stores_flush_cache); every other write copies between the
   by-name map, the by-index array and the per-layout snapshots; the collector marks both tables and drops the
   snapshots (gc_roots_globals); a fill stores the callee's own buffers and the callee as owner
   (cache_fills_from_callee); a hit needs a non-null entry whose owner is the callee cached at the site and
   still the value of the global (mono_hit_guard).

   Objects are identified by (heap index, generation): a freed index may be reused by a different object.
   Definitions only. *)
From Coq Require Import NArith Bool List.
From Aelys Require Import Extracted.DispatchSites.
Import ListNotations.
Local Open Scope N_scope.

Record obj := { o_gen : N; o_child : option (N * N) }.      (* a closure points at its function object (index, generation) *)
Record centry := { ce_owner : N; ce_gen : N; ce_code : N; ce_code_gen : N }.

Record lstate := {
  ls_heap : list (option obj);
  ls_roots : list N;              (* heap indices held by `globals` (by name) and `globals_by_index` *)
  ls_snaps : list N;              (* heap indices held by the per-layout snapshots (globals_by_index_cache): NOT roots *)
  ls_cache : list (option centry);
  ls_next : N                     (* next generation *)
}.

Definition hget (h : list (option obj)) (p : N) : option obj := nth (N.to_nat p) h None.
Definition cget (c : list (option centry)) (slot : N) : option centry := nth (N.to_nat slot) c None.

Fixpoint upd {A} (d : A) (l : list A) (i : nat) (v : A) : list A :=
  match i, l with
  | O, [] => [v]
  | O, _ :: r => v :: r
  | S k, [] => d :: upd d [] k v
  | S k, x :: r => x :: upd d r k v
  end.

(* the function object whose buffers a call to object o (living at index p) runs on *)
Definition code_of (p : N) (o : obj) : N * N :=
  match o_child o with Some cg => cg | None => (p, o_gen o) end.

Inductive lstep : lstate -> lstate -> Prop :=
  (* sync_*_globals, prepare_globals_for_function, execute(): values move between the tables and the snapshots *)
  | l_copy : forall s R' S',
      (forall p, In p (R' ++ S') -> In p (ls_roots s ++ ls_snaps s)) ->
      lstep s {| ls_heap := ls_heap s; ls_roots := R'; ls_snaps := S'; ls_cache := ls_cache s; ls_next := ls_next s |}
  (* set_global / set_global_by_index: a new value; the cache is cleared (if the source still does) *)
  | l_store : forall s v R',
      (forall p, In p R' -> p = v \/ In p (ls_roots s ++ ls_snaps s)) ->
      lstep s {| ls_heap := ls_heap s; ls_roots := R'; ls_snaps := ls_snaps s;
                 ls_cache := if stores_flush_cache then map (fun _ => None) (ls_cache s) else ls_cache s;
                 ls_next := ls_next s |}
  (* collect: frees a set F of indices; nothing a root names, and nothing a surviving object points at *)
  | l_gc : forall s F h',
      (gc_roots_globals = true -> forall p, In p F -> ~ In p (ls_roots s)) ->
      (forall p o c g, ~ In p F -> hget (ls_heap s) p = Some o -> o_child o = Some (c, g) -> ~ In c F) ->
      (forall p, hget h' p = if existsb (N.eqb p) F then None else hget (ls_heap s) p) ->
      lstep s {| ls_heap := h'; ls_roots := ls_roots s; ls_snaps := if gc_roots_globals then [] else ls_snaps s;
                 ls_cache := ls_cache s; ls_next := ls_next s |}
  (* allocation: a free index gets a new object with a fresh generation; a closure's function is alive *)
  | l_alloc : forall s p child,
      hget (ls_heap s) p = None ->
      (forall c g, child = Some (c, g) -> exists oc, hget (ls_heap s) c = Some oc /\ o_gen oc = g) ->
      lstep s {| ls_heap := upd None (ls_heap s) (N.to_nat p) (Some {| o_gen := ls_next s; o_child := child |});
                 ls_roots := ls_roots s; ls_snaps := ls_snaps s; ls_cache := ls_cache s; ls_next := ls_next s + 1 |}
  (* CallGlobal slow path / CallGlobalMono miss: the callee is the current value of the global *)
  | l_fill : forall s slot owner o e,
      In owner (ls_roots s) -> hget (ls_heap s) owner = Some o ->
      (cache_fills_from_callee = true ->
         ce_owner e = owner /\ ce_gen e = o_gen o /\ (ce_code e, ce_code_gen e) = code_of owner o) ->
      lstep s {| ls_heap := ls_heap s; ls_roots := ls_roots s; ls_snaps := ls_snaps s;
                 ls_cache := upd None (ls_cache s) (N.to_nat slot) (Some e); ls_next := ls_next s |}.

(* every closure in the heap points at a live function object of the recorded generation *)
Definition children_ok (h : list (option obj)) : Prop :=
  forall p o c g, hget h p = Some o -> o_child o = Some (c, g) -> exists oc, hget h c = Some oc /\ o_gen oc = g.

Inductive lreach : lstate -> Prop :=
  | lr_init : forall s, ls_cache s = [] -> children_ok (ls_heap s) -> lreach s
  | lr_step : forall s s', lreach s -> lstep s s' -> lreach s'.

(* the CallGlobalMono fast path takes entry e of `slot` for the callee `ptr` cached in the instruction's cache words *)
Definition hit_allowed (s : lstate) (slot ptr : N) (e : centry) : Prop :=
  cget (ls_cache s) slot = Some e /\ (mono_hit_guard = true -> ce_owner e = ptr /\ In ptr (ls_roots s)).

(* the entry's raw pointers are those of live objects, the very ones it was filled from, and the code object is
   the function reachable from the cached callee *)
Definition entry_valid (s : lstate) (e : centry) : Prop :=
  exists o oc, hget (ls_heap s) (ce_owner e) = Some o /\ o_gen o = ce_gen e /\
               code_of (ce_owner e) o = (ce_code e, ce_code_gen e) /\
               hget (ls_heap s) (ce_code e) = Some oc /\ o_gen oc = ce_code_gen e.
