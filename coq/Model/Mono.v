(* C17 -- model of air/src/mono.rs (monomorphize) as implemented (after the repairs e5b1019,
   26298e9, c2787f9):
     - generic_functions: name -> index, later duplicates win (HashMap::collect),
     - requests are collected from the functions without type parameters, in Vec / block /
       statement order, with infer_type_args + unify_param (first binding wins),
     - instantiate: one clone per distinct (name, type_to_string key), types substituted in
       params / ret / locals / casts; StructInit names are left alone,
     - instantiate + collect over the NEW instances is repeated until a round creates nothing
       (at most MAX_MONO_ROUNDS rounds),
     - rewrite_call_sites: every Named call in a non-generic function (instances included) whose
       callee is generic is redirected to the instance registered for exactly the type arguments
       inferred at that call site (left alone when there is none),
     - generic functions are dropped; structs are never touched. *)
From Coq Require Import NArith Bool List.
From Aelys Require Import Model.AirLower Extracted.MonoConsts.
Import ListNotations.
Local Open Scope N_scope.

Inductive ty :=
| TPrim (k : N)            (* i8..f64, bool, str, void: one code each *)
| TStruct (s : N)
| TParam (i : N)
| TPtr (t : ty)
| TSlice (t : ty)
| TArr (t : ty) (n : N)
| TFn (ps : tys) (r : ty)
with tys := TNil | TCons (t : ty) (r : tys).

Definition T_I64 : ty := TPrim 3.

Fixpoint ty_eqb (a b : ty) : bool :=
  match a, b with
  | TPrim x, TPrim y => x =? y
  | TStruct x, TStruct y => x =? y
  | TParam x, TParam y => x =? y
  | TPtr x, TPtr y => ty_eqb x y
  | TSlice x, TSlice y => ty_eqb x y
  | TArr x n, TArr y m => ty_eqb x y && (n =? m)
  | TFn p r, TFn q s => tys_eqb p q && ty_eqb r s
  | _, _ => false
  end
with tys_eqb (a b : tys) : bool :=
  match a, b with
  | TNil, TNil => true
  | TCons x a', TCons y b' => ty_eqb x y && tys_eqb a' b'
  | _, _ => false
  end.

Fixpoint tylist_eqb (a b : list ty) : bool :=
  match a, b with
  | [], [] => true
  | x :: a', y :: b' => ty_eqb x y && tylist_eqb a' b'
  | _, _ => false
  end.

(* type_to_string as a normal form of the type (since f2ba330 a FnPtr prints its parameter and
   result types, so the map is injective on the modelled types) *)
Fixpoint key1 (t : ty) : ty :=
  match t with
  | TPtr x => TPtr (key1 x)
  | TSlice x => TSlice (key1 x)
  | TArr x n => TArr (key1 x) n
  | TFn ps r => TFn (keys ps) (key1 r)
  | other => other
  end
with keys (l : tys) : tys :=
  match l with TNil => TNil | TCons t r => TCons (key1 t) (keys r) end.
Definition key (l : list ty) : list ty := map key1 l.

Fixpoint has_param (t : ty) : bool :=
  match t with
  | TParam _ => true
  | TPtr x | TSlice x | TArr x _ => has_param x
  | TFn ps r => has_params ps || has_param r
  | _ => false
  end
with has_params (l : tys) : bool :=
  match l with TNil => false | TCons t r => has_param t || has_params r end.

(* names: as written, or produced by mangle_name / the StructInit renaming *)
Inductive name := NPlain (n : N) | NMono (n : N) (k : list ty).
Definition name_eqb (a b : name) : bool :=
  match a, b with
  | NPlain x, NPlain y => x =? y
  | NMono x k, NMono y l => (x =? y) && tylist_eqb k l
  | _, _ => false
  end.

Inductive marg := ALocal (id : N) | AConst (t : ty).
Inductive mstmt :=
| MCall (callee : name) (args : list marg)     (* Callee::Named in Assign/CallVoid *)
| MInit (s : name)                             (* Rvalue::StructInit *)
| MCast (from to : ty).

Record mfn := mkmfn {
  m_name : name;
  m_tparams : list N;
  m_params : list (N * ty);
  m_ret : ty;
  m_locals : list (N * ty);
  m_body : list mstmt;
  m_blocks : list block;         (* carried through unchanged: instances share the CFG *)
  m_env : bool }.                (* lowered as a closure: the first parameter is the environment *)

Record mstruct := mkms { s_name : name; s_tparams : list N; s_fields : list ty }.
Record inst := mkinst { i_base : N; i_args : list ty; i_name : name }.
Record mprog := mkmp { p_fns : list mfn; p_structs : list mstruct; p_insts : list inst }.

Definition is_generic (f : mfn) : bool := match m_tparams f with [] => false | _ => true end.

(* HashMap<String, usize> built by collect(): a later function with the same name wins *)
Definition generic_fn (fs : list mfn) (n : N) : option mfn :=
  find (fun f => is_generic f && name_eqb (m_name f) (NPlain n)) (rev fs).

Definition lookup_ty (l : list (N * ty)) (id : N) : option ty :=
  match find (fun p => fst p =? id) l with Some (_, t) => Some t | None => None end.

Definition operand_type (caller : mfn) (a : marg) : ty :=
  match a with
  | AConst t => t
  | ALocal id =>
      match lookup_ty (m_params caller) id with
      | Some t => t
      | None => match lookup_ty (m_locals caller) id with Some t => t | None => T_I64 end
      end
  end.

Definition bind (r : list (N * ty)) (i : N) (t : ty) : list (N * ty) :=
  match lookup_ty r i with Some _ => r | None => r ++ [(i, t)] end.

Fixpoint unify (p a : ty) (r : list (N * ty)) : list (N * ty) :=
  match p with
  | TParam i => bind r i a
  | TPtr x => match a with TPtr y => unify x y r | _ => r end
  | TArr x _ => match a with TArr y _ => unify x y r | _ => r end
  | TSlice x => match a with TSlice y => unify x y r | _ => r end
  | TFn ps ret => match a with
                  | TFn qs aret => unify ret aret (unify_list ps qs r)
                  | _ => r
                  end
  | _ => r
  end
with unify_list (ps qs : tys) (r : list (N * ty)) : list (N * ty) :=
  match ps, qs with
  | TCons p ps', TCons q qs' => unify_list ps' qs' (unify p q r)
  | _, _ => r
  end.

Fixpoint unify_args (ps : list (N * ty)) (args : list ty) (r : list (N * ty)) : list (N * ty) :=
  match ps, args with
  | (_, p) :: ps', a :: args' => unify_args ps' args' (unify p a r)
  | _, _ => r
  end.

Fixpoint all_some {A} (l : list (option A)) : option (list A) :=
  match l with
  | [] => Some []
  | Some x :: r => match all_some r with Some xs => Some (x :: xs) | None => None end
  | None :: _ => None
  end.

(* the parameters that are paired with the call arguments: since the repair "generic function
   that captures" the environment parameter of a closure is left out (flag from the source) *)
Definition paired_params (g : mfn) : list (N * ty) :=
  if INFER_SKIPS_ENV && m_env g then tl (m_params g) else m_params g.

Definition infer_type_args (g caller : mfn) (args : list marg) : option (list ty) :=
  let r := unify_args (paired_params g) (map (operand_type caller) args) [] in
  all_some (map (lookup_ty r) (m_tparams g)).

(* collect_mono_requests *)
Definition requests_of_fn (fs : list mfn) (caller : mfn) : list (N * list ty) :=
  flat_map (fun s =>
    match s with
    | MCall (NPlain n) args =>
        match generic_fn fs n with
        | Some g => match infer_type_args g caller args with Some ta => [(n, ta)] | None => [] end
        | None => []
        end
    | _ => []
    end) (m_body caller).

Definition requests (fs : list mfn) : list (N * list ty) :=
  flat_map (fun f => if is_generic f then [] else requests_of_fn fs f) fs.

(* substitute_type: position of the id in type_params, then type_args.get(position) *)
Fixpoint index_of (i : N) (l : list N) (k : nat) : option nat :=
  match l with
  | [] => None
  | x :: r => if x =? i then Some k else index_of i r (S k)
  end.

Fixpoint subst (tp : list N) (ta : list ty) (t : ty) : ty :=
  match t with
  | TParam i => match index_of i tp 0 with
                | Some k => match nth_error ta k with Some r => r | None => t end
                | None => t
                end
  | TPtr x => TPtr (subst tp ta x)
  | TSlice x => TSlice (subst tp ta x)
  | TArr x n => TArr (subst tp ta x) n
  | TFn ps r => TFn (subst_list tp ta ps) (subst tp ta r)
  | other => other
  end
with subst_list (tp : list N) (ta : list ty) (l : tys) : tys :=
  match l with TNil => TNil | TCons t r => TCons (subst tp ta t) (subst_list tp ta r) end.

Definition subst_stmt (tp : list N) (ta : list ty) (s : mstmt) : mstmt :=
  match s with
  | MCast a b => MCast (subst tp ta a) (subst tp ta b)
  | other => other
  end.

Definition instance_of (g : mfn) (n : N) (ta : list ty) : mfn :=
  let tp := m_tparams g in
  mkmfn (NMono n (key ta)) []
        (map (fun p => (fst p, subst tp ta (snd p))) (m_params g))
        (subst tp ta (m_ret g))
        (map (fun p => (fst p, subst tp ta (snd p))) (m_locals g))
        (map (subst_stmt tp ta) (m_body g))
        (m_blocks g) (m_env g).

Definition has_inst (done : list inst) (n : N) (k : list ty) : bool :=
  existsb (fun i => (i_base i =? n) && tylist_eqb (key (i_args i)) k) done.

Fixpoint instantiate (fs : list mfn) (reqs : list (N * list ty)) (done : list inst) (newf : list mfn)
  : list inst * list mfn :=
  match reqs with
  | [] => (done, newf)
  | (n, ta) :: r =>
      if has_inst done n (key ta) then instantiate fs r done newf
      else match generic_fn fs n with
           | Some g => instantiate fs r (done ++ [mkinst n ta (NMono n (key ta))])
                                   (newf ++ [instance_of g n ta])
           | None => instantiate fs r done newf
           end
  end.

(* collect over a list of (non-generic) callers *)
Definition requests_from (fs callers : list mfn) : list (N * list ty) :=
  flat_map (fun f => if is_generic f then [] else requests_of_fn fs f) callers.

(* the instantiate / collect loop of monomorphize; [fs] = functions of the input program *)
Fixpoint rounds (fuel : nat) (fs : list mfn) (reqs : list (N * list ty)) (done : list inst)
  (allnew : list mfn) : list inst * list mfn :=
  match fuel with
  | O => (done, allnew)
  | S k =>
      let '(done', newf) := instantiate fs reqs done [] in
      match newf with
      | [] => (done', allnew)
      | _ => rounds k fs (requests_from fs newf) done' (allnew ++ newf)
      end
  end.

Definition mono_insts (p : mprog) : list inst * list mfn :=
  rounds (N.to_nat MAX_MONO_ROUNDS) (p_fns p) (requests (p_fns p)) [] [].

(* instance_for_call + rewrite of one statement of [caller] *)
Definition rewrite_stmt (fs : list mfn) (insts : list inst) (caller : mfn) (s : mstmt) : mstmt :=
  match s with
  | MCall (NPlain n) args =>
      match generic_fn fs n with
      | Some g =>
          match infer_type_args g caller args with
          | Some ta => if has_inst insts n (key ta) then MCall (NMono n (key ta)) args else s
          | None => s
          end
      | None => s
      end
  | other => other
  end.

Definition rewrite_fn (fs : list mfn) (insts : list inst) (f : mfn) : mfn :=
  if is_generic f then f
  else mkmfn (m_name f) (m_tparams f) (m_params f) (m_ret f) (m_locals f)
             (map (rewrite_stmt fs insts f) (m_body f)) (m_blocks f) (m_env f).

Definition monomorphize (p : mprog) : mprog :=
  let '(insts, newf) := mono_insts p in
  let fs := map (rewrite_fn (p_fns p) insts) (p_fns p ++ newf) in
  mkmp (filter (fun f => negb (is_generic f)) fs) (p_structs p) (p_insts p ++ insts).

(* ---- the property's clauses after monomorphisation *)
Definition fn_types (f : mfn) : list ty :=
  m_ret f :: map snd (m_params f) ++ map snd (m_locals f)
  ++ flat_map (fun s => match s with MCast a b => [a; b] | _ => [] end) (m_body f).

Fixpoint struct_names (t : ty) : list N :=
  match t with
  | TStruct s => [s]
  | TPtr x | TSlice x | TArr x _ => struct_names x
  | TFn ps r => struct_names_list ps ++ struct_names r
  | _ => []
  end
with struct_names_list (l : tys) : list N :=
  match l with TNil => [] | TCons t r => struct_names t ++ struct_names_list r end.

Definition find_struct (p : mprog) (n : name) : option mstruct :=
  find (fun s => name_eqb (s_name s) n) (p_structs p).

(* no function, local, cast mentions a type parameter *)
Definition no_params_fn (f : mfn) : bool :=
  negb (is_generic f) && forallb (fun t => negb (has_param t)) (fn_types f).

(* every struct named by a type or a StructInit exists ... *)
Definition named_structs (f : mfn) : list name :=
  map NPlain (flat_map struct_names (fn_types f))
  ++ flat_map (fun s => match s with MInit n => [n] | _ => [] end) (m_body f).
Definition structs_exist_fn (p : mprog) (f : mfn) : bool :=
  forallb (fun n => match find_struct p n with Some _ => true | None => false end) (named_structs f).
(* ... and, being reachable, has no type-parameter field (one level of struct nesting per step) *)
Fixpoint reach (p : mprog) (fuel : nat) (todo seen : list name) : list name :=
  match fuel with
  | O => seen
  | S k =>
      match todo with
      | [] => seen
      | n :: r =>
          if existsb (name_eqb n) seen then reach p k r seen
          else match find_struct p n with
               | Some s => reach p k (r ++ map NPlain (flat_map struct_names (s_fields s))) (n :: seen)
               | None => reach p k r (n :: seen)
               end
      end
  end.
Definition reachable_structs (p : mprog) : list name :=
  let roots := flat_map named_structs (p_fns p) in
  reach p (length roots + length (p_structs p) * S (length (p_structs p)) * 8 + 8) roots [].
Definition reachable_fields_closed (p : mprog) : bool :=
  forallb (fun n => match find_struct p n with
                    | Some s => forallb (fun t => negb (has_param t)) (s_fields s)
                    | None => true
                    end) (reachable_structs p).

(* every call to a (formerly) generic function targets the instance made for exactly the argument
   types at that call; [orig] is the program before monomorphisation *)
Definition find_fn (p : mprog) (n : name) : option mfn :=
  find (fun f => name_eqb (m_name f) n) (p_fns p).

Definition call_exact (orig : mprog) (p : mprog) (caller : mfn) (s : mstmt) : bool :=
  match s with
  | MCall (NPlain n) _ =>
      (* still naming a generic function that no longer exists *)
      match generic_fn (p_fns orig) n with Some _ => false | None => true end
  | MCall (NMono n k) args =>
      match generic_fn (p_fns orig) n, find_fn p (NMono n k) with
      | Some g, Some _ =>
          match infer_type_args g caller args with
          | Some ta => tylist_eqb (key ta) k
          | None => false
          end
      | _, _ => false
      end
  | _ => true
  end.
Definition calls_exact_fn (orig p : mprog) (f : mfn) : bool := forallb (call_exact orig p f) (m_body f).

Definition wf_mono (orig p : mprog) : bool :=
  forallb no_params_fn (p_fns p)
  && forallb (structs_exist_fn p) (p_fns p)
  && reachable_fields_closed p
  && forallb (calls_exact_fn orig p) (p_fns p).

(* the whole validator: CFG clauses on every function + the clauses above *)
Definition wf_air (orig p : mprog) : bool :=
  forallb (fun f => wf_cfg (m_blocks f)) (p_fns p) && wf_mono orig p.

(* ---- canonical observation for the tie: instances in creation order; per surviving function its
   types, its calls (callee as written, or the exact instance) and its struct-init names *)
Inductive cobs := CPlain (n : N) | CInst (n : N) (k : list ty) | SPlain (n : N) | SRenamed (n : N) (k : list ty).
Definition cobs_eqb (a b : cobs) : bool :=
  match a, b with
  | CPlain x, CPlain y | SPlain x, SPlain y => x =? y
  | CInst x k, CInst y l | SRenamed x k, SRenamed y l => (x =? y) && tylist_eqb k l
  | _, _ => false
  end.
Definition stmt_obs (s : mstmt) : list cobs :=
  match s with
  | MCall (NPlain n) _ => [CPlain n]
  | MCall (NMono n k) _ => [CInst n k]
  | MInit (NPlain n) => [SPlain n]
  | MInit (NMono n k) => [SRenamed n k]
  | MCast _ _ => []
  end.
Definition fn_obs (f : mfn) : name * list ty * list cobs :=
  (m_name f, map snd (m_params f) ++ [m_ret f] ++ map snd (m_locals f), flat_map stmt_obs (m_body f)).
Definition mono_obs_t : Type := (list (N * list ty) * list (name * list ty * list cobs))%type.
Definition mono_obs (p : mprog) : mono_obs_t :=
  let q := monomorphize p in
  (map (fun i => (i_base i, i_args i)) (p_insts q), map fn_obs (p_fns q)).

Fixpoint list_eqb' {A} (eqb : A -> A -> bool) (a b : list A) : bool :=
  match a, b with
  | [], [] => true
  | x :: a', y :: b' => eqb x y && list_eqb' eqb a' b'
  | _, _ => false
  end.
Definition mono_obs_eqb (a b : mono_obs_t) : bool :=
  list_eqb' (fun x y => (fst x =? fst y) && tylist_eqb (snd x) (snd y)) (fst a) (fst b)
  && list_eqb' (fun x y => name_eqb (fst (fst x)) (fst (fst y))
                           && tylist_eqb (snd (fst x)) (snd (fst y))
                           && list_eqb' cobs_eqb (snd x) (snd y)) (snd a) (snd b).
