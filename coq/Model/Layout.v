(* Model of /repo/air/src/layout.rs: layout_of, compute_layouts, resolved_layout, struct_layout,
   align_to, detect_self_references, references_by_value, field_struct_deps, topological_order.
   Definitions only.  The code is modelled as it is:
   - sizes and offsets are u32 and every addition / multiplication is checked: a result that
     does not fit is the error TooLarge (the same in debug and release builds);
   - the name -> index map is built by `collect`, so the last struct with a name wins;
   - `resolved` is keyed by name: a later insert under the same name replaces the earlier one;
   - Kahn's algorithm pops from the END of the `queue` vector (a stack);
   - try_compute_layouts returns Err(LayoutError) and leaves the program unchanged; compute_layouts
     and layout_of panic with the error's message; the error kinds are the constructors of [err].
   Struct and field names only matter up to equality, so names are numbers.  Field names are
   dropped (they only occur in panic messages). *)
From Coq Require Import NArith Bool List.
From Aelys Require Import Extracted.LayoutTable.
Import ListNotations.
Local Open Scope N_scope.

Definition W32 : N := 4294967296.

Inductive ty : Set :=
  | TPrim (p : prim)            (* scalars, Str, FnPtr{..}, Param(_), Void *)
  | TPtr (t : ty)               (* AirType::Ptr(inner): the pointee is ignored by layout *)
  | TSlice (t : ty)             (* AirType::Slice(inner) *)
  | TStruct (name : N)          (* by value *)
  | TArray (t : ty) (n : N).    (* AirType::Array(inner, n : u64) *)

Definition sdef : Set := (N * list ty)%type.       (* (name, field types in order) *)
Definition sname (d : sdef) : N := fst d.
Definition sfields (d : sdef) : list ty := snd d.

Inductive err : Set :=
  | ESelfRef        (* "struct `X` has infinite size: field `f` contains `X` by value" *)
  | ECycle          (* "recursive struct cycle: A <-> B" *)
  | EUnresolved     (* "struct `X` referenced before its layout is computed" *)
  | ETooLarge       (* LayoutError::TooLarge: "... is too large: its size does not fit in 32 bits" *)
  | ENeedsContext   (* layout_of on a Struct *)
  | EInternal.      (* index out of range / out of fuel: excluded by the theorems *)

Inductive res (A : Type) : Type :=
  | Ok (a : A)
  | Fail (e : err).
Arguments Ok {A} a.
Arguments Fail {A} e.

Definition bind {A B} (r : res A) (f : A -> res B) : res B :=
  match r with Ok a => f a | Fail e => Fail e end.

(* ---- checked u32 arithmetic *)
Definition add32 (a b : N) : res N := if W32 <=? a + b then Fail ETooLarge else Ok (a + b).
Definition not32 (x : N) : N := N.lxor x (N.ones 32).

(* fn align_to(offset, align) = Some(offset.checked_add(align - 1)? & !(align - 1)) *)
Definition align_to (offset align : N) : res N :=
  bind (add32 offset (align - 1)) (fun u => Ok (N.land u (not32 (align - 1)))).

(* ---- resolved: HashMap<String, TypeLayout>, newest binding first *)
Definition rmap : Set := list (N * (N * N)).
Fixpoint rlookup (m : rmap) (nm : N) : option (N * N) :=
  match m with
  | [] => None
  | (k, v) :: r => if k =? nm then Some v else rlookup r nm
  end.

(* array_layout: (el.size as u64).checked_mul(n) then u32::try_from; None = too large *)
Definition array_layout (el : N * N) (n : N) : res (N * N) :=
  if W32 <=? fst el * n then Fail ETooLarge else Ok (fst el * n, snd el).

Fixpoint resolved_layout (m : rmap) (t : ty) : res (N * N) :=
  match t with
  | TStruct nm => match rlookup m nm with Some l => Ok l | None => Fail EUnresolved end
  | TArray t' n => bind (resolved_layout m t') (fun el => array_layout el n)
  | TPrim p => Ok (prim_layout p)
  | TPtr _ => Ok (prim_layout PPtr)
  | TSlice _ => Ok (prim_layout PSlice)
  end.

(* pub fn layout_of: no program context; panics on Struct and on a too large array *)
Fixpoint layout_of (t : ty) : res (N * N) :=
  match t with
  | TStruct _ => Fail ENeedsContext
  | TArray t' n => bind (layout_of t') (fun el => array_layout el n)
  | TPrim p => Ok (prim_layout p)
  | TPtr _ => Ok (prim_layout PPtr)
  | TSlice _ => Ok (prim_layout PSlice)
  end.

(* the field loop of struct_layout: returns (offsets, running offset, max_align) *)
Fixpoint fields_layout (m : rmap) (fs : list ty) (offset max_align : N)
  : res (list N * N * N) :=
  match fs with
  | [] => Ok ([], offset, max_align)
  | t :: r =>
      bind (resolved_layout m t) (fun fl =>
      bind (align_to offset (snd fl)) (fun o =>
      bind (add32 o (fst fl)) (fun e =>
      bind (fields_layout m r e (N.max max_align (snd fl))) (fun x =>
      match x with (offs, e', ma) => Ok (o :: offs, e', ma) end))))
  end.

(* struct_layout: (offsets, size, align) *)
Definition struct_layout (m : rmap) (fs : list ty) : res (list N * N * N) :=
  bind (fields_layout m fs 0 1) (fun x =>
  match x with (offs, e, ma) =>
    bind (align_to e ma) (fun sz => Ok (offs, sz, ma)) end).

(* ---- name_to_idx: the last struct with the name *)
Fixpoint idx_from (E : list sdef) (nm : N) (i : nat) (acc : option nat) : option nat :=
  match E with
  | [] => acc
  | d :: r => idx_from r nm (S i) (if sname d =? nm then Some i else acc)
  end.
Definition idx_of (E : list sdef) (nm : N) : option nat := idx_from E nm 0%nat None.

(* ---- detect_self_references *)
Fixpoint refs_by_value (t : ty) (target : N) : bool :=
  match t with
  | TStruct nm => nm =? target
  | TArray t' _ => refs_by_value t' target
  | _ => false
  end.
Definition self_ref (d : sdef) : bool := existsb (fun t => refs_by_value t (sname d)) (sfields d).
Definition has_self_ref (E : list sdef) : bool := existsb self_ref E.

(* ---- field_struct_deps: the by-value struct name of a field type, if any *)
Fixpoint field_dep (t : ty) : option N :=
  match t with
  | TStruct nm => Some nm
  | TArray t' _ => field_dep t'
  | _ => None
  end.
Fixpoint nmem (x : N) (l : list N) : bool :=
  match l with [] => false | y :: r => (x =? y) || nmem x r end.
Fixpoint ndedup (l : list N) : list N :=
  match l with [] => [] | x :: r => if nmem x r then ndedup r else x :: ndedup r end.
Fixpoint omap {A B} (f : A -> option B) (l : list A) : list B :=
  match l with [] => [] | x :: r => match f x with Some y => y :: omap f r | None => omap f r end end.
(* the HashSet `deps` after `deps.remove(&def.name)` (as a duplicate-free list) *)
Definition dep_names (d : sdef) : list N :=
  filter (fun nm => negb (nm =? sname d)) (ndedup (omap field_dep (sfields d))).
(* the indices those names resolve to (names that are not defined are skipped) *)
Definition dep_idxs (E : list sdef) (d : sdef) : list nat := omap (idx_of E) (dep_names d).

Fixpoint natmem (x : nat) (l : list nat) : bool :=
  match l with [] => false | y :: r => Nat.eqb x y || natmem x r end.

(* dependents[v]: pushed in increasing i *)
Definition dependents (E : list sdef) (v : nat) : list nat :=
  filter (fun i => match nth_error E i with Some d => natmem v (dep_idxs E d) | None => false end)
         (seq 0 (length E)).
Definition in_degree0 (E : list sdef) : list nat := map (fun d => length (dep_idxs E d)) E.

Fixpoint dec_nth (l : list nat) (i : nat) : list nat :=
  match l, i with
  | [], _ => []
  | x :: r, O => Nat.pred x :: r
  | x :: r, S j => x :: dec_nth r j
  end.

(* for &dep in &dependents[node] { in_degree[dep] -= 1; if in_degree[dep] == 0 { queue.push(dep) } }
   the stack is a list whose head is the top *)
Fixpoint relax (ds : list nat) (indeg stack : list nat) : list nat * list nat :=
  match ds with
  | [] => (indeg, stack)
  | d :: r =>
      let indeg' := dec_nth indeg d in
      if Nat.eqb (nth d indeg' 1%nat) 0 then relax r indeg' (d :: stack) else relax r indeg' stack
  end.

(* while let Some(node) = queue.pop() { order.push(node); ... } ; [out] is the order reversed *)
Fixpoint kahn (E : list sdef) (fuel : nat) (indeg stack out : list nat) : option (list nat) :=
  match stack with
  | [] => Some out
  | v :: st =>
      match fuel with
      | O => None
      | S f => let '(indeg', st') := relax (dependents E v) indeg st in kahn E f indeg' st' (v :: out)
      end
  end.

Definition init_stack (indeg : list nat) : list nat :=
  rev (filter (fun i => Nat.eqb (nth i indeg 1%nat) 0) (seq 0 (length indeg))).

Definition topological_order (E : list sdef) : res (list nat) :=
  let indeg := in_degree0 E in
  match kahn E (S (length E)) indeg (init_stack indeg) [] with
  | None => Fail EInternal
  | Some out => if Nat.eqb (length out) (length E) then Ok (rev out) else Fail ECycle
  end.

(* ---- the layout loop of compute_layouts *)
Fixpoint set_nth {A} (l : list A) (i : nat) (x : A) : list A :=
  match l, i with
  | [], _ => []
  | _ :: r, O => x :: r
  | y :: r, S j => y :: set_nth r j x
  end.

(* offsets: None = the struct's fields still have `offset: None`; the offsets are written to
   the program only when every struct has been laid out *)
Fixpoint lay (E : list sdef) (order : list nat) (m : rmap) (offs : list (option (list N)))
  : res (list (option (list N)) * rmap) :=
  match order with
  | [] => Ok (offs, m)
  | i :: r =>
      match nth_error E i with
      | None => Fail EInternal
      | Some d =>
          bind (struct_layout m (sfields d)) (fun x =>
          match x with (os, sz, al) =>
            lay E r ((sname d, (sz, al)) :: m) (set_nth offs i (Some os)) end)
      end
  end.

Definition compute_layouts (E : list sdef) : res (list (option (list N)) * rmap) :=
  if has_self_ref E then Fail ESelfRef else
  bind (topological_order E) (fun order =>
  lay E order [] (map (fun _ => None) E)).
