(* The constant pool of a compiled function as a store of value words.  Definitions only. *)
From Coq Require Import NArith List.
Import ListNotations.

(* Function::add_constant (bytecode/src/bytecode/function/constants.rs): a constant is merged with
   an earlier one only when the two words are the same bit pattern, so that what is read back from
   the pool is the word that was stored (0.0 / -0.0 and 1 / 1.0 are `==` but different values) *)
Fixpoint pool_find (p : list N) (w : N) (i : nat) : option nat :=
  match p with
  | [] => None
  | x :: q => if N.eqb x w then Some i else pool_find q w (S i)
  end.

Definition pool_add (p : list N) (w : N) : list N * nat :=
  match pool_find p w 0 with
  | Some i => (p, i)
  | None => (p ++ [w], length p)
  end.

(* the indices handed out for the words in turn, then the pool *)
Fixpoint pool_adds (p : list N) (ws : list N) : list nat * list N :=
  match ws with
  | [] => ([], p)
  | w :: r => let '(p', i) := pool_add p w in
              let '(is, pf) := pool_adds p' r in (i :: is, pf)
  end.

