(* C10 -- heap limit: abstract memory state and one transition per allocating primitive, each recording
   the ORDER of "host allocates n bytes" (EHost) and "limit check" (ECheck) events as the code performs
   them.  Definitions only; proofs in Proofs/HeapLimitProofs.v.

   As read from the code:
   * ensure_heap_capacity(additional): used = heap.checked_add(manual)?; total = used.checked_add(additional)?;
     total <= max                                                            [runtime/src/vm/alloc.rs]
   * alloc_string(&str): the host string exists already (the caller built it); check; heap.alloc_string
   * alloc_array(AelysArray): the array EXISTS already (dispatch builds AelysArray::new_*(count) first, with
     count = as_int().unwrap_or(0) as usize); check(size_bytes); alloc_object: check(estimate); charge
   * VecPush / VecReserve: Vec growth on the host, no check, the charge made at creation is never updated;
     sweep subtracts the CURRENT estimate (saturating)
   * manual_alloc(size): checked_mul(8); check; ManualHeap::alloc (size == 0 -> InvalidSize; vec![null; size]); charge
   * bytes.alloc(size): size <= 0 or size > MAX_ALLOC -> error; host allocation; never charged
   * string.repeat(s, n): n <= 0 -> ""; s.repeat(n as usize) on the host; then make_string -> check
   * string.pad_left/right(s, width, c): width as usize; repeat_n(c, width - chars).collect(); format!(); then check *)
From Coq Require Import NArith ZArith Bool List.
From Aelys Require Import Extracted.HeapConsts.
Import ListNotations.
Local Open Scope N_scope.

Definition U64 : N := 18446744073709551616.
Definition ISIZE_MAX : N := 9223372036854775807.

Record mem := mkMem { heap : N; manual : N; maxb : N }.
Inductive res := ROk | ROom | RInvalidSize | RTypeErr | RPanic | RAbort.
Inductive evt := EHost (n : N) | ECheck (n : N) (ok : bool) | ECharge (n : N).

Definition checked_add (a b : N) : option N := if a + b <? U64 then Some (a + b) else None.
Definition checked_mul (a b : N) : option N := if a * b <? U64 then Some (a * b) else None.
Definition ensure (m : mem) (add : N) : bool :=
  match checked_add (heap m) (manual m) with
  | None => false
  | Some used => match checked_add used add with
                 | None => false
                 | Some t => t <=? maxb m
                 end
  end.
Definition add_heap (m : mem) (n : N) : mem := mkMem (heap m + n) (manual m) (maxb m).
Definition add_manual (m : mem) (n : N) : mem := mkMem (heap m) (manual m + n) (maxb m).
Definition held (m : mem) : N := heap m + manual m.
Definition Inv (m : mem) : Prop := heap m + manual m <= maxb m.

(* `x as usize` for an i64 *)
Definition usize_of (z : Z) : N := Z.to_N (z mod 18446744073709551616).
(* what the host does with a request of n bytes: grants it iff n <= cap (the model cannot know more) *)
Definition host_ok (cap n : N) : bool := n <=? cap.

(* ---- guarded primitives *)
Definition op_string (m : mem) (len : N) : res * mem * list evt :=
  let size := SZ_STRING + len in
  if ensure m size then (ROk, add_heap m size, [EHost len; ECheck size true; EHost len; ECharge size])
  else (ROom, m, [EHost len; ECheck size false]).
Definition op_object (m : mem) (size : N) : res * mem * list evt :=
  if ensure m size then (ROk, add_heap m size, [ECheck size true; EHost size; ECharge size])
  else (ROom, m, [ECheck size false]).
Definition op_manual (m : mem) (n : Z) : res * mem * list evt :=
  if (n <? 0)%Z then (RTypeErr, m, [])
  else match checked_mul (Z.to_N n) SZ_VALUE with
       | None => (ROom, m, [])
       | Some bytes =>
           if ensure m bytes then
             if (n =? 0)%Z then (RInvalidSize, m, [ECheck bytes true])
             else (ROk, add_manual m bytes, [ECheck bytes true; EHost bytes; ECharge bytes])
           else (ROom, m, [ECheck bytes false])
       end.
Definition op_manual_free (m : mem) (bytes : N) : mem := mkMem (heap m) (manual m - bytes) (maxb m).
(* sweep of one object: the CURRENT estimate is subtracted, saturating *)
Definition op_sweep (m : mem) (current : N) : mem := mkMem (heap m - current) (manual m) (maxb m).

Definition op_bytes (cap : N) (m : mem) (n : Z) : res * mem * list evt :=
  if (n <=? 0)%Z then (RTypeErr, m, [])
  else if MAX_ALLOC <? Z.to_N n then (RTypeErr, m, [])
  else if host_ok cap (Z.to_N n) then (ROk, m, [EHost (Z.to_N n)]) else (RAbort, m, [EHost (Z.to_N n)]).

(* ---- unguarded / late-checked primitives *)
Definition op_array (cap : N) (esz : N) (m : mem) (count : Z) : res * mem * list evt :=
  let len := usize_of count in
  let bytes := len * esz in
  if ISIZE_MAX <? bytes then (RPanic, m, [])                      (* vec![x; len]: "capacity overflow" *)
  else if negb (host_ok cap bytes) then (RAbort, m, [EHost bytes])
  else let size := SZ_ARRAY + bytes in
       if ensure m size then (ROk, add_heap m size, [EHost bytes; ECheck size true; ECheck size true; ECharge size])
       else (ROom, m, [EHost bytes; ECheck size false]).

Record vecst := mkVec { vlen : N; vcap : N; vcharged : N }.
Definition vec_bytes (v : vecst) : N := SZ_VEC + vcap v * SZ_VALUE.
(* RawVec::grow_amortized for 8-byte elements *)
Definition grow (cap required : N) : N := N.max 4 (N.max (2 * cap) required).
Definition op_vec_push (cap : N) (m : mem) (v : vecst) : res * mem * vecst * list evt :=
  if vlen v <? vcap v then (ROk, m, mkVec (vlen v + 1) (vcap v) (vcharged v), [])
  else let nc := grow (vcap v) (vlen v + 1) in
       if ISIZE_MAX <? nc * SZ_VALUE then (RPanic, m, v, [])
       else if host_ok cap (nc * SZ_VALUE) then (ROk, m, mkVec (vlen v + 1) nc (vcharged v), [EHost (nc * SZ_VALUE)])
       else (RAbort, m, v, [EHost (nc * SZ_VALUE)]).
Definition op_vec_reserve (cap : N) (m : mem) (v : vecst) (additional : Z) : res * mem * vecst * list evt :=
  let add := usize_of additional in
  if add <=? vcap v - vlen v then (ROk, m, v, [])
  else if U64 <=? vlen v + add then (RPanic, m, v, [])
  else let nc := grow (vcap v) (vlen v + add) in
       if ISIZE_MAX <? nc * SZ_VALUE then (RPanic, m, v, [])
       else if host_ok cap (nc * SZ_VALUE) then (ROk, m, mkVec (vlen v) nc (vcharged v), [EHost (nc * SZ_VALUE)])
       else (RAbort, m, v, [EHost (nc * SZ_VALUE)]).
Fixpoint push_many (fuel : nat) (cap : N) (m : mem) (v : vecst) : res * mem * vecst :=
  match fuel with
  | O => (ROk, m, v)
  | S k => match op_vec_push cap m v with
           | (ROk, m', v', _) => push_many k cap m' v'
           | (r, m', v', _) => (r, m', v')
           end
  end.

(* interned: true when the result is a string that already exists (no allocation at all) *)
Definition op_repeat (cap : N) (m : mem) (slen : N) (n : Z) : res * mem * list evt :=
  if (n <=? 0)%Z then op_string m 0
  else let total := slen * usize_of n in
       if ISIZE_MAX <? total then (RPanic, m, [])
       else if negb (host_ok cap total) then (RAbort, m, [EHost total])
       else let size := SZ_STRING + total in
            if ensure m size then (ROk, add_heap m size, [EHost total; ECheck size true; EHost total; ECharge size])
            else (ROom, m, [EHost total; ECheck size false]).
(* pad_left: format!("{}{}", padding, s) -- the buffer holds the padding exactly, pushing s doubles it (grow_amortized);
   pad_right: format!("{}{}", s, padding) -- one growth to the exact size.  `need` = host bytes live at the peak. *)
Definition op_pad (left : bool) (cap : N) (m : mem) (slen : N) (width : Z) : res * mem * list evt :=
  let w := usize_of width in
  if w <=? slen then (ROk, m, [])                                  (* make_string(s): already interned *)
  else let pad := w - slen in
       let need := if left then 3 * pad else pad + w in
       if ISIZE_MAX <? pad then (RPanic, m, [])
       else if negb (host_ok cap pad) then (RAbort, m, [EHost pad])
       else if negb (host_ok cap need) then (RAbort, m, [EHost pad; EHost w])
       else let size := SZ_STRING + w in
            if ensure m size then (ROk, add_heap m size, [EHost pad; EHost w; ECheck size true; EHost w; ECharge size])
            else (ROom, m, [EHost pad; EHost w; ECheck size false]).

(* s = s + s, k times, no collection in between (valid while the heap stays below the GC threshold) *)
Fixpoint concat_double (fuel : nat) (m : mem) (len : N) : res * mem :=
  match fuel with
  | O => (ROk, m)
  | S k => match op_string m (2 * len) with
           | (ROk, m', _) => concat_double k m' (2 * len)
           | (r, m', _) => (r, m')
           end
  end.

(* ---- event-order predicates *)
(* no host allocation before the first limit check *)
Fixpoint check_first (t : list evt) : bool :=
  match t with
  | [] => true
  | EHost _ :: _ => false
  | ECheck _ _ :: _ => true
  | ECharge _ :: r => check_first r
  end.
Fixpoint host_total (t : list evt) : N :=
  match t with [] => 0 | EHost n :: r => n + host_total r | _ :: r => host_total r end.

(* ---- histories of guarded operations *)
Inductive gop := GStr (len : N) | GObj (size : N) | GManual (n : Z) | GManualFree (bytes : N) | GSweep (size : N).
Definition gstep (m : mem) (o : gop) : res * mem * list evt :=
  match o with
  | GStr len => op_string m len
  | GObj size => op_object m size
  | GManual n => op_manual m n
  | GManualFree b => (ROk, op_manual_free m b, [])
  | GSweep s => (ROk, op_sweep m s, [])
  end.
Fixpoint grun (m : mem) (h : list gop) : mem :=
  match h with [] => m | o :: r => grun (snd (fst (gstep m o))) r end.
