(* C10 -- heap limit: abstract memory state and one transition per allocating primitive, each recording
   the ORDER of "host allocates n bytes" (EHost) and "limit check" (ECheck) events as the code performs
   them.  Definitions only; proofs in Proofs/HeapLimitProofs.v.

   As read from the code:
   * ensure_heap_capacity(additional): used = heap.checked_add(manual)?; total = used.checked_add(additional)?;
     total <= max                                                            [runtime/src/vm/alloc.rs]
   * alloc_string(&str): the host string exists already (the caller built it); check; heap.alloc_string
   * ArrayNew*: VM::checked_array_len validates the count and consults the limit, THEN AelysArray::new_*(count);
     alloc_array: check(size_bytes); alloc_object: check(estimate); charge
     (before the repair: the array was built first, with count = as_int().unwrap_or(0) as usize)
   * VecPush / VecReserve: VM::vec_reserve_checked computes the growth, checks it, grows with reserve_exact and
     records it (Heap::account_growth); sweep subtracts the CURRENT estimate (saturating), which now equals
     what has been charged (before the repair: growth was unchecked and unaccounted)
   * manual_alloc(size): checked_mul(8); check; ManualHeap::alloc (size == 0 -> InvalidSize; vec![null; size]); charge
   * bytes.alloc(size): size <= 0 or size > MAX_ALLOC -> error; host allocation; never charged
   * string.repeat(s, n): n <= 0 -> ""; len * n checked; VM::check_string_capacity; then s.repeat(n) on the host;
     make_string -> check, charge
   * string.pad_left/right(s, width, c): width <= chars (or negative) -> s; resulting length checked first; then
     repeat_n(c, width - chars).collect(); format!(); make_string   (before the repair of both: host string first) *)
From Coq Require Import NArith ZArith Bool List.
From Aelys Require Import Extracted.HeapConsts.
Import ListNotations.
Local Open Scope N_scope.

Definition U64 : N := 18446744073709551616.
Definition ISIZE_MAX : N := 9223372036854775807.

Record mem := mkMem { heap : N; manual : N; maxb : N }.
Inductive res := ROk | ROom | RInvalidSize | RTypeErr | RPanic | RAbort.
Inductive evt := EHost (n : N) | ECheck (n : N) (ok : bool) | ECharge (n : N).

Definition checked_add (a b : N) : option N := if a + b <? U64 then Some (a + b) else None.
Definition checked_mul (a b : N) : option N := if a * b <? U64 then Some (a * b) else None.
Definition ensure (m : mem) (add : N) : bool :=
  match checked_add (heap m) (manual m) with
  | None => false
  | Some used => match checked_add used add with
                 | None => false
                 | Some t => t <=? maxb m
                 end
  end.
Definition add_heap (m : mem) (n : N) : mem := mkMem (heap m + n) (manual m) (maxb m).
Definition add_manual (m : mem) (n : N) : mem := mkMem (heap m) (manual m + n) (maxb m).
Definition held (m : mem) : N := heap m + manual m.
Definition Inv (m : mem) : Prop := heap m + manual m <= maxb m.

(* `x as usize` for an i64 *)
Definition usize_of (z : Z) : N := Z.to_N (z mod 18446744073709551616).
(* what the host does with a request of n bytes: grants it iff n <= cap (the model cannot know more) *)
Definition host_ok (cap n : N) : bool := n <=? cap.

(* ---- guarded primitives *)
Definition op_string (m : mem) (len : N) : res * mem * list evt :=
  let size := SZ_STRING + len in
  if ensure m size then (ROk, add_heap m size, [EHost len; ECheck size true; EHost len; ECharge size])
  else (ROom, m, [EHost len; ECheck size false]).
Definition op_object (m : mem) (size : N) : res * mem * list evt :=
  if ensure m size then (ROk, add_heap m size, [ECheck size true; EHost size; ECharge size])
  else (ROom, m, [ECheck size false]).
Definition op_manual (m : mem) (n : Z) : res * mem * list evt :=
  if (n <? 0)%Z then (RTypeErr, m, [])
  else match checked_mul (Z.to_N n) SZ_VALUE with
       | None => (ROom, m, [])
       | Some bytes =>
           if ensure m bytes then
             if (n =? 0)%Z then (RInvalidSize, m, [ECheck bytes true])
             else (ROk, add_manual m bytes, [ECheck bytes true; EHost bytes; ECharge bytes])
           else (ROom, m, [ECheck bytes false])
       end.
Definition op_manual_free (m : mem) (bytes : N) : mem := mkMem (heap m) (manual m - bytes) (maxb m).
(* sweep of one object: the CURRENT estimate is subtracted, saturating *)
Definition op_sweep (m : mem) (current : N) : mem := mkMem (heap m - current) (manual m) (maxb m).

(* bytes.alloc(n): size validated, then -- when the natives charge byte buffers (Extracted BYTES_CHARGED: VM::charge_byte_buffer) --
   the limit is consulted and the buffer charged to the manual counter before the host is asked; before that repair the
   buffer was built without looking at the limit *)
Definition op_bytes_gen (charged : bool) (cap : N) (m : mem) (n : Z) : res * mem * list evt :=
  if (n <=? 0)%Z then (RTypeErr, m, [])
  else if MAX_ALLOC <? Z.to_N n then (RTypeErr, m, [])
  else let b := Z.to_N n in
       if charged then
         (if ensure m b then
            (if host_ok cap b then (ROk, add_manual m b, [ECheck b true; EHost b; ECharge b]) else (RAbort, m, [ECheck b true; EHost b]))
          else (ROom, m, [ECheck b false]))
       else if host_ok cap b then (ROk, m, [EHost b]) else (RAbort, m, [EHost b]).
Definition op_bytes := op_bytes_gen BYTES_CHARGED.

(* ---- primitives that were unguarded / late-checked before the repairs (KF-C10-1..5); now the size is
   validated and the limit consulted before any storage is built *)

(* ArrayNew*: VM::checked_array_len -- negative -> TypeError; size_of::<AelysArray>() + count * elem with
   checked arithmetic must pass ensure_heap_capacity; only then AelysArray::new_*(count), alloc_array
   (check), alloc_object (check), charge *)
Definition op_array (cap : N) (esz : N) (m : mem) (count : Z) : res * mem * list evt :=
  if (count <? 0)%Z then (RTypeErr, m, [])
  else let bytes := Z.to_N count * esz in
       let size := SZ_ARRAY + bytes in
       if U64 <=? size then (ROom, m, [])
       else if ensure m size then
              if host_ok cap bytes then (ROk, add_heap m size, [ECheck size true; EHost bytes; ECheck size true; ECheck size true; ECharge size])
              else (RAbort, m, [ECheck size true; EHost bytes])
            else (ROom, m, [ECheck size false]).

(* a vec: length, capacity (in elements), bytes per element (1 for Vec<Bool>, 8 otherwise) and what the heap has
   been charged for it *)
Record vecst := mkVec { vlen : N; vcap : N; vcharged : N; velem : N }.
Definition vec_bytes (v : vecst) : N := SZ_VEC + vcap v * velem v.
Definition USIZE_MAX : N := U64 - 1.
(* VM::vec_reserve_checked: the growth is computed first (amortised doubling, or the exact need when the
   doubling does not fit), checked, performed with reserve_exact and recorded with Heap::account_growth *)
Definition vec_grow (cap : N) (m : mem) (v : vecst) (add : N) : res * mem * vecst * list evt :=
  if add <=? vcap v - vlen v then (ROk, m, v, [])
  else if USIZE_MAX <? vlen v + add then (ROom, m, v, [])
  else let required := vlen v + add in
       let amortised := N.max required (N.max (VEC_GROWTH_FACTOR * vcap v) VEC_MIN_CAP) in
       let bytes_of (nc : N) := (nc - vcap v) * velem v in
       let finish (nc : N) :=
         if host_ok cap (nc * velem v)
         then (ROk, add_heap m (bytes_of nc), mkVec (vlen v) nc (vcharged v + bytes_of nc) (velem v),
               [ECheck (bytes_of nc) true; EHost (nc * velem v); ECharge (bytes_of nc)])
         else (RAbort, m, v, [ECheck (bytes_of nc) true; EHost (nc * velem v)]) in
       if (bytes_of amortised <? U64) && ensure m (bytes_of amortised) then finish amortised
       else if U64 <=? bytes_of required then (ROom, m, v, [])
       else if ensure m (bytes_of required) then finish required
       else (ROom, m, v, [ECheck (bytes_of required) false]).
Definition op_vec_push (cap : N) (m : mem) (v : vecst) : res * mem * vecst * list evt :=
  match vec_grow cap m v 1 with
  | (ROk, m', v', t) => (ROk, m', mkVec (vlen v' + 1) (vcap v') (vcharged v') (velem v'), t)
  | r => r
  end.
Definition op_vec_reserve (cap : N) (m : mem) (v : vecst) (additional : Z) : res * mem * vecst * list evt :=
  if (additional <? 0)%Z then (RTypeErr, m, v, []) else vec_grow cap m v (Z.to_N additional).
Fixpoint push_many (fuel : nat) (cap : N) (m : mem) (v : vecst) : res * mem * vecst :=
  match fuel with
  | O => (ROk, m, v)
  | S k => match op_vec_push cap m v with
           | (ROk, m', v', _) => push_many k cap m' v'
           | (r, m', v', _) => (r, m', v')
           end
  end.

(* string.repeat: n <= 0 -> ""; len * n with checked arithmetic; VM::check_string_capacity; then s.repeat(n)
   on the host; make_string (intern_string: check again, charge) *)
Definition op_repeat (cap : N) (m : mem) (slen : N) (n : Z) : res * mem * list evt :=
  if (n <=? 0)%Z then op_string m 0
  else let total := slen * Z.to_N n in
       if ISIZE_MAX <? total then (ROom, m, [])
       else let size := SZ_STRING + total in
            if ensure m size then
              if host_ok cap total then (ROk, add_heap m size, [ECheck size true; EHost total; ECheck size true; EHost total; ECharge size])
              else (RAbort, m, [ECheck size true; EHost total])
            else (ROom, m, [ECheck size false]).
(* a native that knows the byte length of its result before building it (replace: matches * new + rest; join:
   lines + separators): VM::check_string_capacity first, then the host builds it, then make_string (check, charge) *)
Definition op_string_checked (cap : N) (m : mem) (total : N) : res * mem * list evt :=
  if ISIZE_MAX <? total then (ROom, m, [])
  else let size := SZ_STRING + total in
       if ensure m size then
         if host_ok cap total then (ROk, add_heap m size, [ECheck size true; EHost total; ECheck size true; EHost total; ECharge size])
         else (RAbort, m, [ECheck size true; EHost total])
       else (ROom, m, [ECheck size false]).

(* string.pad_left / pad_right of a string of `schars` characters / `sbytes` bytes with a pad character of `pb`
   bytes: a width that is not larger than the string (or negative) returns the string itself; otherwise the
   resulting BYTE length (width - chars) * pb + bytes is checked first *)
Definition op_pad (cap : N) (m : mem) (schars sbytes pb : N) (width : Z) : res * mem * list evt :=
  if (width <=? 0)%Z || (Z.to_N width <=? schars) then (ROk, m, [])        (* make_string(s): already interned *)
  else let total := (Z.to_N width - schars) * pb + sbytes in
       if ISIZE_MAX <? total then (ROom, m, [])
       else let size := SZ_STRING + total in
            if ensure m size then
              if host_ok cap (3 * total) then (ROk, add_heap m size, [ECheck size true; EHost (total - sbytes); EHost total; ECheck size true; EHost total; ECharge size])
              else (RAbort, m, [ECheck size true; EHost (total - sbytes)])
            else (ROom, m, [ECheck size false]).

(* s = s + s, k times, no collection in between (valid while the heap stays below the GC threshold) *)
Fixpoint concat_double (fuel : nat) (m : mem) (len : N) : res * mem :=
  match fuel with
  | O => (ROk, m)
  | S k => match op_string m (2 * len) with
           | (ROk, m', _) => concat_double k m' (2 * len)
           | (r, m', _) => (r, m')
           end
  end.

(* ---- event-order predicates *)
(* no host allocation before the first limit check *)
Fixpoint check_first (t : list evt) : bool :=
  match t with
  | [] => true
  | EHost _ :: _ => false
  | ECheck _ _ :: _ => true
  | ECharge _ :: r => check_first r
  end.
Fixpoint host_total (t : list evt) : N :=
  match t with [] => 0 | EHost n :: r => n + host_total r | _ :: r => host_total r end.

(* ---- histories: every allocating primitive *)
Inductive gop := GStr (len : N) | GObj (size : N) | GManual (n : Z) | GManualFree (bytes : N) | GSweep (size : N)
               | GArray (esz : N) (count : Z) | GVecPush (v : vecst) | GVecReserve (v : vecst) (additional : Z)
               | GRepeat (slen : N) (n : Z) | GPad (schars sbytes pb : N) (width : Z) | GBytes (n : Z)
               | GStrChecked (total : N).
Definition gstep (cap : N) (m : mem) (o : gop) : res * mem * list evt :=
  match o with
  | GStr len => op_string m len
  | GObj size => op_object m size
  | GManual n => op_manual m n
  | GManualFree b => (ROk, op_manual_free m b, [])
  | GSweep s => (ROk, op_sweep m s, [])
  | GArray e n => op_array cap e m n
  | GVecPush v => let '(r, m', _, t) := op_vec_push cap m v in (r, m', t)
  | GVecReserve v a => let '(r, m', _, t) := op_vec_reserve cap m v a in (r, m', t)
  | GRepeat sl n => op_repeat cap m sl n
  | GPad sc sb pb w => op_pad cap m sc sb pb w
  | GBytes n => op_bytes cap m n
  | GStrChecked total => op_string_checked cap m total
  end.
Fixpoint grun (cap : N) (m : mem) (h : list gop) : mem :=
  match h with [] => m | o :: r => grun cap (snd (fst (gstep cap m o))) r end.
