(* C05 -- the global-call inline caches ON TOP of the session machine of Model/Session.v.

   Model/Session.v resolves a global call by reading the callee's value from the loaded by-index
   vector and looking the object up in the heap (what opcode 77 does on its slow path).  The real
   interpreter rewrites call sites (77 -> 78 / 104) and keeps a VM-wide call_site_cache indexed by
   slot ids that are NOT unique (every REPL unit and every module starts numbering at 0; a reload
   zeroes them).  This file adds exactly that protocol:

     runtime/src/vm/dispatch/ops/call_global.inc        77: resolve, fill call_site_cache[slot], patch the site to 78
     runtime/src/vm/dispatch/ops/call_global_mono.inc   78: fast path when the entry's owner is the pointer cached at the
                                                            site and the global still denotes it; arity from the entry,
                                                            layout switch with the entry's layout, frame from the entry's
                                                            code pointers -- otherwise the miss path
     runtime/src/vm/dispatch/ops/calls.inc               104: a site compiled for a known native; follows a rebinding
     runtime/src/vm/globals/access.rs                    every global write clears call_site_cache

   A call site is identified by the code it belongs to (a function's code or a top-level unit) and its
   position; slot_of is ARBITRARY (collisions allowed), native_hint says which sites the compiler emitted as
   104.  Arities, the per-layout index vectors, the snapshot cache, frames and unwinding are those of
   Model/Session.v.  Not here: freeing and reuse of heap indices (Model/CallCache.v: events Retire / Collect),
   closures and calls through upvalues.  Definitions only. *)
From Coq Require Import NArith ZArith List Bool.
From Aelys Require Import Extracted.CallCacheConsts Extracted.ReplShape Model.Session.
Import ListNotations.
Local Open Scope N_scope.

Inductive cid := CFn (fid : N) | CUnit (k : N).
Definition cid_eqb (a b : cid) : bool :=
  match a, b with CFn x, CFn y => x =? y | CUnit x, CUnit y => x =? y | _, _ => false end.

(* the opcode stored at the site and its first cache word *)
Inductive form := Plain | Mono (p : N) | Native (p : N).
Definition opcode_of_form (f : form) : N :=
  match f with Plain => OP_CALL_GLOBAL | Mono _ => OP_CALL_GLOBAL_MONO | Native _ => OP_CALL_GLOBAL_NATIVE end.

(* CallSiteCacheEntry: owner (the object it was built from), and what the fast path uses instead of
   the heap: arity, callee_gmap (the layout), the code pointers (the code and its body) *)
Record entry := mkE { e_owner : N; e_fid : N; e_fd : fdef }.

(* c_hits: how often the fast path of 78 was taken (a counter for the examples; nothing reads it) *)
Record cstate := mkC { c_sites : list (cid * nat * form); c_cache : list (N * entry); c_hits : N }.
Definition cinit : cstate := mkC [] [] 0.

Fixpoint site_lookup (o : cid) (k : nat) (l : list (cid * nat * form)) : option form :=
  match l with
  | [] => None
  | (o', k', f) :: r => if cid_eqb o o' && Nat.eqb k k' then Some f else site_lookup o k r
  end.

Inductive target := TFn (fid : N) (fd : fdef) | TNat (tag : Z) (ar : N) | TErr.

Section WithCode.
Variable C : code.
Variable slot_of : cid -> nat -> N.          (* the slot id in the site's second cache word *)
Variable native_hint : cid -> nat -> bool.   (* the compiler emitted 104 for this site *)

Definition get_form (cs : cstate) (o : cid) (k : nat) : form :=
  match site_lookup o k (c_sites cs) with
  | Some f => f
  | None => if native_hint o k then Native 0 else Plain
  end.
Definition set_form (cs : cstate) (o : cid) (k : nat) (f : form) : cstate :=
  mkC ((o, k, f) :: c_sites cs) (c_cache cs) (c_hits cs).
(* call_site_cache[slot] = entry; the site becomes 78 with the callee's pointer *)
Definition fill (cs : cstate) (o : cid) (k : nat) (p fid : N) (fd : fdef) : cstate :=
  mkC ((o, k, Mono p) :: c_sites cs) ((slot_of o k, mkE p fid fd) :: c_cache cs) (c_hits cs).
(* set_global / set_global_by_index *)
Definition clear (cs : cstate) : cstate :=
  mkC (c_sites cs) (if SET_GLOBAL_CLEARS_CACHE then [] else c_cache cs) (c_hits cs).

(* what a value denotes right now (the slow path of 77; a register call) *)
Definition target_of (st : mstate) (v : value) : target :=
  match v with
  | VPtr p => match lookup p (m_heap st) with
              | Some (OFn fid) => match lookup fid C with Some fd => TFn fid fd | None => TErr end
              | Some (ONat tag ar) => TNat tag ar
              | None => TErr
              end
  | _ => TErr
  end.

Definition value_is (v : value) (p : N) : bool := match v with VPtr q => q =? p | _ => false end.
Definition is_native_at (st : mstate) (q : N) : bool :=
  match lookup q (m_heap st) with Some (ONat _ _) => true | _ => false end.

(* 77, and the miss path of 78 (repatch = false: a native found on the miss path is called, the site stays 78) *)
Definition resolve_fill (st : mstate) (cs : cstate) (o : cid) (k : nat) (v : value) (repatch : bool) : cstate * target :=
  match v with
  | VPtr p => match lookup p (m_heap st) with
              | Some (OFn fid) =>
                  match lookup fid C with
                  | Some fd => if MAX_CALL_SITE_SLOTS <=? slot_of o k then (cs, TErr)
                               else (fill cs o k p fid fd, TFn fid fd)
                  | None => (cs, TErr)
                  end
              | Some (ONat tag ar) => ((if repatch then set_form cs o k (Native p) else cs), TNat tag ar)
              | None => (cs, TErr)
              end
  | _ => (cs, TErr)
  end.

(* 104: the global no longer denotes the cached native / denotes no native at all *)
Definition despecialise (st : mstate) (v : value) (p : N) : bool :=
  match v with
  | VPtr q => (negb (p =? 0) && negb (q =? p)) || negb (is_native_at st q)
  | _ => negb (p =? 0)
  end.
Definition native_body (st : mstate) (cs : cstate) (o : cid) (k : nat) (v : value) (p : N) : cstate * target :=
  if p =? 0 then
    match v with
    | VPtr q => match lookup q (m_heap st) with
                | Some (ONat tag ar) => (set_form cs o k (Native q), TNat tag ar)
                | _ => (cs, TErr)
                end
    | _ => (cs, TErr)
    end
  else match lookup p (m_heap st) with
       | Some (ONat tag ar) => (cs, TNat tag ar)
       | _ => (cs, TErr)
       end.

(* the callee a global call at site (o, k) runs when the global's current value is v *)
Definition dispatch (st : mstate) (cs : cstate) (o : cid) (k : nat) (v : value) : cstate * target :=
  match get_form cs o k with
  | Plain => resolve_fill st cs o k v true
  | Mono p =>
      if negb (p =? 0) then
        match lookup (slot_of o k) (c_cache cs) with
        | Some e =>
            (* the entry must have been built from the callee cached at this site, and the global must still
               denote that callee; then arity, layout and code come from the entry *)
            if negb MONO_FAST_PATH_VALIDATES || ((e_owner e =? p) && value_is v p)
            then (mkC (c_sites cs) (c_cache cs) (c_hits cs + 1), TFn (e_fid e) (e_fd e))
            else resolve_fill st cs o k v false
        | None => resolve_fill st cs o k v false
        end
      else resolve_fill st cs o k v false
  | Native p =>
      if NATIVE_SITE_FOLLOWS_REBINDING && despecialise st v p
      then resolve_fill st (set_form cs o k Plain) o k v true      (* rewritten to 77 and dispatched again *)
      else native_body st cs o k v p
  end.

(* the machine of Model/Session.v with the caches; o: the code that is running *)
Fixpoint exec_c (fuel : nat) (o : cid) (Lf : layout) (arg : value) (st : mstate) (cs : cstate) (body : list instr)
  : mstate * cstate * list Z * status :=
  match fuel with
  | O => (st, cs, [], SFuel)
  | S f =>
    match body with
    | [] => (st, cs, [], SOk)
    | i :: r =>
      let continue (st1 : mstate) (cs1 : cstate) (out : list Z) :=
        let '(st2, cs2, out2, s) := exec_c f o Lf arg st1 cs1 r in (st2, cs2, out ++ out2, s) in
      let call (cs1 : cstate) (t : target) (nargs : N) (av : value) :=
        match t with
        | TFn fid fd =>
            if negb (fd_arity fd =? nargs) then (st, cs1, [], SErr)
            else if MAX_FRAMES <=? N.of_nat (length (frames st)) then (switch_layout st (fd_layout fd), cs1, [], SErr)
            else
              let '(st1, cs2, out1, s1) := exec_c f (CFn fid) (fd_layout fd) av (call_enter st (fd_layout fd)) cs1 (fd_body fd) in
              match s1 with
              | SOk => continue (do_return st1) cs2 out1
              | _ => (st1, cs2, out1, s1)
              end
        | TNat tag ar => if negb (ar =? nargs) then (st, cs1, [], SErr) else continue st cs1 [tag]
        | TErr => (st, cs1, [], SErr)
        end in
      match i with
      | ISet n v => match pos_of n Lf with Some i => continue (set_idx st i v) (clear cs) [] | None => (st, cs, [], SBad) end
      | ICopy d src => match pos_of d Lf, pos_of src Lf with
                       | Some i, Some j => continue (set_idx st i (gnth (gidx st) j)) (clear cs) []
                       | _, _ => (st, cs, [], SBad)
                       end
      | IAdd n k => match pos_of n Lf with
                    | Some i => match gnth (gidx st) i with
                                | VInt z => continue (set_idx st i (VInt (z + k))) (clear cs) []
                                | _ => (st, cs, [], SErr)
                                end
                    | None => (st, cs, [], SBad)
                    end
      | IPrint n k => match pos_of n Lf with
                      | Some i => continue st cs [(pval (gnth (gidx st) i) + k)%Z]
                      | None => (st, cs, [], SBad)
                      end
      | IOut z => continue st cs [z]
      | IDef n fid => match pos_of n Lf with
                      | Some i =>
                          let st1 := mkM (gmap st) (gidx st) (cur st) (snap st) (frames st)
                                         ((m_next st, OFn fid) :: m_heap st) (N.succ (m_next st)) in
                          continue (set_idx st1 i (VPtr (m_next st))) (clear cs) []
                      | None => (st, cs, [], SBad)
                      end
      | ICall c nargs a =>
          match (match c with CGlobal n => mread st Lf n | CArg => Some arg end),
                (match a with Some g => mread st Lf g | None => Some VNull end) with
          | Some fv, Some av =>
              match c with
              | CGlobal _ => let '(cs1, t) := dispatch st cs o (length r) fv in call cs1 t nargs av
              | CArg => call cs (target_of st fv) nargs av          (* a register call: no inline cache *)
              end
          | _, _ => (st, cs, [], SBad)
          end
      | IFail => (st, cs, [], SErr)
      end
    end
  end.

(* ---- the driver loop with the caches; every unit is new code (its sites start unspecialised) ---- *)
Record cdstate := mkCD { cd_d : dstate; cd_cs : cstate; cd_unit : N }.
Definition cdinit : cdstate := mkCD dinit cinit 0.

Definition run_unit_c (fuel : nat) (vm : mstate) (cs : cstate) (u : N) (L : layout) (body : list instr)
  : mstate * cstate * list Z * status :=
  let '(vm1, cs1, out, s) := exec_c fuel (CUnit u) L VNull (execute vm L) cs body in
  match s with
  | SOk => (do_return vm1, cs1, out, SOk)
  | _ => ((if RUN_FAST_UNWINDS_ON_ERROR then with_frames vm1 (unwind (frames vm1)) else vm1), cs1, out, s)
  end.

Fixpoint load_modules_c (fuel : nat) (vm : mstate) (cs : cstate) (u : N) (loaded : list N) (ms : list munit)
  : mstate * cstate * N * list N * list Z * status :=
  match ms with
  | [] => (vm, cs, u, loaded, [], SOk)
  | m :: r =>
      if mu_fails m then (vm, cs, u, loaded, [], SErr) else
      let run := negb (memb (mu_id m) loaded) in
      let '(vm1, cs1, out, s) := if run then run_unit_c fuel vm cs u (mu_layout m) (mu_body m) else (vm, cs, [], SOk) in
      match s with
      | SOk =>
          let vm2 := if MODULE_SYNCS_BEFORE_EXPORTS && run then sync_loaded vm1 else vm1 in
          let vm3 := fold_left (fun v e => set_name v (fst e) (glookup (gmap v) (snd e))) (mu_exports m) vm2 in
          let cs2 := match mu_exports m with [] => cs1 | _ => clear cs1 end in       (* set_global clears the cache *)
          let '(vm4, cs3, u', l4, out2, s2) := load_modules_c fuel vm3 cs2 (N.succ u) (if run then mu_id m :: loaded else loaded) r in
          (vm4, cs3, u', l4, out ++ out2, s2)
      | _ => (vm1, cs1, N.succ u, loaded, out, s)
      end
  end.

Definition mstep_c (fuel : nat) (cd : cdstate) (st : step) : cdstate * list Z * status :=
  let d := cd_d cd in
  match st with
  | SInput imports compiles L body newmut imported =>
      let vm0 := if REPL_CLEARS_FRAMES_FIRST then with_frames (d_vm d) [] else d_vm d in
      let '(vm1, cs1, u1, l1, out1, s1) := load_modules_c fuel vm0 (cd_cs cd) (cd_unit cd) (d_loaded d) imports in
      match s1 with
      | SOk =>
          if negb compiles then
            (mkCD (mkD vm1 (if REPL_RECORDS_IMPORTS_AFTER_COMPILE then d_known d else imported ++ d_known d) (d_mut d) l1) cs1 u1, out1, SErr)
          else
            let known1 := imported ++ d_known d in
            let mut1 := newmut ++ d_mut d in
            let '(vm2, cs2, out2, s2) := run_unit_c fuel vm1 cs1 u1 L body in
            match s2 with
            | SOk => (mkCD (mkD (if REPL_SYNCS_AFTER_SUCCESSFUL_RUN then sync_loaded vm2 else vm2) (names_of_layout L ++ known1) mut1 l1) cs2 (N.succ u1),
                      out1 ++ out2, SOk)
            | _ => (mkCD (mkD vm2 known1 mut1 l1) cs2 (N.succ u1), out1 ++ out2, s2)
            end
      | _ => (mkCD (mkD vm1 (d_known d) (d_mut d) (if REPL_KEEPS_MODULE_MEMO_ON_FAILED_LOAD then l1 else [])) cs1 u1, out1, s1)
      end
  | SHost n nargs arg =>
      match glookup (gmap (d_vm d)) n with
      | VPtr p =>
          match lookup p (m_heap (d_vm d)) with
          | Some (OFn fid) =>
              match lookup fid C with
              | Some fd =>
                  if negb (fd_arity fd =? nargs) then
                    (mkCD (mkD (if HOST_CALL_CHECKS_ARITY_FIRST then d_vm d else prepare (d_vm d) (fd_layout fd)) (d_known d) (d_mut d) (d_loaded d))
                          (cd_cs cd) (cd_unit cd), [], SErr) else
                  let vm0 := prepare (d_vm d) (fd_layout fd) in
                  let vm1 := with_frames vm0 (mkFrame (fd_layout fd) true :: frames vm0) in
                  let '(vm2, cs2, out, s) := exec_c fuel (CFn fid) (fd_layout fd) arg vm1 (cd_cs cd) (fd_body fd) in
                  match s with
                  | SOk => (mkCD (mkD (do_return vm2) (d_known d) (d_mut d) (d_loaded d)) cs2 (cd_unit cd), out, SOk)
                  | _ => (mkCD (mkD (if RUN_FAST_UNWINDS_ON_ERROR then with_frames vm2 (unwind (frames vm2)) else vm2) (d_known d) (d_mut d) (d_loaded d))
                                cs2 (cd_unit cd), out, s)
                  end
              | None => (cd, [], SErr)
              end
          | Some (ONat tag ar) => if negb (ar =? nargs) then (cd, [], SErr) else (cd, [tag], SOk)
          | None => (cd, [], SErr)
          end
      | _ => (cd, [], SErr)
      end
  | SSet n v => (mkCD (mkD (set_name (d_vm d) n v) (d_known d) (d_mut d) (d_loaded d)) (clear (cd_cs cd)) (cd_unit cd), [], SOk)
  end.

Fixpoint msession_c (fuel : nat) (cd : cdstate) (steps : list step) : list (list Z * status) :=
  match steps with
  | [] => []
  | st :: r => let '(cd1, out, s) := mstep_c fuel cd st in (out, s) :: msession_c fuel cd1 r
  end.

(* how often the fast path of 78 was taken is not observable in msession_c; for non-vacuity: the forms the
   sites have at the end *)
Fixpoint mfinal_c (fuel : nat) (cd : cdstate) (steps : list step) : cdstate :=
  match steps with [] => cd | st :: r => mfinal_c fuel (fst (fst (mstep_c fuel cd st))) r end.

End WithCode.
