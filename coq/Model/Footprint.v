(* C04 -- raw (unsafe pointer) accesses of the dispatch loop (runtime/src/vm/dispatch/run.rs and
   ops/*.inc), per instruction word, as the site hook H5 logs them: (site id, index, buffer length).
   Which sites sit behind a runtime guard comes from Extracted/DispatchSites.v.  Definitions only. *)
From Coq Require Import NArith ZArith Bool List.
From Aelys Require Import Extracted.OpcodeNumbering Extracted.VerifierTable Extracted.DispatchSites Model.Verifier.
Import ListNotations.
Local Open Scope N_scope.

(* the part of the machine state the raw accesses depend on *)
Record st := {
  s_ip : N;          (* index of the instruction being fetched *)
  s_bclen : N;       (* length of the bytecode buffer *)
  s_base : N;        (* register window base *)
  s_regslen : N;     (* registers.len() *)
  s_clen : N;        (* the loop-local constants_len the guards compare against *)
  s_nconsts : N;     (* true length of the constants buffer behind constants_ptr *)
  s_uplen : N;       (* upvalues_len *)
  s_cachelen : N     (* call_site_cache.len() *)
}.

Definition acc := (N * N * N)%type.          (* site, index, length of the buffer *)
Definition a_site (a : acc) := fst (fst a).
Definition a_idx (a : acc) := snd (fst a).
Definition a_len (a : acc) := snd a.
Definition in_bounds (a : acc) : bool := a_idx a <? a_len a.

Definition S_FETCH := 1.  Definition S_CACHE_RD := 2.  Definition S_PATCH_WR := 3.  Definition S_PATCH_RD := 4.
Definition S_CONST := 5.  Definition S_UPVAL := 6.  Definition S_REG_RD := 7.  Definition S_REG_WR := 8.
Definition S_CALLSITE := 9.

(* the loop-local constants_len never exceeds the buffer it guards *)
Definition frame_inv (s : st) : Prop := s_clen s <= s_nconsts s.

(* ---- accesses every execution of the word performs first, in order ------------------------- *)
Definition cache_accs (s : st) (w : N) : list acc :=
  match lookup (w_op w) cache_reads with
  | Some (offs, guarded) =>
      let rd := map (fun o => (S_CACHE_RD, s_ip s + 1 + o, s_bclen s)) offs in
      if guarded then (if forallb in_bounds rd then rd else []) else rd
  | None => []
  end.

Definition const_accs (s : st) (w : N) : list acc :=
  match lookup (w_op w) const_sites with
  | Some (isimm, guarded) =>
      let k := if isimm then w_imm w else w_b w in
      if guarded then (if k <? s_clen s then [(S_CONST, k, s_nconsts s)] else [])
      else [(S_CONST, k, s_nconsts s)]
  | None => []
  end.

(* upvalue reads that come before any register access: operand b (GetUpval, CallUpval, TailCallUpval) *)
Definition upval_accs (s : st) (w : N) : list acc :=
  match lookup (w_op w) upval_sites with
  | Some (1, guarded) =>
      if guarded then (if w_b w <? s_uplen s then [(S_UPVAL, w_b w, s_uplen s)] else [])
      else [(S_UPVAL, w_b w, s_uplen s)]
  | _ => []
  end.

(* the hook (and a crash) stops at the first access outside its buffer *)
Fixpoint cut (l : list acc) : list acc :=
  match l with
  | [] => []
  | a :: r => if in_bounds a then a :: cut r else [a]
  end.

Definition must_raw (s : st) (w : N) : list acc :=
  (S_FETCH, s_ip s, s_bclen s) :: cache_accs s w ++ const_accs s w ++ upval_accs s w.

Definition must (s : st) (w : N) : list acc :=
  if fetch_guarded then (if s_ip s <? s_bclen s then cut (must_raw s w) else [])
  else cut (must_raw s w).

(* ---- accesses the word may perform afterwards (data dependent) ------------------------------ *)
Fixpoint seqN (start : N) (count : nat) : list N :=
  match count with O => [] | S k => start :: seqN (start + 1) k end.

(* registers the verifier validated for this word, as absolute indices *)
Definition chk_regs (base w : N) (c : chk) : list N :=
  match c with
  | CRegA => [base + w_a w]
  | CRegB => [base + w_b w]
  | CRegC => [base + w_c w]
  | CRangeA n => seqN (base + w_a w) (N.to_nat n)
  | CRangeBC => seqN (base + w_b w) (N.to_nat (w_c w))
  | CCallArgsA => seqN (base + w_a w) (S (N.to_nat (w_c w)))
  | CCallArgsB => seqN (base + w_b w) (S (N.to_nat (w_c w)))
  | _ => []
  end.

Definition regset (s : st) (w : N) : list N :=
  match lookup (w_op w) vtable with
  | Some (cs, _) => flat_map (chk_regs (s_base s) w) cs
  | None => []
  end
  ++ (if w_op w =? OP_TailCallUpval then seqN (s_base s) (N.to_nat (w_c w)) else [])   (* args moved to the window start *)
  ++ (if w_op w =? OP_Print then [s_base s + w_a w] else []).   (* the verifier has no case for Print; the loop reads r[a] *)

Definition memN (x : N) (l : list N) : bool := existsb (N.eqb x) l.

Definition may (s : st) (w : N) (a : acc) : bool :=
  let '(site, i, n) := a in
  let op := w_op w in
  if (site =? S_REG_RD) || (site =? S_REG_WR) then
    (n =? s_regslen s) && (if reg_guarded then i <? n else true) &&
    (memN i (regset s w) || ((site =? S_REG_WR) && (memN op [OP_Return; OP_Return0])))   (* result goes to the caller's window *)
  else if site =? S_PATCH_WR then
    (n =? s_bclen s) && match lookup op patch_writes with Some offs => memN i (map (N.add (s_ip s)) offs) | None => false end
  else if site =? S_PATCH_RD then
    (n =? s_bclen s) && match lookup op patch_reads with Some offs => memN i (map (N.add (s_ip s)) offs) | None => false end
  else if site =? S_CALLSITE then
    (n =? s_cachelen s) && (op =? OP_CallGlobalMono) && (if callsite_guarded then i <? n else true)
  else if site =? S_UPVAL then
    (n =? s_uplen s) &&
    match lookup op upval_sites with
    | Some (0, g) => (i =? w_a w) && (if g then i <? n else true)
    | Some (2, g) => if g then i <? n else true
    | _ => false
    end
  else false.

(* is this access behind a runtime guard of the dispatch loop? *)
Definition guarded_site (w : N) (a : acc) : bool :=
  let site := a_site a in
  if site =? S_FETCH then fetch_guarded
  else if site =? S_CACHE_RD then match lookup (w_op w) cache_reads with Some (_, g) => g | None => false end
  else if site =? S_CONST then match lookup (w_op w) const_sites with Some (_, g) => g | None => false end
  else if site =? S_UPVAL then match lookup (w_op w) upval_sites with Some (_, g) => g | None => false end
  else if (site =? S_REG_RD) || (site =? S_REG_WR) then reg_guarded
  else if site =? S_CALLSITE then callsite_guarded
  else false.

Definition footprint (s : st) (w : N) (a : acc) : Prop := In a (must s w) \/ may s w a = true.

(* ---- tie: the logged accesses of one executed instruction against the prediction ------------ *)
Definition acc_eqb (x y : acc) : bool :=
  (a_site x =? a_site y) && (a_idx x =? a_idx y) && (a_len x =? a_len y).

Fixpoint strip_prefix (p l : list acc) : option (list acc) :=
  match p, l with
  | [], _ => Some l
  | x :: p', y :: l' => if acc_eqb x y then strip_prefix p' l' else None
  | _ :: _, [] => None
  end.

Fixpoint is_prefix (p l : list acc) : bool :=
  match p, l with
  | [], _ => true
  | x :: p', y :: l' => acc_eqb x y && is_prefix p' l'
  | _ :: _, [] => false
  end.

(* last = the run ended (error / panic) inside this instruction: the log may stop early *)
Definition foot_ok (q : st * N * list acc * bool) : bool :=
  let '(s, w, logged, last) := q in
  match strip_prefix (must s w) logged with
  | Some rest => forallb (may s w) rest
  | None => last && is_prefix logged (must s w)
  end.

(* ---- control flow inside one function ------------------------------------------------------- *)
(* successors inside the function, read off the dispatch arms (Extracted.DispatchSites): arms that assign
   ip := ip + imm may land on the jump target; Jump always does; CallGlobalNative may rewrite its own word and
   dispatch it again; everything else goes to the next instruction (two cache words skipped where the arm does) *)
Definition is_cjump (c : chk) : bool := match c with CJump => true | _ => false end.
Definition has_jump (op : N) : bool :=
  match lookup op vtable with Some (cs, _) => existsb is_cjump cs | None => false end.
Definition disp_adv (w : N) : N := if memN (w_op w) dispatch_skip_ops then 3 else 1.

Definition succs (code : list N) (ip : N) : list N :=
  match nthN code ip with
  | None => []
  | Some w =>
      (if memN (w_op w) dispatch_jump_ops then [Z.to_N (jump_target ip w)] else [])
      ++ (if memN (w_op w) dispatch_redo_ops then [ip] else [])
      ++ (if w_op w =? OP_Jump then [] else [ip + disp_adv w])
  end.

Inductive reach (code : list N) : N -> Prop :=
  | reach_entry : reach code 0
  | reach_step : forall ip t, reach code ip -> In t (succs code ip) -> reach code t.

(* state of the loop when it runs word ip of f *)
Definition runs (f : func) (s : st) : Prop :=
  s_bclen s = len (f_code f) /\ s_nconsts s = len (f_consts f) /\ s_uplen s <= f_nup f.

(* ---- frame switch: which loop locals a call refreshes (Extracted.call_paths) ---------------- *)
Definition refreshes_clen (op kind : N) : bool :=
  forallb (fun '(o, k, u) => if (o =? op) && (k =? kind) then u else true) call_paths.

Definition enter (op kind : N) (caller : st) (callee : func) (new_base : N) : st :=
  {| s_ip := 0; s_bclen := len (f_code callee); s_base := new_base; s_regslen := s_regslen caller;
     s_clen := if refreshes_clen op kind then len (f_consts callee) else s_clen caller;
     s_nconsts := len (f_consts callee);
     s_uplen := if kind =? 1 then f_nup callee else 0;
     s_cachelen := s_cachelen caller |}.

(* ---- the loop as a machine over frames: values abstracted, control flow nondeterministic ------- *)
Record frame := { fr_fn : func; fr_st : st }.

Definition set_ip (s : st) (t : N) : st :=
  {| s_ip := t; s_bclen := s_bclen s; s_base := s_base s; s_regslen := s_regslen s; s_clen := s_clen s;
     s_nconsts := s_nconsts s; s_uplen := s_uplen s; s_cachelen := s_cachelen s |}.

(* registers.len() and call_site_cache.len() change under the loop's feet (resize, clear) *)
Definition set_env (s : st) (regslen cachelen : N) : st :=
  {| s_ip := s_ip s; s_bclen := s_bclen s; s_base := s_base s; s_regslen := regslen; s_clen := s_clen s;
     s_nconsts := s_nconsts s; s_uplen := s_uplen s; s_cachelen := cachelen |}.

(* Return / Return0 / running off the end reload the caller's locals from its frame *)
Definition resume (callee caller : st) : st :=
  if return_restores_clen then caller
  else {| s_ip := s_ip caller; s_bclen := s_bclen caller; s_base := s_base caller; s_regslen := s_regslen caller;
          s_clen := s_clen callee; s_nconsts := s_nconsts caller; s_uplen := s_uplen caller; s_cachelen := s_cachelen caller |}.

(* VM::execute: frame built from the function object itself *)
Definition init_st (f : func) (regslen cachelen : N) : st :=
  {| s_ip := 0; s_bclen := len (f_code f); s_base := 0; s_regslen := regslen; s_clen := len (f_consts f);
     s_nconsts := len (f_consts f); s_uplen := 0; s_cachelen := cachelen |}.

Definition is_call_op (op : N) : bool := existsb (fun e : N * N * bool => fst (fst e) =? op) call_paths.

Inductive mstep : list frame -> list frame -> Prop :=
  | ms_next : forall fr rest t,                                   (* fall through or jump inside the function *)
      In t (succs (f_code (fr_fn fr)) (s_ip (fr_st fr))) ->
      mstep (fr :: rest) ({| fr_fn := fr_fn fr; fr_st := set_ip (fr_st fr) t |} :: rest)
  | ms_env : forall fr rest r c,
      mstep (fr :: rest) ({| fr_fn := fr_fn fr; fr_st := set_env (fr_st fr) r c |} :: rest)
  | ms_call : forall fr rest w kind callee b,                      (* every call path verifies its callee first *)
      nthN (f_code (fr_fn fr)) (s_ip (fr_st fr)) = Some w -> is_call_op (w_op w) = true ->
      w_op w <> OP_TailCallUpval -> verify callee = VOk ->
      mstep (fr :: rest)
            ({| fr_fn := callee; fr_st := enter (w_op w) kind (fr_st fr) callee b |}
             :: {| fr_fn := fr_fn fr; fr_st := set_ip (fr_st fr) (s_ip (fr_st fr) + disp_adv w) |} :: rest)
  | ms_tail : forall fr rest w kind callee b,                      (* TailCallUpval reuses the frame *)
      nthN (f_code (fr_fn fr)) (s_ip (fr_st fr)) = Some w -> w_op w = OP_TailCallUpval -> verify callee = VOk ->
      mstep (fr :: rest) ({| fr_fn := callee; fr_st := enter (w_op w) kind (fr_st fr) callee b |} :: rest)
  | ms_ret : forall fr caller rest,
      mstep (fr :: caller :: rest)
            ({| fr_fn := fr_fn caller; fr_st := resume (fr_st fr) (fr_st caller) |} :: rest)
  | ms_exit : forall fr, mstep [fr] [].

Inductive mreach (f : func) : list frame -> Prop :=
  | mr_init : forall r c, mreach f [{| fr_fn := f; fr_st := init_st f r c |}]
  | mr_step : forall c1 c2, mreach f c1 -> mstep c1 c2 -> mreach f c2.
