(* Correspondence-check plumbing: the harness writes (query, observed-by-implementation)
   pairs; the model is evaluated on each query inside Coq and the indices of the cases on
   which model and implementation differ are printed. *)
From Coq Require Import NArith ZArith Bool List.
Import ListNotations.

Fixpoint list_eqb {A} (eqb : A -> A -> bool) (a b : list A) : bool :=
  match a, b with
  | [], [] => true
  | x :: a', y :: b' => eqb x y && list_eqb eqb a' b'
  | _, _ => false
  end.

Fixpoint failing_from {Q O} (run : Q -> O) (eqb : O -> O -> bool) (cs : list (Q * O)) (i : N) : list N :=
  match cs with
  | [] => []
  | (q, o) :: r =>
      if eqb (run q) o then failing_from run eqb r (N.succ i)
      else i :: failing_from run eqb r (N.succ i)
  end.
Definition failing {Q O} (run : Q -> O) (eqb : O -> O -> bool) (cs : list (Q * O)) : list N :=
  failing_from run eqb cs 0%N.

Definition zlist_eqb := list_eqb Z.eqb.
