(* Shared proof setup: lia with boolean comparisons, div and mod. *)
From Coq Require Export NArith ZArith Bool List Lia.
From Coq Require Export ZifyBool ZifyNat ZifyN.
Export ListNotations.
Ltac Zify.zify_post_hook ::= Z.div_mod_to_equations.
Global Arguments N.add : simpl never.
Global Arguments N.sub : simpl never.
Global Arguments N.mul : simpl never.
Global Arguments N.eqb : simpl never.
Global Arguments N.ltb : simpl never.
Global Arguments N.leb : simpl never.
Global Arguments N.land : simpl never.
Global Arguments N.lor : simpl never.
Global Arguments N.shiftl : simpl never.
Global Arguments N.shiftr : simpl never.
Global Arguments N.div : simpl never.
Global Arguments N.modulo : simpl never.
Global Arguments Z.add : simpl never.
Global Arguments Z.sub : simpl never.
Global Arguments Z.mul : simpl never.
Global Arguments Z.div : simpl never.
Global Arguments Z.modulo : simpl never.
Global Arguments Z.pow : simpl never.

(* Complete finite sweep over an initial segment of N, checked by computation. *)
Fixpoint all_below (f : N -> bool) (fuel : nat) (i : N) : bool :=
  match fuel with
  | O => true
  | S k => f i && all_below f k (N.succ i)
  end.

Lemma all_below_spec (f : N -> bool) (fuel : nat) (i : N) :
  all_below f fuel i = true ->
  forall h : N, (i <= h)%N -> (h < i + N.of_nat fuel)%N -> f h = true.
Proof.
  revert i; induction fuel as [|k IH]; intros i H h Hlo Hhi.
  - lia.
  - cbn [all_below] in H. apply andb_true_iff in H as [Hi Hrest].
    destruct (N.eq_dec h i) as [->|Hne]; [exact Hi|].
    apply (IH (N.succ i) Hrest); lia.
Qed.
