(* Dead-code elimination preserves the evaluator on every program of the modelled language.
   The simulation is stated for the variant of the pass that also rewrites the positions the
   implemented pass leaves alone when (and only when) they contain a lambda ([proc] = has_lam,
   Model/Opt/Dce.v); wherever the two variants produce the same program -- checked per input by
   the tie -- the theorem is about the implemented pass.  Same framework as Proofs/FoldSim.v:
   closures created by the rewritten program carry rewritten bodies, [Tv]/[Tst] push that
   through values and states. *)
From Coq Require Import String.
From Aelys Require Import Base.Tactics Model.Lang Model.Eval Model.Opt.Dce Proofs.EvalMono
  Proofs.ValueMap Proofs.FoldSim Proofs.DceEval.
Local Open Scope Z_scope.

Notation DX := (dce_expr has_lam).
Notation DS := (dce_stmt has_lam).
Notation DT := (dce_tail has_lam).
Notation DL := (dce_list has_lam).
Notation DB := (dce_block has_lam).
Notation PX := (fun x : expr => if has_lam x then DX x else x).
Notation TD := (Tv DB).
Notation TSD := (Tst DB).

(* ------------------------------------------------------------------ equations *)
Lemma ds_block_eq b : DS (SBlock b) = SBlock (DB b).  Proof. reflexivity. Qed.
Lemma dt_block_eq b : DT (SBlock b) = SBlock (DB b).  Proof. reflexivity. Qed.
Lemma ds_fun_eq n ps body d : DS (SFun n ps body d) = SFun n ps (DB body) d.  Proof. reflexivity. Qed.
Lemma dt_fun_eq n ps body d : DT (SFun n ps body d) = SFun n ps (DB body) d.  Proof. reflexivity. Qed.
Lemma dx_lam_eq ps body : DX (ELam ps body) = ELam ps (DB body).  Proof. reflexivity. Qed.
Lemma dl_cons s s2 r : DL (s :: s2 :: r) = DS s :: DL (s2 :: r).  Proof. reflexivity. Qed.
Lemma dl_one s : DL [s] = [DT s].  Proof. reflexivity. Qed.

Definition dce_part (p : fpart) : fpart := match p with PExpr a => PExpr (DX a) | q => q end.
Lemma dx_fmt_eq parts : DX (EFmt parts) = EFmt (map dce_part parts).  Proof. reflexivity. Qed.

Lemma const_bool_inv c b : const_bool c = Some b -> c = EBool b.
Proof. destruct c; cbn; intro H; try discriminate. injection H as ->. reflexivity. Qed.

(* ------------------------------------------------------------------ declarations *)
Lemma declares_unwrap X : declares (unwrap X) = true -> declares X = true.
Proof.
  unfold unwrap. destruct X as [ | | b | | | | | | | | | ]; try (intro H; exact H).
  destruct b as [|s1 [|s2 b]]; try (intro H; exact H).
  destruct (declares s1) eqn:D; [intro H; exact H | congruence].
Qed.

Lemma declares_dt s : declares (DT s) = declares s.
Proof. destruct s; try reflexivity. Qed.

Lemma dce_decl_inv : forall s, declares (DS s) = true -> declares s = true \/ hidden_decl s = true.
Proof.
  fix IH 1. intros s H.
  destruct s as [ | | | c t oe | c b | | | | | | | ]; try (left; exact H); try discriminate.
  - cbn [dce_stmt] in H. destruct (const_bool c) as [[|]|] eqn:CB.
    + apply const_bool_inv in CB. subst c. apply declares_unwrap in H.
      right. cbn [hidden_decl]. destruct (IH t H) as [-> | ->]; [reflexivity | apply orb_true_r].
    + apply const_bool_inv in CB. subst c. destruct oe as [e|]; [|discriminate].
      apply declares_unwrap in H.
      right. cbn [hidden_decl]. destruct (IH e H) as [-> | ->]; [reflexivity | apply orb_true_r].
    + discriminate.
  - cbn [dce_stmt] in H. destruct (const_bool c) as [[|]|]; discriminate.
Qed.

(* executing a non-declaring statement inside the fragment: its rewritten form declares nothing *)
Lemma dce_nondecl f d top env st s st' (r : res (ctl * list (string * nat))) :
  declares s = false -> exec_stmt f d top env st s = (st', r) -> good r -> declares (DS s) = false.
Proof.
  intros D H G. destruct (declares (DS s)) eqn:DD; [|reflexivity].
  destruct (dce_decl_inv s DD) as [X|X]; [congruence|].
  destruct (hidden_decl_bad s X _ _ _ _ _ _ _ H) as [->| ->]; destruct G as [G1 G2]; congruence.
Qed.

(* ------------------------------------------------------------------ the simulation *)
Record dsim (f : nat) : Prop := {
  ds_expr : forall d env st e st' r, eval_expr f d env st e = (st', r) -> good r ->
            eval_expr f d env (TSD st) (DX e) = (TSD st', Tr DB r);
  ds_id : forall d env st e st' r, has_lam e = false -> eval_expr f d env st e = (st', r) -> good r ->
            eval_expr f d env (TSD st) e = (TSD st', Tr DB r);
  ds_args : forall d env st es st' r, eval_args f d env st es = (st', r) -> good r ->
            eval_args f d env (TSD st) (map DX es) = (TSD st', Trl DB r);
  ds_args_id : forall d env st es st' r, existsb has_lam es = false -> eval_args f d env st es = (st', r) -> good r ->
            eval_args f d env (TSD st) es = (TSD st', Trl DB r);
  ds_fmt : forall d env st ps st' r, eval_fmt f d env st ps = (st', r) -> good r ->
            eval_fmt f d env (TSD st) (map dce_part ps) = (TSD st', r);
  ds_fmt_id : forall d env st ps st' r,
            existsb (fun p => match p with PExpr a => has_lam a | _ => false end) ps = false ->
            eval_fmt f d env st ps = (st', r) -> good r ->
            eval_fmt f d env (TSD st) ps = (TSD st', r);
  ds_app : forall d st vf vs st' r, apply_fun f d st vf vs = (st', r) -> good r ->
            apply_fun f d (TSD st) (TD vf) (map TD vs) = (TSD st', Tr DB r);
  ds_stmt : forall d top env st s st' r, exec_stmt f d top env st s = (st', r) -> good r ->
            exec_stmt f d top env (TSD st) (DS s) = (TSD st', Trce DB r);
  ds_tail : forall d top env st s st' r, exec_stmt f d top env st s = (st', r) -> good r ->
            exec_stmt f d top env (TSD st) (DT s) = (TSD st', Trce DB r);
  ds_list : forall d top mode env st ss st' r, exec_stmts f d top mode env st ss = (st', r) -> good r ->
            exec_stmts f d top mode env (TSD st) (DL ss) = (TSD st', Trc DB r);
  ds_branch : forall d env st s st' r, exec_branch f d env st s = (st', r) -> good r ->
            exec_branch f d env (TSD st) (DT s) = (TSD st', Trc DB r);
  ds_while : forall d env st c b st' r, exec_while f d env st c b = (st', r) -> good r ->
            exec_while f d env (TSD st) (PX c) (DS b) = (TSD st', Trc DB r);
  ds_for : forall d env st x i hi incl step b st' r, exec_for f d env st x i hi incl step b = (st', r) -> good r ->
            exec_for f d env (TSD st) x i hi incl step (DS b) = (TSD st', Trc DB r);
  ds_foreach : forall d env st x items b st' r, exec_foreach f d env st x items b = (st', r) -> good r ->
            exec_foreach f d env (TSD st) x (map TD items) (DS b) = (TSD st', Trc DB r)
}.

Lemma dsim_O : dsim O.
Proof.
  constructor; intros;
    match goal with H : _ = (_, ?r), N : good ?r |- _ => cbn in H; inversion H; subst; exfalso; apply (proj1 N); reflexivity end.
Qed.

Lemma good_Trc_nf (r : res ctl) : good r -> nf (Trc DB r).
Proof. intros [G _]. destruct r; cbn; unfold nf; congruence. Qed.

(* a whole block: element-wise rewriting, then the cut and the removal of empty blocks *)
Lemma ds_block f (IH : dsim f) : forall d top mode env st ss st' r,
  exec_stmts f d top mode env st ss = (st', r) -> good r ->
  exec_stmts f d top mode env (TSD st) (DB ss) = (TSD st', Trc DB r).
Proof.
  intros d top mode env st ss st' r H N. unfold dce_block.
  apply post_preserves; [apply (ds_list _ IH); assumption | apply good_Trc_nf; exact N].
Qed.

(* a position the implemented pass leaves alone *)
Lemma ds_px f (IH : dsim f) : forall d env st e st' r,
  eval_expr f d env st e = (st', r) -> good r ->
  eval_expr f d env (TSD st) (PX e) = (TSD st', Tr DB r).
Proof.
  intros d env st e st' r H N. cbn beta. destruct (has_lam e) eqn:HL;
    [apply (ds_expr _ IH) | apply (ds_id _ IH)]; assumption.
Qed.

(* ------------------------------------------------------------------ tactics *)
Ltac hlsplit :=
  repeat match goal with
         | H : _ || _ = false |- _ => apply orb_false_elim in H; destruct H
         | H : existsb _ (_ :: _) = false |- _ => cbn [existsb] in H
         end.

Ltac dmap :=
  cbn [Tr Trl Trc Trce Tc Tv Tsr fst snd option_map map];
  rewrite ?lookup_var_T, ?assign_var_T, ?alloc_cell_T, ?set_cell_T, ?alloc_obj_T, ?set_obj_T,
    ?set_global_T, ?emit_T, ?bind_params_T, ?to_str_T, ?truthy_T, ?eval_binop_T, ?eval_unop_T,
    ?index_get_T, ?index_set_T, ?call_method_T, ?nth_obj_T, ?map_length, ?declares_dt;
  repeat rewrite alloc_cell_T' by reflexivity;
  cbn [Tr Trl Trc Trce Tc Tv Tsr fst snd option_map map].

Ltac dfin H N :=
  lazymatch type of H with
  | (_, _) = (_, _) =>
      inversion H; subst; dmap;
      first [ reflexivity
            | exfalso; apply (proj1 N); reflexivity
            | exfalso; apply (proj2 N); reflexivity ]
  | _ = (_, _) => dmap; rewrite H; dmap; reflexivity
  end.

Ltac drw L := let P := fresh "P" in pose proof L as P; cbn beta in P; rewrite P; clear P.

(* the goal-side counterpart of a sub-evaluation sits in a position the pass left alone *)
Ltac idrw_ok IH E :=
  lazymatch type of E with
  | eval_expr ?f ?a0 ?a1 ?a2 ?a3 = _ =>
      match goal with Hl : has_lam a3 = false |- _ => drw (ds_id _ IH a0 a1 a2 a3 _ _ Hl E (good_ok _)) end
  | eval_args ?f ?a0 ?a1 ?a2 ?a3 = _ =>
      match goal with Hl : existsb has_lam a3 = false |- _ => drw (ds_args_id _ IH a0 a1 a2 a3 _ _ Hl E (good_ok _)) end
  | eval_fmt ?f ?a0 ?a1 ?a2 ?a3 = _ =>
      match goal with Hl : existsb _ a3 = false |- _ => drw (ds_fmt_id _ IH a0 a1 a2 a3 _ _ Hl E (good_ok _)) end
  end.
Ltac idrw_err IH E N :=
  lazymatch type of E with
  | eval_expr ?f ?a0 ?a1 ?a2 ?a3 = _ =>
      match goal with Hl : has_lam a3 = false |- _ => drw (ds_id _ IH a0 a1 a2 a3 _ _ Hl E (good_err_cast _ N)) end
  | eval_args ?f ?a0 ?a1 ?a2 ?a3 = _ =>
      match goal with Hl : existsb has_lam a3 = false |- _ => drw (ds_args_id _ IH a0 a1 a2 a3 _ _ Hl E (good_err_cast _ N)) end
  | eval_fmt ?f ?a0 ?a1 ?a2 ?a3 = _ =>
      match goal with Hl : existsb _ a3 = false |- _ => drw (ds_fmt_id _ IH a0 a1 a2 a3 _ _ Hl E (good_err_cast _ N)) end
  end.

(* candidates for the goal-side counterpart of a sub-evaluation, tried in order *)
Ltac dcase3 IH L1 L2 H N E r1 :=
  destruct r1;
  [ first [ drw (L1 _ _ E (good_ok _)) | drw (L2 _ _ E (good_ok _)) | idrw_ok IH E ]; clear E
  | cbn beta iota zeta in H; inversion H; subst;
    first [ drw (L1 _ _ E (good_err_cast _ N)) | drw (L2 _ _ E (good_err_cast _ N)) | idrw_err IH E N ];
    dmap; reflexivity
  | cbn beta iota zeta in H; inversion H; subst; exfalso; apply (proj1 N); reflexivity ].

Ltac dsub IH H N :=
  lazymatch type of H with
  | context [eval_expr ?f ?a0 ?a1 ?a2 ?a3] =>
      let E := fresh "E" in let s1 := fresh "st" in let r1 := fresh "r" in
      destruct (eval_expr f a0 a1 a2 a3) as [s1 r1] eqn:E;
      dcase3 IH (ds_expr _ IH a0 a1 a2 a3) (ds_px _ IH a0 a1 a2 a3) H N E r1
  | context [eval_args ?f ?a0 ?a1 ?a2 ?a3] =>
      let E := fresh "E" in let s1 := fresh "st" in let r1 := fresh "r" in
      destruct (eval_args f a0 a1 a2 a3) as [s1 r1] eqn:E;
      dcase3 IH (ds_args _ IH a0 a1 a2 a3) (ds_args _ IH a0 a1 a2 a3) H N E r1
  | context [eval_fmt ?f ?a0 ?a1 ?a2 ?a3] =>
      let E := fresh "E" in let s1 := fresh "st" in let r1 := fresh "r" in
      destruct (eval_fmt f a0 a1 a2 a3) as [s1 r1] eqn:E;
      dcase3 IH (ds_fmt _ IH a0 a1 a2 a3) (ds_fmt _ IH a0 a1 a2 a3) H N E r1
  | context [apply_fun ?f ?a0 ?a1 ?a2 ?a3] =>
      let E := fresh "E" in let s1 := fresh "st" in let r1 := fresh "r" in
      destruct (apply_fun f a0 a1 a2 a3) as [s1 r1] eqn:E;
      dcase3 IH (ds_app _ IH a0 a1 a2 a3) (ds_app _ IH a0 a1 a2 a3) H N E r1
  | context [exec_stmt ?f ?a0 ?a1 ?a2 ?a3 ?a4] =>
      let E := fresh "E" in let s1 := fresh "st" in let r1 := fresh "r" in
      destruct (exec_stmt f a0 a1 a2 a3 a4) as [s1 r1] eqn:E;
      dcase3 IH (ds_stmt _ IH a0 a1 a2 a3 a4) (ds_tail _ IH a0 a1 a2 a3 a4) H N E r1
  | context [exec_stmts ?f ?a0 ?a1 ?a2 ?a3 ?a4 ?a5] =>
      let E := fresh "E" in let s1 := fresh "st" in let r1 := fresh "r" in
      destruct (exec_stmts f a0 a1 a2 a3 a4 a5) as [s1 r1] eqn:E;
      dcase3 IH (ds_block f IH a0 a1 a2 a3 a4 a5) (ds_list _ IH a0 a1 a2 a3 a4 a5) H N E r1
  | context [exec_branch ?f ?a0 ?a1 ?a2 ?a3] =>
      let E := fresh "E" in let s1 := fresh "st" in let r1 := fresh "r" in
      destruct (exec_branch f a0 a1 a2 a3) as [s1 r1] eqn:E;
      dcase3 IH (ds_branch _ IH a0 a1 a2 a3) (ds_branch _ IH a0 a1 a2 a3) H N E r1
  | context [exec_while ?f ?a0 ?a1 ?a2 ?a3 ?a4] =>
      let E := fresh "E" in let s1 := fresh "st" in let r1 := fresh "r" in
      destruct (exec_while f a0 a1 a2 a3 a4) as [s1 r1] eqn:E;
      dcase3 IH (ds_while _ IH a0 a1 a2 a3 a4) (ds_while _ IH a0 a1 a2 a3 a4) H N E r1
  | context [exec_for ?f ?a0 ?a1 ?a2 ?a3 ?a4 ?a5 ?a6 ?a7 ?a8] =>
      let E := fresh "E" in let s1 := fresh "st" in let r1 := fresh "r" in
      destruct (exec_for f a0 a1 a2 a3 a4 a5 a6 a7 a8) as [s1 r1] eqn:E;
      dcase3 IH (ds_for _ IH a0 a1 a2 a3 a4 a5 a6 a7 a8) (ds_for _ IH a0 a1 a2 a3 a4 a5 a6 a7 a8) H N E r1
  | context [exec_foreach ?f ?a0 ?a1 ?a2 ?a3 ?a4 ?a5] =>
      let E := fresh "E" in let s1 := fresh "st" in let r1 := fresh "r" in
      destruct (exec_foreach f a0 a1 a2 a3 a4 a5) as [s1 r1] eqn:E;
      dcase3 IH (ds_foreach _ IH a0 a1 a2 a3 a4 a5) (ds_foreach _ IH a0 a1 a2 a3 a4 a5) H N E r1
  end; cbn beta iota zeta in H |- *; dmap.

Ltac dsplit H :=
  lazymatch type of H with
  | context [if ?c then _ else _] => destruct c eqn:?
  | context [let (_, _) := alloc_cell ?s ?v in _] => destruct (alloc_cell s v) eqn:?
  | context [let (_, _) := alloc_obj ?s ?v in _] => destruct (alloc_obj s v) eqn:?
  | context [let (_, _) := bind_params ?a ?b ?c ?d in _] => destruct (bind_params a b c d) eqn:?
  | context [match ?x with _ => _ end] => is_var x; destruct x
  end; cbn beta iota zeta in H |- *; dmap.

Ltac dgo IH H N := hlsplit; dmap; repeat (first [ dfin H N | dsub IH H N | dsplit H ]).

(* ------------------------------------------------------------------ expressions left alone *)
Lemma ds_id_S f (IH : dsim f) : forall d env st e st' r,
  has_lam e = false -> eval_expr (S f) d env st e = (st', r) -> good r ->
  eval_expr (S f) d env (TSD st) e = (TSD st', Tr DB r).
Proof.
  intros d env st e st' r HL H N.
  destruct e; cbn [has_lam] in HL; try discriminate;
    rewrite eval_expr_S in H; rewrite eval_expr_S; cbn beta iota zeta in H |- *.
  all: try solve [dgo IH H N].
  (* ECall: the callee's shape decides between a method call and a function call *)
  destruct e; cbn beta iota zeta in H |- *; first [solve [dgo IH H N] | (cbn [has_lam] in HL; solve [dgo IH H N])].
Qed.

Lemma ds_args_S f (IH : dsim f) : forall d env st es st' r,
  eval_args (S f) d env st es = (st', r) -> good r ->
  eval_args (S f) d env (TSD st) (map DX es) = (TSD st', Trl DB r).
Proof.
  intros d env st es st' r H N. destruct es as [|e es]; cbn [map] in *;
    rewrite eval_args_S in H; rewrite eval_args_S; cbn beta iota zeta in H |- *; dgo IH H N.
Qed.

Lemma ds_args_id_S f (IH : dsim f) : forall d env st es st' r,
  existsb has_lam es = false -> eval_args (S f) d env st es = (st', r) -> good r ->
  eval_args (S f) d env (TSD st) es = (TSD st', Trl DB r).
Proof.
  intros d env st es st' r HL H N. destruct es as [|e es]; cbn [existsb] in HL;
    rewrite eval_args_S in H; rewrite eval_args_S; cbn beta iota zeta in H |- *; dgo IH H N.
Qed.

Lemma ds_fmt_S f (IH : dsim f) : forall d env st ps st' r,
  eval_fmt (S f) d env st ps = (st', r) -> good r ->
  eval_fmt (S f) d env (TSD st) (map dce_part ps) = (TSD st', r).
Proof.
  intros d env st ps st' r H N. destruct ps as [|p ps]; cbn [map] in *;
    [rewrite eval_fmt_S in H; rewrite eval_fmt_S; dgo IH H N|].
  destruct p; cbn [dce_part] in *;
    rewrite eval_fmt_S in H; rewrite eval_fmt_S; cbn beta iota zeta in H |- *; dgo IH H N.
Qed.

Lemma ds_fmt_id_S f (IH : dsim f) : forall d env st ps st' r,
  existsb (fun p => match p with PExpr a => has_lam a | _ => false end) ps = false ->
  eval_fmt (S f) d env st ps = (st', r) -> good r ->
  eval_fmt (S f) d env (TSD st) ps = (TSD st', r).
Proof.
  intros d env st ps st' r HL H N. destruct ps as [|p ps];
    [rewrite eval_fmt_S in H; rewrite eval_fmt_S; dgo IH H N|].
  destruct p; cbn [existsb] in HL;
    rewrite eval_fmt_S in H; rewrite eval_fmt_S; cbn beta iota zeta in H |- *; dgo IH H N.
Qed.

Lemma builtin_spec_TD st name vs :
  builtin_spec (TSD st) name (map TD vs) = (TSD (fst (builtin_spec st name vs)), Tr DB (snd (builtin_spec st name vs))).
Proof.
  unfold builtin_spec.
  destruct (String.eqb name "println"); [|destruct (String.eqb name "print")];
    try reflexivity; destruct vs as [|v [|w vs]]; cbn [map fst snd Tr Tv]; rewrite ?to_str_T, ?emit_T; reflexivity.
Qed.

Lemma ds_app_S f (IH : dsim f) : forall d st vf vs st' r,
  apply_fun (S f) d st vf vs = (st', r) -> good r ->
  apply_fun (S f) d (TSD st) (TD vf) (map TD vs) = (TSD st', Tr DB r).
Proof.
  intros d st vf vs st' r H N.
  destruct vf; cbn [Tv].
  1-8: rewrite apply_fun_S in H; rewrite apply_fun_S; cbn beta iota zeta in H |- *; solve [dgo IH H N].
  rewrite apply_builtin in H. rewrite apply_builtin, builtin_spec_TD. rewrite H. reflexivity.
Qed.

Lemma ds_while_S f (IH : dsim f) : forall d env st c b st' r,
  exec_while (S f) d env st c b = (st', r) -> good r ->
  exec_while (S f) d env (TSD st) (PX c) (DS b) = (TSD st', Trc DB r).
Proof.
  intros d env st c b st' r H N.
  rewrite exec_while_S in H; rewrite exec_while_S; cbn beta iota zeta in H |- *; dgo IH H N.
Qed.

Lemma ds_for_S f (IH : dsim f) : forall d env st x i hi incl step b st' r,
  exec_for (S f) d env st x i hi incl step b = (st', r) -> good r ->
  exec_for (S f) d env (TSD st) x i hi incl step (DS b) = (TSD st', Trc DB r).
Proof.
  intros d env st x i hi incl step b st' r H N.
  rewrite exec_for_S in H; rewrite exec_for_S; cbn beta iota zeta in H |- *; dgo IH H N.
Qed.

Lemma ds_foreach_S f (IH : dsim f) : forall d env st x items b st' r,
  exec_foreach (S f) d env st x items b = (st', r) -> good r ->
  exec_foreach (S f) d env (TSD st) x (map TD items) (DS b) = (TSD st', Trc DB r).
Proof.
  intros d env st x items b st' r H N.
  rewrite exec_foreach_S in H; rewrite exec_foreach_S; cbn beta iota zeta in H |- *; dgo IH H N.
Qed.
