(* C17 -- lemmas about the monomorphisation model (Model/Mono.v). *)
From Aelys Require Import Base.Tactics Model.AirLower Model.Mono.
Local Open Scope N_scope.

Definition T_STR : ty := TPrim 11.
Definition one_block : list block := [(0, TRet)].

(* fn identity<T>(x: T) -> T { return x }            name 0
   fn caller() { let v: int = 42; let s = "hi"; identity(v); identity(s) }     name 1 *)
Definition f_identity : mfn :=
  mkmfn (NPlain 0) [0] [(0, TParam 0)] (TParam 0) [(0, TParam 0)] [] one_block.
Definition w_two_types : mprog :=
  mkmp [f_identity;
        mkmfn (NPlain 1) [] [] T_I64 [(0, T_I64); (1, T_STR); (2, T_I64); (3, T_I64)]
              [MCall (NPlain 0) [ALocal 0]; MCall (NPlain 0) [ALocal 1]] one_block]
       [] [].

(* struct Point {x, y} (name 5);  fn mk<T>(x: T) -> T { let p = Point{..}; return x } (name 2);
   fn caller() { mk(3) } *)
Definition w_structinit : mprog :=
  mkmp [mkmfn (NPlain 2) [0] [(0, TParam 0)] (TParam 0) [(0, TParam 0); (1, TStruct 5)]
              [MInit (NPlain 5)] one_block;
        mkmfn (NPlain 1) [] [] T_I64 [(0, T_I64)] [MCall (NPlain 2) [AConst T_I64]] one_block]
       [mkms (NPlain 5) [] [T_I64; T_I64]] [].

(* struct Box<T> { v: T } (name 6);  fn caller() { let b: Box = ... } *)
Definition w_generic_struct : mprog :=
  mkmp [mkmfn (NPlain 1) [] [] T_I64 [(0, TStruct 6)] [] one_block]
       [mkms (NPlain 6) [0] [TParam 0]] [].

(* fn wrap<T>(x: T) -> T { return identity(x) } (name 3);  fn caller() { wrap(3) } *)
Definition w_generic_calls_generic : mprog :=
  mkmp [f_identity;
        mkmfn (NPlain 3) [0] [(0, TParam 0)] (TParam 0) [(0, TParam 0); (1, TParam 0)]
              [MCall (NPlain 0) [ALocal 0]] one_block;
        mkmfn (NPlain 1) [] [] T_I64 [(0, T_I64)] [MCall (NPlain 3) [AConst T_I64]] one_block]
       [] [].

(* one instantiation only: everything is fine *)
Definition w_single : mprog :=
  mkmp [f_identity;
        mkmfn (NPlain 1) [] [] T_I64 [(0, T_I64); (1, T_I64)]
              [MCall (NPlain 0) [ALocal 0]; MCall (NPlain 0) [AConst T_I64]] one_block]
       [] [].

Definition i_int : inst := mkinst 0 [T_I64] (NMono 0 [T_I64]).
Definition i_str : inst := mkinst 0 [T_STR] (NMono 0 [T_STR]).

Lemma first_instance_witness :
  forall pick, pick_sound pick -> wf_mono w_two_types (monomorphize pick w_two_types) = false.
Proof.
  intros pick Hs.
  destruct (Hs 0 [i_int; i_str]) as [i [Hp Hin]]; [discriminate|].
  unfold monomorphize.
  replace (fst (mono_insts w_two_types)) with [i_int; i_str] by (vm_compute; reflexivity).
  change (choices pick [i_int; i_str]) with [(0, pick 0 [i_int; i_str])].
  rewrite Hp.
  destruct Hin as [<-|[<-|[]]]; vm_compute; reflexivity.
Qed.

Lemma structinit_witness :
  forall pick, wf_mono w_structinit (monomorphize pick w_structinit) = false
  /\ forallb (structs_exist_fn (monomorphize pick w_structinit)) (p_fns (monomorphize pick w_structinit)) = false.
Proof.
  intro pick. unfold monomorphize.
  replace (fst (mono_insts w_structinit)) with [mkinst 2 [T_I64] (NMono 2 [T_I64])] by (vm_compute; reflexivity).
  change (choices pick [mkinst 2 [T_I64] (NMono 2 [T_I64])])
    with [(2, pick 2 [mkinst 2 [T_I64] (NMono 2 [T_I64])])].
  destruct (pick 2 _) as [i|]; vm_compute; split; reflexivity.
Qed.

Lemma generic_struct_witness :
  forall pick, wf_mono w_generic_struct (monomorphize pick w_generic_struct) = false
  /\ reachable_fields_closed (monomorphize pick w_generic_struct) = false.
Proof. intro pick. vm_compute. split; reflexivity. Qed.

Lemma generic_calls_generic_witness :
  forall pick, pick_sound pick ->
  wf_mono w_generic_calls_generic (monomorphize pick w_generic_calls_generic) = false.
Proof.
  intros pick Hs.
  destruct (Hs 3 [mkinst 3 [T_I64] (NMono 3 [T_I64])]) as [i [Hp Hin]]; [discriminate|].
  unfold monomorphize.
  replace (fst (mono_insts w_generic_calls_generic)) with [mkinst 3 [T_I64] (NMono 3 [T_I64])]
    by (vm_compute; reflexivity).
  change (choices pick [mkinst 3 [T_I64] (NMono 3 [T_I64])])
    with [(3, pick 3 [mkinst 3 [T_I64] (NMono 3 [T_I64])])].
  rewrite Hp. destruct Hin as [<-|[]]. vm_compute; reflexivity.
Qed.

Lemma single_witness : wf_mono w_single (monomorphize pick_first w_single) = true.
Proof. vm_compute. reflexivity. Qed.

(* ====================================================================================== *)
(* ---- a bounded family of programs without the other root causes: three generic functions
   (no struct literals, no calls inside them), no generic struct, one caller with <= 3 call sites *)
Definition T_BOOL : ty := TPrim 10.
Definition T_F64 : ty := TPrim 9.
Definition g_id : mfn := f_identity.                                             (* name 0 *)
Definition g_pick : mfn :=                                                        (* name 2 *)
  mkmfn (NPlain 2) [0; 1] [(0, TParam 0); (1, TParam 1)] (TParam 0) [(0, TParam 0); (1, TParam 1)] [] one_block.
Definition g_first : mfn :=                                                       (* name 3 *)
  mkmfn (NPlain 3) [0] [(0, TSlice (TParam 0))] (TParam 0) [(0, TSlice (TParam 0)); (1, TParam 0)]
        [MCast (TParam 0) T_I64] one_block.

Definition caller_locals : list (N * ty) :=
  [(0, T_I64); (1, T_STR); (2, T_BOOL); (3, T_F64); (4, TSlice T_I64); (5, TSlice T_STR)].
Definition calls : list mstmt :=
  map (fun k => MCall (NPlain 0) [ALocal k]) [0; 1; 2; 3]
  ++ [MCall (NPlain 0) [AConst T_I64]; MCall (NPlain 0) [AConst T_STR]]
  ++ flat_map (fun a => map (fun b => MCall (NPlain 2) [ALocal a; ALocal b]) [0; 1; 2]) [0; 1; 2]
  ++ [MCall (NPlain 3) [ALocal 4]; MCall (NPlain 3) [ALocal 5]; MCall (NPlain 9) [ALocal 0]].
Definition bodies : list (list mstmt) :=
  [[]] ++ map (fun a => [a]) calls
  ++ flat_map (fun a => map (fun b => [a; b]) calls) calls
  ++ flat_map (fun a => flat_map (fun b => map (fun c => [a; b; c]) calls) calls) calls.
Definition prog_with (body : list mstmt) : mprog :=
  mkmp [g_id; g_pick; g_first; mkmfn (NPlain 1) [] [] T_I64 caller_locals body one_block] [] [].

(* every sound choice on lists of <= 4 instances behaves like one of these *)
Definition pick_nth (i : nat) (_ : N) (l : list inst) : option inst :=
  match nth_error l i with Some x => Some x | None => hd_error l end.

(* "single instantiation": no generic function is requested at two different keys *)
Definition single_inst (p : mprog) : bool :=
  let reqs := requests (p_fns p) in
  forallb (fun r => forallb (fun r' => negb (fst r =? fst r') || tylist_eqb (key (snd r)) (key (snd r'))) reqs) reqs.

Definition mono_sweep_body (b : list mstmt) : bool :=
  let p := prog_with b in
  forallb (fun i => Bool.eqb (wf_mono p (monomorphize (pick_nth i) p)) (single_inst p)) [0; 1; 2]%nat.


Lemma mono_sweep_true : forallb mono_sweep_body bodies = true.
Proof. vm_cast_no_check (eq_refl true). Qed.

Lemma mono_family_size : fold_left (fun a _ => a + 1) bodies 0 = 6175.
Proof. vm_compute. reflexivity. Qed.

Lemma pick_nth_sound i : pick_sound (pick_nth i).
Proof.
  intros n l Hl. unfold pick_nth. destruct (nth_error l i) as [x|] eqn:E.
  - exists x. split; [reflexivity|]. eapply nth_error_In; eassumption.
  - destruct l as [|x r]; [congruence|]. exists x. split; [reflexivity|left; reflexivity].
Qed.

(* on the family, for each of the three choice functions: the monomorphised program satisfies all
   clauses exactly when no generic function is requested at two different type-argument keys *)
Lemma mono_sweep_spec : forall b i, In b bodies -> In i [0; 1; 2]%nat ->
  wf_mono (prog_with b) (monomorphize (pick_nth i) (prog_with b)) = single_inst (prog_with b).
Proof.
  intros b i Hb Hi.
  pose proof (proj1 (forallb_forall _ _) mono_sweep_true b Hb) as H1.
  unfold mono_sweep_body in H1. cbv zeta in H1.
  pose proof (proj1 (forallb_forall _ _) H1 i Hi) as H2. cbv beta in H2.
  apply Bool.eqb_prop in H2. exact H2.
Qed.

(* ---- unbounded: monomorphisation never invents a CFG: every function of the result has the
   block list of some function of the input *)
Lemma generic_fn_In fs n g : generic_fn fs n = Some g -> In g fs.
Proof. unfold generic_fn. intro H. apply find_some in H. apply in_rev. apply H. Qed.

Lemma instantiate_blocks fs : forall reqs done newf,
  (forall f, In f newf -> exists g, In g fs /\ m_blocks f = m_blocks g) ->
  forall f, In f (snd (instantiate fs reqs done newf)) -> exists g, In g fs /\ m_blocks f = m_blocks g.
Proof.
  induction reqs as [|[n ta] r IH]; intros done newf Hn f Hf; cbn [instantiate] in Hf.
  - apply Hn. exact Hf.
  - destruct (has_inst done n (key ta)).
    + eapply IH; eassumption.
    + destruct (generic_fn fs n) as [g|] eqn:Eg.
      * eapply IH; [|exact Hf]. intros f' Hf'. apply in_app_or in Hf' as [Hf'|[<-|[]]].
        -- apply Hn. exact Hf'.
        -- exists g. split; [eapply generic_fn_In; eassumption|reflexivity].
      * eapply IH; eassumption.
Qed.

Lemma rewrite_fn_blocks tab f : m_blocks (rewrite_fn tab f) = m_blocks f.
Proof. unfold rewrite_fn. destruct (is_generic f); reflexivity. Qed.

Lemma mono_preserves_blocks pick p f :
  In f (p_fns (monomorphize pick p)) -> exists g, In g (p_fns p) /\ m_blocks f = m_blocks g.
Proof.
  unfold monomorphize, mono_finish.
  destruct (mono_insts p) as [insts newf] eqn:E. cbn [p_fns].
  intro H. apply filter_In in H as [H _]. apply in_map_iff in H as [f0 [<- H0]].
  rewrite rewrite_fn_blocks. apply in_app_or in H0 as [H0|H0].
  - exists f0. split; [exact H0|reflexivity].
  - unfold mono_insts in E.
    apply (instantiate_blocks (p_fns p) (requests (p_fns p)) [] []); [intros ? []|].
    rewrite E. exact H0.
Qed.

Lemma mono_preserves_cfg pick p :
  forallb (fun f => wf_cfg (m_blocks f)) (p_fns p) = true ->
  forallb (fun f => wf_cfg (m_blocks f)) (p_fns (monomorphize pick p)) = true.
Proof.
  intro H. apply forallb_forall. intros f Hf.
  destruct (mono_preserves_blocks pick p f Hf) as [g [Hg ->]].
  rewrite forallb_forall in H. apply H. exact Hg.
Qed.
