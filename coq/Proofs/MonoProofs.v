(* C17 -- lemmas about the monomorphisation model (Model/Mono.v). *)
From Aelys Require Import Base.Tactics Model.AirLower Model.Mono.
Local Open Scope N_scope.

Definition T_STR : ty := TPrim 11.
Definition one_block : list block := [(0, TRet)].

(* fn identity<T>(x: T) -> T { return x }            name 0
   fn caller() { let v: int = 42; let s = "hi"; identity(v); identity(s) }     name 1 *)
Definition f_identity : mfn :=
  mkmfn (NPlain 0) [0] [(0, TParam 0)] (TParam 0) [(0, TParam 0)] [] one_block.
Definition w_two_types : mprog :=
  mkmp [f_identity;
        mkmfn (NPlain 1) [] [] T_I64 [(0, T_I64); (1, T_STR); (2, T_I64); (3, T_I64)]
              [MCall (NPlain 0) [ALocal 0]; MCall (NPlain 0) [ALocal 1]] one_block]
       [] [].

(* struct Point {x, y} (name 5);  fn mk<T>(x: T) -> T { let p = Point{..}; return x } (name 2);
   fn caller() { mk(3) } *)
Definition w_structinit : mprog :=
  mkmp [mkmfn (NPlain 2) [0] [(0, TParam 0)] (TParam 0) [(0, TParam 0); (1, TStruct 5)]
              [MInit (NPlain 5)] one_block;
        mkmfn (NPlain 1) [] [] T_I64 [(0, T_I64)] [MCall (NPlain 2) [AConst T_I64]] one_block]
       [mkms (NPlain 5) [] [T_I64; T_I64]] [].

(* struct Box<T> { v: T } (name 6);  fn caller() { let b: Box = ... } *)
Definition w_generic_struct : mprog :=
  mkmp [mkmfn (NPlain 1) [] [] T_I64 [(0, TStruct 6)] [] one_block]
       [mkms (NPlain 6) [0] [TParam 0]] [].

(* fn wrap<T>(x: T) -> T { return identity(x) } (name 3);  fn caller() { wrap(3) } *)
Definition w_generic_calls_generic : mprog :=
  mkmp [f_identity;
        mkmfn (NPlain 3) [0] [(0, TParam 0)] (TParam 0) [(0, TParam 0); (1, TParam 0)]
              [MCall (NPlain 0) [ALocal 0]] one_block;
        mkmfn (NPlain 1) [] [] T_I64 [(0, T_I64)] [MCall (NPlain 3) [AConst T_I64]] one_block]
       [] [].

(* one instantiation only: everything is fine *)
Definition w_single : mprog :=
  mkmp [f_identity;
        mkmfn (NPlain 1) [] [] T_I64 [(0, T_I64); (1, T_I64)]
              [MCall (NPlain 0) [ALocal 0]; MCall (NPlain 0) [AConst T_I64]] one_block]
       [] [].

Definition i_int : inst := mkinst 0 [T_I64] (NMono 0 [T_I64]).
Definition i_str : inst := mkinst 0 [T_STR] (NMono 0 [T_STR]).

Lemma first_instance_witness :
  forall pick, pick_sound pick -> wf_mono w_two_types (monomorphize pick w_two_types) = false.
Proof.
  intros pick Hs.
  destruct (Hs 0 [i_int; i_str]) as [i [Hp Hin]]; [discriminate|].
  unfold monomorphize.
  replace (fst (mono_insts w_two_types)) with [i_int; i_str] by (vm_compute; reflexivity).
  change (choices pick [i_int; i_str]) with [(0, pick 0 [i_int; i_str])].
  rewrite Hp.
  destruct Hin as [<-|[<-|[]]]; vm_compute; reflexivity.
Qed.

Lemma structinit_witness :
  forall pick, wf_mono w_structinit (monomorphize pick w_structinit) = false
  /\ forallb (structs_exist_fn (monomorphize pick w_structinit)) (p_fns (monomorphize pick w_structinit)) = false.
Proof.
  intro pick. unfold monomorphize.
  replace (fst (mono_insts w_structinit)) with [mkinst 2 [T_I64] (NMono 2 [T_I64])] by (vm_compute; reflexivity).
  change (choices pick [mkinst 2 [T_I64] (NMono 2 [T_I64])])
    with [(2, pick 2 [mkinst 2 [T_I64] (NMono 2 [T_I64])])].
  destruct (pick 2 _) as [i|]; vm_compute; split; reflexivity.
Qed.

Lemma generic_struct_witness :
  forall pick, wf_mono w_generic_struct (monomorphize pick w_generic_struct) = false
  /\ reachable_fields_closed (monomorphize pick w_generic_struct) = false.
Proof. intro pick. vm_compute. split; reflexivity. Qed.

Lemma generic_calls_generic_witness :
  forall pick, pick_sound pick ->
  wf_mono w_generic_calls_generic (monomorphize pick w_generic_calls_generic) = false.
Proof.
  intros pick Hs.
  destruct (Hs 3 [mkinst 3 [T_I64] (NMono 3 [T_I64])]) as [i [Hp Hin]]; [discriminate|].
  unfold monomorphize.
  replace (fst (mono_insts w_generic_calls_generic)) with [mkinst 3 [T_I64] (NMono 3 [T_I64])]
    by (vm_compute; reflexivity).
  change (choices pick [mkinst 3 [T_I64] (NMono 3 [T_I64])])
    with [(3, pick 3 [mkinst 3 [T_I64] (NMono 3 [T_I64])])].
  rewrite Hp. destruct Hin as [<-|[]]. vm_compute; reflexivity.
Qed.

Lemma single_witness : wf_mono w_single (monomorphize pick_first w_single) = true.
Proof. vm_compute. reflexivity. Qed.
