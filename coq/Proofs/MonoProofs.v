(* C17 -- lemmas about the monomorphisation model (Model/Mono.v, repaired code). *)
From Aelys Require Import Base.Tactics Model.AirLower Model.Mono.
Local Open Scope N_scope.

Definition T_STR : ty := TPrim 11.
Definition T_BOOL : ty := TPrim 10.
Definition T_F64 : ty := TPrim 9.
Definition one_block : list block := [(0, TRet)].

(* fn identity<T>(x: T) -> T { return x }            name 0
   fn caller() { let v: int = 42; let s = "hi"; identity(v); identity(s) }     name 1 *)
Definition f_identity : mfn :=
  mkmfn (NPlain 0) [0] [(0, TParam 0)] (TParam 0) [(0, TParam 0)] [] one_block false.
Definition w_two_types : mprog :=
  mkmp [f_identity;
        mkmfn (NPlain 1) [] [] T_I64 [(0, T_I64); (1, T_STR); (2, T_I64); (3, T_I64)]
              [MCall (NPlain 0) [ALocal 0]; MCall (NPlain 0) [ALocal 1]] one_block false]
       [] [].

(* struct Point {x, y} (name 5);  fn mk<T>(x: T) -> T { let p = Point{..}; return x } (name 2);
   fn caller() { mk(3) } *)
Definition w_structinit : mprog :=
  mkmp [mkmfn (NPlain 2) [0] [(0, TParam 0)] (TParam 0) [(0, TParam 0); (1, TStruct 5)]
              [MInit (NPlain 5)] one_block false;
        mkmfn (NPlain 1) [] [] T_I64 [(0, T_I64)] [MCall (NPlain 2) [AConst T_I64]] one_block false]
       [mkms (NPlain 5) [] [T_I64; T_I64]] [].

(* struct Box<T> { v: T } (name 6);  fn caller() { let b: Box = ... }   -- KF-C17-5, still open *)
Definition w_generic_struct : mprog :=
  mkmp [mkmfn (NPlain 1) [] [] T_I64 [(0, TStruct 6)] [] one_block false]
       [mkms (NPlain 6) [0] [TParam 0]] [].

(* fn wrap<T>(x: T) -> T { return identity(x) } (name 3);  fn caller() { wrap(3) } *)
Definition f_wrap : mfn :=
  mkmfn (NPlain 3) [0] [(0, TParam 0)] (TParam 0) [(0, TParam 0); (1, TParam 0)]
        [MCall (NPlain 0) [ALocal 0]] one_block false.
Definition w_generic_calls_generic : mprog :=
  mkmp [f_identity; f_wrap;
        mkmfn (NPlain 1) [] [] T_I64 [(0, T_I64)] [MCall (NPlain 3) [AConst T_I64]] one_block false]
       [] [].

(* the former counterexamples (KF-C17-3, -4, -6): all clauses hold now, and each call site
   targets the instance made for its own argument types *)
Lemma two_types_repaired :
  wf_mono w_two_types (monomorphize w_two_types) = true
  /\ flat_map (fun f => flat_map stmt_obs (m_body f)) (p_fns (monomorphize w_two_types))
     = [CInst 0 [T_I64]; CInst 0 [T_STR]].
Proof. vm_compute. split; reflexivity. Qed.

Lemma structinit_repaired :
  wf_mono w_structinit (monomorphize w_structinit) = true
  /\ flat_map (fun f => flat_map stmt_obs (m_body f)) (p_fns (monomorphize w_structinit))
     = [CInst 2 [T_I64]; SPlain 5].
Proof. vm_compute. split; reflexivity. Qed.

Lemma generic_calls_generic_repaired :
  wf_mono w_generic_calls_generic (monomorphize w_generic_calls_generic) = true
  /\ map (fun i => (i_base i, i_args i)) (p_insts (monomorphize w_generic_calls_generic))
     = [(3, [T_I64]); (0, [T_I64])].
Proof. vm_compute. split; reflexivity. Qed.

Lemma generic_struct_witness :
  wf_mono w_generic_struct (monomorphize w_generic_struct) = false
  /\ reachable_fields_closed (monomorphize w_generic_struct) = false.
Proof. vm_compute. split; reflexivity. Qed.

(* ---- a bounded family: four generic functions (one calling another, one with a struct literal),
   one caller with <= 3 call sites over 21 statement shapes, no generic struct *)
Definition g_id : mfn := f_identity.                                             (* name 0 *)
Definition g_pick : mfn :=                                                        (* name 2 *)
  mkmfn (NPlain 2) [0; 1] [(0, TParam 0); (1, TParam 1)] (TParam 0) [(0, TParam 0); (1, TParam 1)]
        [MInit (NPlain 5)] one_block false.
Definition g_first : mfn :=                                                       (* name 4 *)
  mkmfn (NPlain 4) [0] [(0, TSlice (TParam 0))] (TParam 0) [(0, TSlice (TParam 0)); (1, TParam 0)]
        [MCast (TParam 0) T_I64; MCall (NPlain 3) [ALocal 1]] one_block false.

Definition caller_locals : list (N * ty) :=
  [(0, T_I64); (1, T_STR); (2, T_BOOL); (3, T_F64); (4, TSlice T_I64); (5, TSlice T_STR)].
Definition calls : list mstmt :=
  map (fun k => MCall (NPlain 0) [ALocal k]) [0; 1; 2; 3]
  ++ [MCall (NPlain 0) [AConst T_I64]; MCall (NPlain 0) [AConst T_STR]]
  ++ flat_map (fun a => map (fun b => MCall (NPlain 2) [ALocal a; ALocal b]) [0; 1; 2]) [0; 1; 2]
  ++ [MCall (NPlain 4) [ALocal 4]; MCall (NPlain 4) [ALocal 5]; MCall (NPlain 9) [ALocal 0];
      MCall (NPlain 3) [ALocal 1]; MCall (NPlain 3) [ALocal 3]; MInit (NPlain 5)].
Definition bodies : list (list mstmt) :=
  [[]] ++ map (fun a => [a]) calls
  ++ flat_map (fun a => map (fun b => [a; b]) calls) calls
  ++ flat_map (fun a => flat_map (fun b => map (fun c => [a; b; c]) calls) calls) calls.
Definition prog_with (body : list mstmt) : mprog :=
  mkmp [g_id; g_pick; f_wrap; g_first; mkmfn (NPlain 1) [] [] T_I64 caller_locals body one_block false]
       [mkms (NPlain 5) [] [T_I64; T_I64]] [].

Definition mono_sweep_body (b : list mstmt) : bool :=
  wf_mono (prog_with b) (monomorphize (prog_with b)).

Lemma mono_sweep_true : forallb mono_sweep_body bodies = true.
Proof. vm_cast_no_check (eq_refl true). Qed.

Lemma mono_family_size : fold_left (fun a _ => a + 1) bodies 0 = 9724.
Proof. vm_compute. reflexivity. Qed.

Lemma mono_sweep_spec : forall b, In b bodies ->
  wf_mono (prog_with b) (monomorphize (prog_with b)) = true.
Proof. intros b Hb. exact (proj1 (forallb_forall _ _) mono_sweep_true b Hb). Qed.

(* ====================================================================================== *)
(* UNBOUNDED lemmas *)

Lemma generic_fn_In fs n g : generic_fn fs n = Some g -> In g fs.
Proof. unfold generic_fn. intro H. apply find_some in H. apply in_rev. apply H. Qed.

(* what instantiate adds: instances of functions of [fs], one per recorded inst, same name *)
Definition inst_fn_ok (fs : list mfn) (f : mfn) : Prop :=
  exists g n ta, In g fs /\ f = instance_of g n ta.
Definition insts_named (done : list inst) (newf : list mfn) : Prop :=
  forall i, In i done -> exists f, In f newf /\ m_name f = NMono (i_base i) (key (i_args i)).

Lemma instantiate_spec fs : forall reqs done newf,
  Forall (inst_fn_ok fs) newf ->
  Forall (inst_fn_ok fs) (snd (instantiate fs reqs done newf))
  /\ (forall acc, insts_named done (acc ++ newf) ->
        insts_named (fst (instantiate fs reqs done newf)) (acc ++ snd (instantiate fs reqs done newf))).
Proof.
  induction reqs as [|[n ta] r IH]; intros done newf Hn; cbn [instantiate].
  - split; [exact Hn|intros acc H; exact H].
  - destruct (has_inst done n (key ta)); [apply IH; exact Hn|].
    destruct (generic_fn fs n) as [g|] eqn:Eg; [|apply IH; exact Hn].
    assert (Hn' : Forall (inst_fn_ok fs) (newf ++ [instance_of g n ta])).
    { apply Forall_app. split; [exact Hn|]. constructor; [|constructor].
      exists g, n, ta. split; [eapply generic_fn_In; eassumption|reflexivity]. }
    destruct (IH (done ++ [mkinst n ta (NMono n (key ta))]) _ Hn') as [A B]. split; [exact A|].
    intros acc H. apply B. intros i Hi. apply in_app_or in Hi as [Hi|[<-|[]]].
    + destruct (H i Hi) as [f [Hf Hm]]. exists f. split; [|exact Hm].
      rewrite app_assoc. apply in_or_app. left. exact Hf.
    + exists (instance_of g n ta). split; [|reflexivity].
      apply in_or_app. right. apply in_or_app. right. left. reflexivity.
Qed.

Lemma rounds_spec fs : forall fuel reqs done allnew,
  Forall (inst_fn_ok fs) allnew -> insts_named done allnew ->
  Forall (inst_fn_ok fs) (snd (rounds fuel fs reqs done allnew))
  /\ insts_named (fst (rounds fuel fs reqs done allnew)) (snd (rounds fuel fs reqs done allnew)).
Proof.
  induction fuel as [|k IH]; intros reqs done allnew Hf Hn; cbn [rounds].
  - split; assumption.
  - destruct (instantiate fs reqs done []) as [done' newf] eqn:E.
    destruct (instantiate_spec fs reqs done [] (Forall_nil _)) as [A B]. rewrite E in A, B. cbn [fst snd] in A, B.
    specialize (B allnew). rewrite app_nil_r in B. specialize (B Hn).
    destruct newf as [|f0 r0].
    + rewrite app_nil_r in B. split; assumption.
    + apply IH; [apply Forall_app; split; assumption|exact B].
Qed.

Lemma mono_insts_spec p :
  Forall (inst_fn_ok (p_fns p)) (snd (mono_insts p))
  /\ insts_named (fst (mono_insts p)) (snd (mono_insts p)).
Proof. unfold mono_insts. apply rounds_spec; [constructor|intros i []]. Qed.

Lemma rewrite_fn_blocks fs insts f : m_blocks (rewrite_fn fs insts f) = m_blocks f.
Proof. unfold rewrite_fn. destruct (is_generic f); reflexivity. Qed.

(* monomorphisation never invents a CFG *)
Lemma mono_preserves_blocks p f :
  In f (p_fns (monomorphize p)) -> exists g, In g (p_fns p) /\ m_blocks f = m_blocks g.
Proof.
  unfold monomorphize. destruct (mono_insts_spec p) as [Hf _].
  destruct (mono_insts p) as [insts newf]. cbn [fst snd p_fns] in *.
  intro H. apply filter_In in H as [H _]. apply in_map_iff in H as [f0 [<- H0]].
  rewrite rewrite_fn_blocks. apply in_app_or in H0 as [H0|H0].
  - exists f0. split; [exact H0|reflexivity].
  - rewrite Forall_forall in Hf. destruct (Hf f0 H0) as (g & n & ta & Hg & ->).
    exists g. split; [exact Hg|reflexivity].
Qed.

Lemma mono_preserves_cfg p :
  forallb (fun f => wf_cfg (m_blocks f)) (p_fns p) = true ->
  forallb (fun f => wf_cfg (m_blocks f)) (p_fns (monomorphize p)) = true.
Proof.
  intro H. apply forallb_forall. intros f Hf.
  destruct (mono_preserves_blocks p f Hf) as [g [Hg ->]].
  rewrite forallb_forall in H. apply H. exact Hg.
Qed.

(* ---- every redirected call targets the instance made for exactly its argument types *)
Scheme ty_ind' := Induction for ty Sort Prop with tys_ind' := Induction for tys Sort Prop.
Combined Scheme ty_mutind from ty_ind', tys_ind'.

Lemma ty_eqb_refl : (forall t, ty_eqb t t = true) /\ (forall l, tys_eqb l l = true).
Proof.
  apply ty_mutind; intros; cbn [ty_eqb tys_eqb]; rewrite ?N.eqb_refl; try reflexivity;
    repeat match goal with H : _ = true |- _ => rewrite H end; reflexivity.
Qed.
Lemma tylist_eqb_refl l : tylist_eqb l l = true.
Proof. induction l as [|t r IH]; cbn; [reflexivity|]. rewrite (proj1 ty_eqb_refl), IH. reflexivity. Qed.

Definition plain_stmt (s : mstmt) : bool :=
  match s with MCall (NMono _ _) _ => false | _ => true end.
Definition plain_prog (p : mprog) : bool := forallb (fun f => forallb plain_stmt (m_body f)) (p_fns p).

Lemma subst_stmt_plain tp ta s : plain_stmt s = true -> plain_stmt (subst_stmt tp ta s) = true.
Proof. destruct s as [[n|n k] args| |]; cbn; auto. Qed.

Lemma find_exists {A} (f : A -> bool) l x : In x l -> f x = true -> exists y, find f l = Some y.
Proof.
  induction l as [|a r IH]; intros Hin Hf; [contradiction|]. cbn. destruct (f a) eqn:E.
  - exists a. reflexivity.
  - destruct Hin as [->|Hin]; [congruence|]. apply IH; assumption.
Qed.

Lemma infer_rewrite_fn fs insts g f args :
  infer_type_args g (rewrite_fn fs insts f) args = infer_type_args g f args.
Proof. unfold rewrite_fn. destruct (is_generic f); reflexivity. Qed.

Theorem mono_redirected_calls_exact p f n k args :
  plain_prog p = true ->
  In f (p_fns (monomorphize p)) -> In (MCall (NMono n k) args) (m_body f) ->
  call_exact p (monomorphize p) f (MCall (NMono n k) args) = true.
Proof.
  intros Hplain Hf Hs.
  pose proof Hf as Hf0. unfold monomorphize in Hf0.
  destruct (mono_insts_spec p) as [Hinst Hnamed].
  remember (monomorphize p) as q eqn:Eq. unfold monomorphize in Eq.
  destruct (mono_insts p) as [insts newf]. cbn [fst snd] in *.
  cbn [p_fns] in Hf0. apply filter_In in Hf0 as [Hf0 Hng].
  apply in_map_iff in Hf0 as [f0 [Ef H0]].
  assert (Hng0 : is_generic f0 = false).
  { subst f. unfold rewrite_fn in Hng. destruct (is_generic f0) eqn:E; [|reflexivity].
    rewrite E in Hng. discriminate. }
  (* the body of f0 is plain *)
  assert (Hpl0 : forallb plain_stmt (m_body f0) = true).
  { apply in_app_or in H0 as [H0|H0].
    - unfold plain_prog in Hplain. rewrite forallb_forall in Hplain. apply Hplain. exact H0.
    - rewrite Forall_forall in Hinst. destruct (Hinst f0 H0) as (g & n' & ta & Hg & ->).
      cbn [instance_of m_body]. apply forallb_forall. intros s Hs'.
      apply in_map_iff in Hs' as [s0 [<- Hs0]]. apply subst_stmt_plain.
      unfold plain_prog in Hplain. rewrite forallb_forall in Hplain.
      specialize (Hplain g Hg). rewrite forallb_forall in Hplain. apply Hplain. exact Hs0. }
  (* the statement comes from rewriting a plain one *)
  assert (Hbody : m_body f = map (rewrite_stmt (p_fns p) insts f0) (m_body f0)).
  { subst f. unfold rewrite_fn. rewrite Hng0. reflexivity. }
  rewrite Hbody in Hs. apply in_map_iff in Hs as [s0 [Es Hs0]].
  rewrite forallb_forall in Hpl0. specialize (Hpl0 s0 Hs0).
  destruct s0 as [[n0|n0 k0] args0| |]; cbn in Hpl0; try discriminate; cbn [rewrite_stmt] in Es; try discriminate.
  destruct (generic_fn (p_fns p) n0) as [g|] eqn:Eg; [|discriminate].
  destruct (infer_type_args g f0 args0) as [ta|] eqn:Ei; [|discriminate].
  destruct (has_inst insts n0 (key ta)) eqn:Eh; [|discriminate].
  inversion Es; subst n k args. clear Es.
  cbn [call_exact]. rewrite Eg.
  (* the instance exists in the result *)
  assert (Hfind : exists y, find_fn q (NMono n0 (key ta)) = Some y).
  { unfold has_inst in Eh. apply existsb_exists in Eh as [i [Hi Hb]].
    apply andb_true_iff in Hb as [Hb1 Hb2]. apply N.eqb_eq in Hb1.
    destruct (Hnamed i Hi) as [fi [Hfi Hname]].
    rewrite Forall_forall in Hinst. destruct (Hinst fi Hfi) as (g' & n' & ta' & Hg' & Efi).
    unfold find_fn. subst q. cbn [p_fns].
    apply find_exists with (x := rewrite_fn (p_fns p) insts fi).
    - apply filter_In. split.
      + apply in_map. apply in_or_app. right. exact Hfi.
      + subst fi. reflexivity.
    - assert (m_name (rewrite_fn (p_fns p) insts fi) = m_name fi)
        by (unfold rewrite_fn; destruct (is_generic fi); reflexivity).
      rewrite H, Hname, Hb1. cbn [name_eqb]. rewrite N.eqb_refl, Hb2. reflexivity. }
  destruct Hfind as [y ->].
  subst f. rewrite infer_rewrite_fn, Ei. apply tylist_eqb_refl.
Qed.
