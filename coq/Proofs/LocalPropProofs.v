(* Local constant propagation (Model/Opt/LocalProp.v): the algebra of the scope stack.  These are
   the facts the pass's scoping argument rests on - each repaired shadowing defect (e601607: a
   parameter, a loop variable, a non-constant `let`, a lambda parameter did not hide an outer
   constant) was a violation of one of them. *)
From Coq Require Import String.
From Aelys Require Import Base.Tactics Model.Lang Model.Opt.LocalProp.

Lemma sc_find_set_same x v s : sc_find x (sc_set x v s) = Some v.
Proof.
  induction s as [|[y w] r IH]; cbn [sc_set sc_find].
  - rewrite String.eqb_refl. reflexivity.
  - destruct (String.eqb x y) eqn:E; cbn [sc_find]; rewrite E; [reflexivity | exact IH].
Qed.

Lemma sc_find_set_other x y v s : x <> y -> sc_find x (sc_set y v s) = sc_find x s.
Proof.
  intro N. induction s as [|[z w] r IH]; cbn [sc_set sc_find].
  - destruct (String.eqb x y) eqn:E; [apply String.eqb_eq in E; contradiction | reflexivity].
  - destruct (String.eqb y z) eqn:E; cbn [sc_find].
    + apply String.eqb_eq in E. subst z.
      destruct (String.eqb x y) eqn:E2; [apply String.eqb_eq in E2; contradiction | reflexivity].
    + destruct (String.eqb x z); [reflexivity | exact IH].
Qed.

(* a binder hides every outer entry of its name: after `insert` / `shadow`, the lookup sees exactly
   what was put - in particular NOTHING after `shadow` *)
Theorem ss_get_put_same x v ss : ss_get x (ss_put x v ss) = v.
Proof.
  destruct ss as [|s r]; cbn [ss_put ss_get].
  - cbn [sc_find]. rewrite String.eqb_refl. reflexivity.
  - rewrite sc_find_set_same. reflexivity.
Qed.

(* ... and touches no other name *)
Theorem ss_get_put_other x y v ss : x <> y -> ss <> [] -> ss_get x (ss_put y v ss) = ss_get x ss.
Proof.
  intros N NE. destruct ss as [|s r]; [congruence|]. cbn [ss_put ss_get].
  rewrite sc_find_set_other by exact N. reflexivity.
Qed.

(* an assignment (and a loop that assigns) kills the constant, wherever it was recorded *)
Theorem ss_get_inval_same x ss : ss_get x (ss_inval x ss) = None.
Proof.
  induction ss as [|s r IH]; cbn [ss_inval ss_get]; [reflexivity|].
  destruct (sc_find x s) eqn:F; cbn [ss_get].
  - rewrite sc_find_set_same. reflexivity.
  - rewrite F. exact IH.
Qed.

Theorem ss_get_inval_other x y ss : x <> y -> ss_get x (ss_inval y ss) = ss_get x ss.
Proof.
  intro N. induction ss as [|s r IH]; cbn [ss_inval ss_get]; [reflexivity|].
  destruct (sc_find y s) eqn:F; cbn [ss_get].
  - rewrite sc_find_set_other by exact N. reflexivity.
  - rewrite IH. reflexivity.
Qed.

(* opening a scope changes no lookup; what is bound inside is gone when it closes *)
Theorem ss_get_push x ss : ss_get x (ss_push ss) = ss_get x ss.
Proof. reflexivity. Qed.

Theorem ss_pop_push ss : ss <> [] -> ss_pop (ss_push ss) = ss.
Proof. destruct ss; [congruence | reflexivity]. Qed.

Theorem ss_pop_put_push x v ss : ss <> [] -> ss_pop (ss_put x v (ss_push ss)) = ss.
Proof. destruct ss; [congruence | reflexivity]. Qed.

Lemma ss_inval_length y ss : length (ss_inval y ss) = length ss.
Proof.
  induction ss as [|s r IH]; cbn [ss_inval]; [reflexivity|].
  destruct (sc_find y s); cbn [length]; [reflexivity | rewrite IH; reflexivity].
Qed.

Lemma ss_put_length x v ss : ss <> [] -> length (ss_put x v ss) = length ss.
Proof. destruct ss; [congruence | reflexivity]. Qed.

(* session unit: inside a function or lambda body a constant recorded ONLY in the top-level scope
   is invisible (a later unit may rebind it), whatever the inner scopes shadow or not *)
Theorem session_body_ignores_top_level x (top : scope) :
  known true true [top] x = None.
Proof. reflexivity. Qed.

Theorem session_body_sees_inner x (inner top : scope) (rest : scopes) v :
  sc_find x inner = Some v -> known true true (inner :: rest ++ [top]) x = v.
Proof.
  intro F. unfold known, ss_get_above. cbn [andb].
  assert (R : removelast (inner :: rest ++ [top]) = inner :: rest).
  { change (inner :: rest ++ [top]) with ((inner :: rest) ++ [top]). apply removelast_last. }
  rewrite R. cbn [ss_get]. rewrite F. reflexivity.
Qed.

(* outside session bodies the whole stack is consulted *)
Theorem whole_program_sees_all x ss d : known false d ss x = ss_get x ss.
Proof. reflexivity. Qed.

(* only literals are ever recorded: the `let` rule *)
Lemma lp_stmt_let open bs d ss x m e :
  lp_stmt open bs d ss (SLet x m e) =
  let '(e1, s1) := lp_expr open bs d ss e in
  let e2 := Fold.fold_expr e1 in
  let rebindable := Nat.eqb (length s1) 1 && negb (GlobalProp.bound_once bs x) in
  if negb m && is_simple_constant e2 && negb rebindable
  then (SLet x m e2, ss_put x (Some e2) s1)
  else (SLet x m e2, ss_put x None s1).
Proof. reflexivity. Qed.

Theorem let_records_only_literals open bs d ss x m e s' ss' :
  lp_stmt open bs d ss (SLet x m e) = (s', ss') ->
  forall k, ss_get x ss' = Some k -> is_simple_constant k = true /\ m = false.
Proof.
  rewrite lp_stmt_let. destruct (lp_expr open bs d ss e) as [e1 s1]. cbv zeta.
  match goal with |- context [if ?c then _ else _] => destruct c eqn:G end;
    intros H k Hk; inversion H; subst; rewrite ss_get_put_same in Hk; [|discriminate].
  inversion Hk; subst.
  apply andb_true_iff in G as [G1 _]. apply andb_true_iff in G1 as [Gm Gc].
  split; [exact Gc | destruct m; [discriminate | reflexivity]].
Qed.

(* a top-level `let` whose name is bound anywhere else in the program is never recorded *)
Theorem rebindable_global_not_recorded open bs d (top : scope) x m e s' ss' :
  lp_stmt open bs d [top] (SLet x m e) = (s', ss') ->
  length (snd (lp_expr open bs d [top] e)) = 1%nat ->
  GlobalProp.bound_once bs x = false -> ss_get x ss' = None.
Proof.
  rewrite lp_stmt_let. destruct (lp_expr open bs d [top] e) as [e1 s1]. cbv zeta. cbn [snd].
  intros H L B. rewrite L, B in H. cbn [Nat.eqb negb andb] in H.
  rewrite andb_false_r in H. inversion H; subst. apply ss_get_put_same.
Qed.
