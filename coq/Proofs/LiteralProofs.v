(* Lemmas about integer literals (Model/Literal.v): digit-group underscores and radix. *)
From Aelys Require Import Base.Tactics Model.Literal.
Local Open Scope N_scope.

(* ------------------------------------------------------------------ underscores *)
Lemma strip_insert a b : strip (a ++ US :: b) = strip (a ++ b).
Proof.
  unfold strip. rewrite !filter_app. cbn [filter].
  replace (US =? US) with true by (symmetry; apply N.eqb_refl). reflexivity.
Qed.

Lemma body_ok_insert r a b : body_ok r (a ++ US :: b) = body_ok r (a ++ b).
Proof.
  unfold body_ok. rewrite !forallb_app. cbn [forallb].
  replace (US =? US) with true by (symmetry; apply N.eqb_refl). reflexivity.
Qed.

Lemma decimal_char_not_prefix p :
  ((p =? US) || match digit_val 10 p with Some _ => true | None => false end) = true ->
  is_prefix_letter p = false.
Proof.
  unfold is_prefix_letter. intro H.
  destruct (p =? 120) eqn:E1; [apply N.eqb_eq in E1; subst p; vm_compute in H; discriminate|].
  destruct (p =? 88) eqn:E2; [apply N.eqb_eq in E2; subst p; vm_compute in H; discriminate|].
  destruct (p =? 98) eqn:E3; [apply N.eqb_eq in E3; subst p; vm_compute in H; discriminate|].
  destruct (p =? 66) eqn:E4; [apply N.eqb_eq in E4; subst p; vm_compute in H; discriminate|].
  destruct (p =? 111) eqn:E5; [apply N.eqb_eq in E5; subst p; vm_compute in H; discriminate|].
  destruct (p =? 79) eqn:E6; [apply N.eqb_eq in E6; subst p; vm_compute in H; discriminate|].
  reflexivity.
Qed.

(* a text all of whose characters after the first are decimal digits or underscores is lexed
   by the decimal branch *)
Lemma lex_int_decimal c body :
  body_ok 10 body = true -> lex_int (c :: body) = lex_decimal (c :: body).
Proof.
  intro H. unfold lex_int.
  destruct (N.eq_dec c 48) as [->|Hc].
  - destruct body as [|p body']; [reflexivity|].
    cbn [body_ok forallb] in H. apply andb_true_iff in H as [Hp _].
    rewrite (decimal_char_not_prefix p Hp). reflexivity.
  - destruct c as [|pc]; [reflexivity|].
    repeat (destruct pc as [pc|pc|]; try reflexivity). congruence.
Qed.

Lemma lex_decimal_insert c a b :
  lex_decimal (c :: a ++ US :: b) = lex_decimal (c :: a ++ b).
Proof.
  unfold lex_decimal. rewrite body_ok_insert.
  change (c :: a ++ US :: b) with ((c :: a) ++ US :: b).
  change (c :: a ++ b) with ((c :: a) ++ b).
  rewrite strip_insert. reflexivity.
Qed.

Lemma underscore_decimal_lemma c a b :
  body_ok 10 (a ++ b) = true ->
  lex_int (c :: a ++ US :: b) = lex_int (c :: a ++ b).
Proof.
  intro H. rewrite !lex_int_decimal; [apply lex_decimal_insert|exact H|rewrite body_ok_insert; exact H].
Qed.

Lemma underscore_prefixed_lemma p a b :
  is_prefix_letter p = true ->
  lex_int (48 :: p :: a ++ US :: b) = lex_int (48 :: p :: a ++ b).
Proof.
  intro H. unfold lex_int. rewrite H, body_ok_insert, strip_insert. reflexivity.
Qed.

(* ------------------------------------------------------------------ radix *)
Lemma digits_value_app r s1 : forall acc s2,
  digits_value r acc (s1 ++ s2)
  = match digits_value r acc s1 with Some v => digits_value r v s2 | None => None end.
Proof.
  induction s1 as [|c s1 IH]; intros acc s2; [reflexivity|].
  cbn [app digits_value]. destruct (digit_val r c); [apply IH|reflexivity].
Qed.

Lemma digit_val_char r u d : d < r -> r <= 16 -> digit_val r (digit_char u d) = Some d.
Proof.
  intros Hd Hr. unfold digit_val, digit_char.
  destruct (d <? 10) eqn:E.
  - destruct ((48 <=? 48 + d) && (48 + d <=? 57)) eqn:E1; [|lia].
    replace (48 + d - 48) with d by lia. destruct (d <? r) eqn:E2; [reflexivity|lia].
  - destruct u.
    + destruct ((48 <=? 55 + d) && (55 + d <=? 57)) eqn:E1; [lia|].
      destruct ((97 <=? 55 + d) && (55 + d <=? 102)) eqn:E2; [lia|].
      destruct ((65 <=? 55 + d) && (55 + d <=? 70)) eqn:E3; [|lia].
      replace (55 + d - 55) with d by lia. destruct (d <? r) eqn:E4; [reflexivity|lia].
    + destruct ((48 <=? 87 + d) && (87 + d <=? 57)) eqn:E1; [lia|].
      destruct ((97 <=? 87 + d) && (87 + d <=? 102)) eqn:E2; [|lia].
      replace (87 + d - 87) with d by lia. destruct (d <? r) eqn:E4; [reflexivity|lia].
Qed.

Lemma digit_char_not_us u d : d < 16 -> (digit_char u d =? US) = false.
Proof. intro H. unfold digit_char, US. destruct (d <? 10) eqn:E; [lia|]. destruct u; lia. Qed.

Lemma digits_rev_lt r : 0 < r -> forall f n, Forall (fun d => d < r) (digits_rev f r n).
Proof.
  intros Hr f. induction f as [|k IH]; intro n; cbn [digits_rev].
  - constructor; [apply N.mod_lt; lia|constructor].
  - destruct (n <? r) eqn:E.
    + constructor; [lia|constructor].
    + constructor; [apply N.mod_lt; lia|apply IH].
Qed.

Lemma digits_rev_nonempty f r n : digits_rev f r n <> [].
Proof. destruct f; cbn [digits_rev]; [discriminate|]. destruct (n <? r); discriminate. Qed.

Lemma digits_rev_value r u : 2 <= r -> r <= 16 -> forall f n, n < r ^ N.of_nat (S f) ->
  digits_value r 0 (map (digit_char u) (rev (digits_rev f r n))) = Some n.
Proof.
  intros Hr Hr16 f. induction f as [|k IH]; intros n Hn.
  - cbn [digits_rev rev app map digits_value].
    change (N.of_nat 1) with 1 in Hn. rewrite N.pow_1_r in Hn.
    rewrite N.mod_small by exact Hn. rewrite (digit_val_char r u n Hn Hr16). f_equal; lia.
  - cbn [digits_rev]. destruct (n <? r) eqn:E.
    + cbn [rev app map digits_value]. rewrite (digit_val_char r u n) by lia. f_equal; lia.
    + cbn [rev]. rewrite map_app, digits_value_app.
      assert (Hq : n / r < r ^ N.of_nat (S k)).
      { apply N.div_lt_upper_bound; [lia|].
        replace (N.of_nat (S (S k))) with (N.succ (N.of_nat (S k))) in Hn by lia.
        rewrite N.pow_succ_r' in Hn. exact Hn. }
      rewrite (IH (n / r) Hq). cbn [map digits_value].
      assert (Hm : n mod r < r) by (apply N.mod_lt; lia).
      rewrite (digit_val_char r u (n mod r) Hm Hr16). f_equal.
      pose proof (N.div_mod n r). lia.
Qed.

Lemma strip_digits u ds : Forall (fun d => d < 16) ds -> strip (map (digit_char u) ds) = map (digit_char u) ds.
Proof.
  induction 1 as [|d ds Hd _ IH]; [reflexivity|].
  unfold strip in *. cbn [map filter]. rewrite (digit_char_not_us u d Hd). cbn [negb]. f_equal. exact IH.
Qed.

Lemma body_ok_digits r u ds : r <= 16 -> Forall (fun d => d < r) ds -> body_ok r (map (digit_char u) ds) = true.
Proof.
  intros Hr. induction 1 as [|d ds Hd _ IH]; [reflexivity|].
  unfold body_ok in *. cbn [map forallb]. rewrite (digit_val_char r u d Hd Hr), orb_true_r. exact IH.
Qed.

Lemma Forall_lt_weaken r ds : r <= 16 -> Forall (fun d => d < r) ds -> Forall (fun d => d < 16) ds.
Proof. intros Hr H. eapply Forall_impl; [|exact H]. cbn. intros; lia. Qed.

Lemma Forall_rev' {A} (P : A -> Prop) l : Forall P l -> Forall P (rev l).
Proof. apply Forall_rev. Qed.

Lemma render_value r u n : 2 <= r -> r <= 16 -> n < r ^ 65 -> n <= I64_MAX ->
  from_str_radix r (strip (render_digits u r n)) = Some n
  /\ body_ok r (render_digits u r n) = true /\ render_digits u r n <> [].
Proof.
  intros Hr Hr16 Hn Hmax. unfold render_digits.
  assert (F : Forall (fun d => d < r) (rev (digits_rev 64 r n))).
  { apply Forall_rev'. apply digits_rev_lt. lia. }
  rewrite (strip_digits u _ (Forall_lt_weaken r _ Hr16 F)).
  assert (NE : map (digit_char u) (rev (digits_rev 64 r n)) <> []).
  { intro H. apply map_eq_nil in H. apply (f_equal (@rev N)) in H. rewrite rev_involutive in H.
    exact (digits_rev_nonempty _ _ _ H). }
  split; [|split; [apply body_ok_digits; assumption|exact NE]].
  unfold from_str_radix.
  destruct (map (digit_char u) (rev (digits_rev 64 r n))) as [|c0 cs] eqn:M; [congruence|].
  rewrite <- M. rewrite (digits_rev_value r u Hr Hr16 64 n) by exact Hn.
  destruct (n <=? I64_MAX) eqn:E; [reflexivity|lia].
Qed.

Lemma pow_bounds : I64_MAX < 2 ^ 65 /\ I64_MAX < 8 ^ 65 /\ I64_MAX < 10 ^ 65 /\ I64_MAX < 16 ^ 65.
Proof. vm_compute. repeat split; reflexivity. Qed.

Lemma radix_prefixed_lemma (p : N) (u : bool) (n : N) :
  is_prefix_letter p = true -> n <= I64_MAX ->
  lex_int (48 :: p :: render_digits u (radix_of_prefix p) n) = Some n.
Proof.
  intros Hp Hn. unfold lex_int. rewrite Hp.
  assert (R : 2 <= radix_of_prefix p /\ radix_of_prefix p <= 16 /\ n < radix_of_prefix p ^ 65).
  { destruct pow_bounds as [B2 [B8 [_ B16]]]. unfold radix_of_prefix.
    destruct ((p =? 120) || (p =? 88)); [lia|]. destruct ((p =? 98) || (p =? 66)); lia. }
  destruct R as [R1 [R2 R3]].
  destruct (render_value (radix_of_prefix p) u n R1 R2 R3 Hn) as [V [B _]].
  rewrite B. exact V.
Qed.

Lemma radix_decimal_lemma (u : bool) (n : N) : n <= I64_MAX -> lex_int (render_digits u 10 n) = Some n.
Proof.
  intro Hn. destruct pow_bounds as [_ [_ [B10 _]]].
  assert (R3 : n < 10 ^ 65) by lia.
  destruct (render_value 10 u n ltac:(lia) ltac:(lia) R3 Hn) as [V [B NE]].
  destruct (render_digits u 10 n) as [|c body] eqn:M; [congruence|].
  unfold body_ok in B. cbn [forallb] in B. apply andb_true_iff in B as [Bc Bb].
  rewrite (lex_int_decimal c body Bb). unfold lex_decimal.
  assert (C : (c =? US) = false).
  { unfold render_digits in M.
    assert (F : Forall (fun d => d < 16) (rev (digits_rev 64 10 n))).
    { apply Forall_rev'. eapply Forall_impl; [|apply (digits_rev_lt 10); lia]. cbn. intros; lia. }
    destruct (rev (digits_rev 64 10 n)) as [|d ds]; [discriminate|].
    cbn [map] in M. injection M as <- _. inversion F; subst. apply digit_char_not_us. assumption. }
  rewrite C in Bc. cbn [orb] in Bc.
  destruct (digit_val 10 c); [|discriminate].
  fold (body_ok 10 body) in Bb. rewrite Bb. exact V.
Qed.

Lemma radix_equivalent_lemma (n : N) (up ud : bool) : n <= I64_MAX ->
  lex_int (render_int 16 up ud n) = Some n /\ lex_int (render_int 2 up ud n) = Some n
  /\ lex_int (render_int 8 up ud n) = Some n /\ lex_int (render_int 10 up ud n) = Some n.
Proof.
  intro Hn.
  assert (H16 : lex_int (render_int 16 up ud n) = Some n).
  { destruct up.
    - exact (radix_prefixed_lemma 88 ud n eq_refl Hn).
    - exact (radix_prefixed_lemma 120 ud n eq_refl Hn). }
  assert (H2 : lex_int (render_int 2 up ud n) = Some n).
  { destruct up.
    - exact (radix_prefixed_lemma 66 ud n eq_refl Hn).
    - exact (radix_prefixed_lemma 98 ud n eq_refl Hn). }
  assert (H8 : lex_int (render_int 8 up ud n) = Some n).
  { destruct up.
    - exact (radix_prefixed_lemma 79 ud n eq_refl Hn).
    - exact (radix_prefixed_lemma 111 ud n eq_refl Hn). }
  assert (H10 : lex_int (render_int 10 up ud n) = Some n).
  { exact (radix_decimal_lemma ud n Hn). }
  exact (conj H16 (conj H2 (conj H8 H10))).
Qed.
