(* Proofs about the register-pool model (Model/RegPool.v): on a pool without holes every
   allocation lands on top, so a call's window has nothing in use above it; the pool operations
   of the compiler keep the pool free of holes; a hole breaks exactly that. *)
From Coq Require Import List Arith Bool Lia.
From Aelys Require Import Model.RegPool.
Import ListNotations.

(* ---- used / top ---- *)
Lemma used_nil r : used [] r = false.
Proof. unfold used. destruct r; reflexivity. Qed.

Lemma used_cons_0 b q : used (b :: q) 0 = b.
Proof. reflexivity. Qed.

Lemma used_cons_S b q r : used (b :: q) (S r) = used q r.
Proof. reflexivity. Qed.

Lemma used_beyond p r : length p <= r -> used p r = false.
Proof. intro H. unfold used. apply nth_overflow. exact H. Qed.

Lemma top_ge p : forall r, top p <= r -> used p r = false.
Proof.
  induction p as [|b q IH]; intros r H.
  - apply used_nil.
  - cbn [top] in H. destruct (top q) as [|t] eqn:Et.
    + destruct r as [|r'].
      * destruct b; [lia | reflexivity].
      * rewrite used_cons_S. apply IH. lia.
    + destruct r as [|r']; [lia|]. rewrite used_cons_S. apply IH. lia.
Qed.

Lemma top_used p : forall t, top p = S t -> used p t = true.
Proof.
  induction p as [|b q IH]; intros t H.
  - discriminate.
  - cbn [top] in H. destruct (top q) as [|t'] eqn:Et.
    + destruct b; [|discriminate]. injection H as <-. reflexivity.
    + injection H as <-. rewrite used_cons_S. apply IH. reflexivity.
Qed.

Lemma used_lt_top p r : used p r = true -> r < top p.
Proof.
  intro H. destruct (Nat.lt_ge_cases r (top p)) as [L|G]; [exact L|].
  rewrite (top_ge p r G) in H. discriminate.
Qed.

Lemma top_le_length p : top p <= length p.
Proof.
  destruct (top p) as [|t] eqn:E; [lia|].
  pose proof (top_used p t E) as U.
  destruct (Nat.lt_ge_cases t (length p)) as [L|G]; [lia|].
  rewrite (used_beyond p t G) in U. discriminate.
Qed.

Lemma top_le_char p t : (forall j, t <= j -> used p j = false) -> top p <= t.
Proof.
  intro H. destruct (top p) as [|t'] eqn:E; [lia|].
  pose proof (top_used p t' E) as U.
  destruct (Nat.lt_ge_cases t' t) as [L|G]; [lia|].
  rewrite (H t' G) in U. discriminate.
Qed.

Lemma top_char p t : used p t = true -> (forall j, t < j -> used p j = false) -> top p = S t.
Proof.
  intros U H. pose proof (used_lt_top p t U) as L.
  assert (top p <= S t) by (apply top_le_char; intros j Hj; apply H; lia).
  lia.
Qed.

(* ---- set_reg ---- *)
Lemma set_reg_length p : forall r b, length (set_reg p r b) = length p.
Proof. induction p as [|x q IH]; intros [|r] b; cbn; try reflexivity. rewrite IH. reflexivity. Qed.

Lemma used_set_reg p : forall r b r', r < length p ->
  used (set_reg p r b) r' = if Nat.eqb r r' then b else used p r'.
Proof.
  induction p as [|x q IH]; intros r b r' H; cbn in H; [lia|].
  destruct r as [|r]; destruct r' as [|r']; cbn [set_reg Nat.eqb]; try reflexivity.
  rewrite !used_cons_S. apply IH. lia.
Qed.

Lemma set_reg_beyond p : forall r b, length p <= r -> set_reg p r b = p.
Proof.
  induction p as [|x q IH]; intros r b H; [destruct r; reflexivity|].
  destruct r as [|r]; cbn in H; [lia|]. cbn. rewrite IH by lia. reflexivity.
Qed.

(* ---- alloc ---- *)
Lemma first_free_spec p : forall r, first_free p = Some r ->
  used p r = false /\ (forall i, i < r -> used p i = true) /\ r < length p.
Proof.
  induction p as [|b q IH]; intros r H; [discriminate|].
  destruct b; cbn [first_free] in H.
  - destruct (first_free q) as [r'|] eqn:E; [|discriminate]. injection H as <-.
    destruct (IH r' eq_refl) as (U & B & L). split; [|split].
    + rewrite used_cons_S. exact U.
    + intros [|i] Hi; [reflexivity|]. rewrite used_cons_S. apply B. lia.
    + cbn. lia.
  - injection H as <-. split; [reflexivity|]. split; [intros i Hi; lia|cbn; lia].
Qed.

Lemma first_free_compact p r : compact p -> first_free p = Some r -> r = top p.
Proof.
  intros C H. destruct (first_free_spec p r H) as (U & B & _).
  destruct (Nat.lt_trichotomy r (top p)) as [L|[E|G]]; [|exact E|].
  - rewrite (C r L) in U. discriminate.
  - pose proof (B (top p) G) as T. rewrite (top_ge p (top p) (le_n _)) in T. discriminate.
Qed.

Lemma alloc_compact p r p' : compact p -> alloc p = Some (r, p') ->
  r = top p /\ compact p' /\ top p' = S r /\ window_clear p' r.
Proof.
  unfold alloc. intros C H. destruct (first_free p) as [r0|] eqn:E; [|discriminate].
  injection H as <- <-. pose proof (first_free_compact p r0 C E) as Er.
  destruct (first_free_spec p r0 E) as (_ & _ & L).
  assert (W : window_clear (set_reg p r0 true) r0).
  { intros j Hj. rewrite used_set_reg by exact L.
    destruct (Nat.eqb_spec r0 j); [lia|]. apply top_ge. lia. }
  assert (T : top (set_reg p r0 true) = S r0).
  { apply top_char; [|exact W]. rewrite used_set_reg by exact L. rewrite Nat.eqb_refl. reflexivity. }
  repeat split; [exact Er| |exact T|exact W].
  intros j Hj. rewrite T in Hj. rewrite used_set_reg by exact L.
  destruct (Nat.eqb_spec r0 j); [reflexivity|]. apply C. lia.
Qed.

(* ---- first fit ---- *)
Lemma used_skipn p : forall s j, used (skipn s p) j = used p (s + j).
Proof.
  induction p as [|b q IH]; intros s j.
  - rewrite skipn_nil. rewrite !used_nil. reflexivity.
  - destruct s as [|s]; [reflexivity|]. cbn [skipn plus]. rewrite used_cons_S. apply IH.
Qed.

Lemma all_free_spec p : forall n, all_free p n = true <-> (n <= length p /\ forall j, j < n -> used p j = false).
Proof.
  induction p as [|b q IH]; intros n.
  - destruct n as [|n].
    + split; [intros _; split; [cbn; lia|intros j Hj; lia]|reflexivity].
    + cbn [all_free]. split; [discriminate|]. intros [L _]. cbn in L. lia.
  - destruct n as [|n]; cbn [all_free].
    + split; [intros _; split; [cbn; lia|intros j Hj; lia]|reflexivity].
    + destruct b.
      * split; [discriminate|]. intros [_ H]. specialize (H 0 ltac:(lia)). discriminate.
      * rewrite IH. split.
        -- intros [L H]. split; [cbn; lia|]. intros [|j] Hj; [reflexivity|]. rewrite used_cons_S. apply H. lia.
        -- intros [L H]. split; [cbn in L; lia|]. intros j Hj. specialize (H (S j) ltac:(lia)). exact H.
Qed.

Lemma first_fit_spec p : forall n s, first_fit p n = Some s ->
  all_free (skipn s p) n = true /\ forall i, i < s -> all_free (skipn i p) n = false.
Proof.
  induction p as [|b q IH]; intros n s H.
  - cbn [first_fit] in H. destruct (all_free [] n) eqn:E; [|discriminate].
    injection H as <-. split; [exact E|intros i Hi; lia].
  - cbn [first_fit] in H. destruct (all_free (b :: q) n) eqn:E.
    + injection H as <-. split; [exact E|intros i Hi; lia].
    + destruct (first_fit q n) as [s'|] eqn:F; [|discriminate]. injection H as <-.
      destruct (IH n s' F) as (A & B). split; [exact A|].
      intros [|i] Hi; [exact E|]. cbn [skipn]. apply B. lia.
Qed.

Lemma first_fit_compact p k s : compact p -> first_fit p (S k) = Some s ->
  s = top p /\ s + S k <= length p.
Proof.
  intros C H. destruct (first_fit_spec p (S k) s H) as (A & B).
  apply all_free_spec in A. destruct A as (L & F).
  rewrite skipn_length in L.
  assert (Us : used p s = false) by (specialize (F 0 ltac:(lia)); rewrite used_skipn, Nat.add_0_r in F; exact F).
  assert (G : top p <= s).
  { destruct (Nat.lt_ge_cases s (top p)) as [Lt|Ge]; [|exact Ge]. rewrite (C s Lt) in Us. discriminate. }
  split; [|lia].
  destruct (Nat.eq_dec s (top p)) as [E|N]; [exact E|].
  assert (Lt : top p < s) by lia.
  pose proof (B (top p) Lt) as Bad.
  assert (Good : all_free (skipn (top p) p) (S k) = true).
  { apply all_free_spec. rewrite skipn_length. split; [lia|].
    intros j Hj. rewrite used_skipn. apply top_ge. lia. }
  rewrite Good in Bad. discriminate.
Qed.

(* ---- mark ---- *)
Lemma mark_length p : forall n s, length (mark p s n) = length p.
Proof.
  intros n. revert p. induction n as [|n IH]; intros p s; [reflexivity|].
  cbn [mark]. rewrite IH, set_reg_length. reflexivity.
Qed.

Lemma used_mark_out : forall n p s r, r < s \/ s + n <= r -> used (mark p s n) r = used p r.
Proof.
  induction n as [|n IH]; intros p s r H; [reflexivity|].
  cbn [mark]. rewrite IH by lia.
  destruct (Nat.lt_ge_cases s (length p)) as [L|G].
  - rewrite used_set_reg by exact L. destruct (Nat.eqb_spec s r); [lia|reflexivity].
  - rewrite set_reg_beyond by exact G. reflexivity.
Qed.

Lemma used_mark_in : forall n p s r, s <= r < s + n -> s + n <= length p -> used (mark p s n) r = true.
Proof.
  induction n as [|n IH]; intros p s r H L; [lia|].
  cbn [mark]. destruct (Nat.eq_dec s r) as [E|N].
  - subst r. rewrite used_mark_out by lia. rewrite used_set_reg by lia. rewrite Nat.eqb_refl. reflexivity.
  - apply IH; [lia|]. rewrite set_reg_length. lia.
Qed.

Lemma window_compact p k s : compact p -> first_fit p (S k) = Some s ->
  window_clear (mark p s (S k)) (s + k) /\ compact (mark p s (S k)) /\ top (mark p s (S k)) = S (s + k).
Proof.
  intros C H. destruct (first_fit_compact p k s C H) as (E & L).
  assert (W : window_clear (mark p s (S k)) (s + k)).
  { intros r Hr. rewrite used_mark_out by lia. apply top_ge. lia. }
  assert (T : top (mark p s (S k)) = S (s + k)).
  { apply top_char; [|exact W]. apply used_mark_in; lia. }
  repeat split; [exact W| |exact T].
  intros r Hr. rewrite T in Hr. destruct (Nat.lt_ge_cases r s) as [Lt|Ge].
  - rewrite used_mark_out by lia. apply C. lia.
  - apply used_mark_in; lia.
Qed.

(* ---- freeing ---- *)
Lemma free_top_compact p t : compact p -> top p = S t -> compact (free p t) /\ top (free p t) <= t.
Proof.
  intros C E. unfold free.
  assert (L : t < length p) by (pose proof (top_le_length p); lia).
  assert (T : top (set_reg p t false) <= t).
  { apply top_le_char. intros j Hj. rewrite used_set_reg by exact L.
    destruct (Nat.eqb_spec t j); [reflexivity|]. apply top_ge. lia. }
  split; [|exact T].
  intros r Hr. rewrite used_set_reg by exact L.
  destruct (Nat.eqb_spec t r); [lia|]. apply C. lia.
Qed.

Lemma free_dead_top_compact fuel dead : forall p, compact p -> compact (free_dead_top fuel dead p).
Proof.
  induction fuel as [|f IH]; intros p C; [exact C|].
  cbn [free_dead_top]. destruct (top p) as [|t] eqn:E; [exact C|].
  destruct (dead t); [|exact C]. apply IH. apply (free_top_compact p t C E).
Qed.

Lemma free_dead_top_only_dead fuel dead : forall p r,
  used p r = true -> used (free_dead_top fuel dead p) r = false -> dead r = true.
Proof.
  induction fuel as [|f IH]; intros p r U F; cbn [free_dead_top] in F.
  - rewrite U in F. discriminate.
  - destruct (top p) as [|t] eqn:E; [rewrite U in F; discriminate|].
    destruct (dead t) eqn:D; [|rewrite U in F; discriminate].
    destruct (Nat.eq_dec t r) as [<-|N]; [exact D|].
    apply (IH (free p t) r); [|exact F].
    unfold free. pose proof (top_le_length p).
    rewrite used_set_reg by lia. destruct (Nat.eqb_spec t r); [contradiction|exact U].
Qed.

(* ---- a hole is exactly what makes a call unsafe ---- *)
Lemma hole_alloc_below_live p r p' : alloc p = Some (r, p') -> r < top p ->
  ~ window_clear p' r.
Proof.
  unfold alloc. intros H L W. destruct (first_free p) as [r0|] eqn:E; [|discriminate].
  injection H as <- <-. destruct (first_free_spec p r0 E) as (_ & _ & Len).
  destruct (top p) as [|t] eqn:Et; [lia|].
  pose proof (top_used p t Et) as U.
  destruct (Nat.eq_dec r0 t) as [->|N].
  - destruct (first_free_spec p t E) as (F & _ & _). rewrite F in U. discriminate.
  - specialize (W t ltac:(lia)). rewrite used_set_reg in W by exact Len.
    destruct (Nat.eqb_spec r0 t); [contradiction|]. rewrite U in W. discriminate.
Qed.

(* ---- sequences of pool operations ---- *)
Inductive pop :=
| PAlloc                                   (* alloc_register *)
| PFreeTop                                 (* free_register of the top register (LIFO) *)
| PFreeDead (fuel : nat) (dead : nat -> bool)   (* free_dead_locals *)
| PWindow (nargs : nat).                   (* find a call window and mark it *)

Definition pstep (p : pool) (o : pop) : pool :=
  match o with
  | PAlloc => match alloc p with Some (_, p') => p' | None => p end
  | PFreeTop => match top p with 0 => p | S t => free p t end
  | PFreeDead f d => free_dead_top f d p
  | PWindow n => match first_fit p (S n) with Some s => mark p s (S n) | None => p end
  end.

Lemma pstep_compact p o : compact p -> compact (pstep p o).
Proof.
  intro C. destruct o as [| |f d|n]; cbn [pstep].
  - destruct (alloc p) as [[r p']|] eqn:E; [|exact C]. apply (alloc_compact p r p' C E).
  - destruct (top p) as [|t] eqn:E; [exact C|]. apply (free_top_compact p t C E).
  - apply free_dead_top_compact. exact C.
  - destruct (first_fit p (S n)) as [s|] eqn:E; [|exact C]. apply (window_compact p n s C E).
Qed.

Lemma run_compact ops : forall p, compact p -> compact (fold_left pstep ops p).
Proof.
  induction ops as [|o ops IH]; intros p C; [exact C|]. cbn [fold_left]. apply IH. apply pstep_compact. exact C.
Qed.

Lemma compact_empty n : compact (repeat false n).
Proof.
  intros r Hr. assert (T : top (repeat false n) = 0).
  { assert (top (repeat false n) <= 0); [|lia]. apply top_le_char. intros j _.
    unfold used. destruct (Nat.lt_ge_cases j n) as [L|G].
    - apply nth_repeat.
    - apply nth_overflow. rewrite repeat_length. exact G. }
  lia.
Qed.

Lemma compactb_spec p : compactb p = true -> compact p.
Proof.
  induction p as [|b q IH]; intro H.
  - intros r Hr. cbn in Hr. lia.
  - destruct b; cbn [compactb] in H.
    + specialize (IH H). intros r Hr. destruct r as [|r]; [reflexivity|].
      rewrite used_cons_S. apply IH. cbn [top] in Hr. destruct (top q); [destruct r; lia|lia].
    + destruct (top q) eqn:E; [|discriminate]. intros r Hr. cbn [top] in Hr. rewrite E in Hr. lia.
Qed.
